#!/usr/bin/env python3
"""usage: seedmeta.py <ID> <first_run: detected|missed|inconclusive> <breaks> <needs> <file> <detected_by>"""
import json, sys
id, first, breaks, needs, file, det = sys.argv[1:7]
json.dump({"property": id.split('-')[0], "breaks": breaks, "needs": needs, "file": file, "detected_by": det, "first_run": first,
           "ran": [f"./seedconfirm.sh {id} (suite 342/0; demo fails with / passes without)",
                   f"./seedreg.sh <slot> {id} (scratch copy of /repo + patch; quick check of the property)"]},
          open(f'/verif/seeded/{id}/meta.json', 'w'), indent=1)
