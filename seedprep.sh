#!/bin/bash
# usage: seedprep.sh <ID>...   (ID = Cxx-n): scratch worktree /tmp/wt-<ID>, /tmp/seed-<ID>/property.txt, prompt in /tmp/seed-<ID>/PROMPT.txt
for id in "$@"; do
  p=${id%-*}
  git -C /repo worktree add --detach /tmp/wt-$id HEAD >/dev/null 2>&1 || { echo "worktree failed for $id"; continue; }
  mkdir -p /tmp/seed-$id
  python3 - "$id" "$p" <<'PY'
import json, sys, glob, os
id, p = sys.argv[1], sys.argv[2]
prop = [json.loads(l) for l in open('/verif/properties.jsonl') if json.loads(l)['id'] == p][0]
with open(f'/tmp/seed-{id}/property.txt', 'w') as f:
    f.write(f"{prop['id']}: {prop['title']}\n\nSTATEMENT\n{prop['statement']}\n\nQUANTIFIER\n{prop['quantifier']}\n\nWHY TESTS CANNOT SETTLE IT\n{prop['why_tests_cant']}\n\nANCHORS\n" + '\n'.join(map(str, prop['anchors'])) + '\n')
earlier = []
for m in sorted(glob.glob(f'/verif/seeded/{p}-*/meta.json')):
    earlier.append('- ' + json.load(open(m))['breaks'])
extra = ''
if earlier:
    extra = ("\nEarlier seeded changes for this property already did the following; choose a DIFFERENT place and a different kind of slip "
             "(another function, another stage of the pipeline, another input feature):\n" + '\n'.join(earlier) + '\n')
t = open('/verif/seeded/PROMPT_TEMPLATE.txt').read().replace('@ID@', id).replace('@EXTRA@', extra)
open(f'/tmp/seed-{id}/PROMPT.txt', 'w').write(t)
PY
  echo "prepared $id"
done
