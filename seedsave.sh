#!/bin/bash
# usage: seedsave.sh <ID>  : copies the confirmed deliverables of /tmp/seed-<ID> to /verif/seeded/<ID>/ and removes the scratch worktree
for id in "$@"; do
  mkdir -p /verif/seeded/$id
  cp /tmp/seed-$id/patch.diff /tmp/seed-$id/demo.rs /verif/seeded/$id/
  [ -f /tmp/seed-$id/notes.md ] && cp /tmp/seed-$id/notes.md /verif/seeded/$id/
  git -C /repo worktree remove --force /tmp/wt-$id && echo "saved $id, worktree removed"
done
