//! Native runner: replays counterexamples and provides concrete observations of the real,
//! natively compiled compiler (public API only). JSON lines on stdin -> JSON lines on stdout.
use rasn_compiler::prelude::ir::*;
use rasn_compiler::prelude::*;
use serde_json::{json, Value};
use std::cell::RefCell;
use std::io::{BufRead, Write};
use std::panic::{catch_unwind, AssertUnwindSafe};

thread_local! {
    static IR_DUMP: RefCell<Vec<Value>> = RefCell::new(vec![]);
}

/// Backend that records the linked IR handed to `generate_module`
#[derive(Default)]
struct IrDump {
    cfg: (),
}
impl Backend for IrDump {
    type Config = ();
    const FILE_EXTENSION: &'static str = ".ir";
    fn generate_module(&mut self, tlds: Vec<ToplevelDefinition>) -> Result<GeneratedModule, GeneratorError> {
        let defs: Vec<Value> = tlds.iter().map(|t| json!(format!("{:?}", t))).collect();
        IR_DUMP.with(|d| d.borrow_mut().push(json!({"tlds": defs})));
        Ok(GeneratedModule { generated: Some(String::new()), warnings: vec![] })
    }
    fn generate(&self, _tld: ToplevelDefinition) -> Result<String, GeneratorError> {
        Ok(String::new())
    }
    fn config(&self) -> &Self::Config {
        &self.cfg
    }
    fn from_config(_config: Self::Config) -> Self {
        IrDump { cfg: () }
    }
    fn new(_config: Self::Config, _t: TaggingEnvironment, _e: ExtensibilityEnvironment) -> Self {
        IrDump { cfg: () }
    }
}

fn rasn_config(v: &Value) -> RasnConfig {
    let mut c = RasnConfig::default();
    if let Some(b) = v.get("opaque_open_types").and_then(|x| x.as_bool()) {
        c.opaque_open_types = b;
    }
    if let Some(b) = v.get("default_wildcard_imports").and_then(|x| x.as_bool()) {
        c.default_wildcard_imports = b;
    }
    if let Some(b) = v.get("generate_from_impls").and_then(|x| x.as_bool()) {
        c.generate_from_impls = b;
    }
    if let Some(b) = v.get("no_std_compliant_bindings").and_then(|x| x.as_bool()) {
        c.no_std_compliant_bindings = b;
    }
    if let Some(a) = v.get("custom_imports").and_then(|x| x.as_array()) {
        c.custom_imports = a.iter().filter_map(|s| s.as_str().map(|s| s.to_string())).collect();
    }
    if let Some(a) = v.get("type_annotations").and_then(|x| x.as_array()) {
        c.type_annotations = a.iter().filter_map(|s| s.as_str().map(|s| s.to_string())).collect();
    }
    c
}

fn err_json(e: &CompilerError, sources: &[String]) -> Value {
    let display = catch_unwind(AssertUnwindSafe(|| e.to_string()));
    let ctx = catch_unwind(AssertUnwindSafe(|| e.contextualize(sources.first().map(|s| s.as_str()).unwrap_or(""))));
    let mut v = json!({
        "display": display.as_ref().ok(),
        "display_panicked": display.is_err(),
        "contextualize": ctx.as_ref().ok(),
        "contextualize_panicked": ctx.is_err(),
        "debug": format!("{:?}", e),
    });
    if let CompilerError::Lexer(le) = e {
        if let LexerErrorType::MatchingError(rd) = &le.kind {
            v["report"] = json!({"line": rd.line, "column": rd.column, "offset": rd.offset,
                "context_start_line": rd.context_start_line, "context_start_offset": rd.context_start_offset,
                "reason": rd.reason, "unexpected_eof": rd.unexpected_eof, "src_file": rd.src_file});
        }
    }
    v
}

fn add_sources<B: Backend>(c: Compiler<B, CompilerMissingParams>, sources: &[String]) -> Compiler<B, CompilerSourcesSet> {
    let mut it = sources.iter();
    let mut c2 = c.add_asn_literal(it.next().cloned().unwrap_or_default());
    for s in it {
        c2 = c2.add_asn_literal(s.clone());
    }
    c2
}

fn compile(cmd: &Value) -> Value {
    let sources: Vec<String> = cmd["sources"].as_array().map(|a| a.iter().filter_map(|s| s.as_str().map(|s| s.to_string())).collect()).unwrap_or_default();
    let backend = cmd["backend"].as_str().unwrap_or("rasn");
    let res = match backend {
        "ts" => add_sources(Compiler::<TypescriptBackend, _>::new(), &sources).compile_to_string(),
        "ir" => {
            IR_DUMP.with(|d| d.borrow_mut().clear());
            add_sources(Compiler::<IrDump, _>::new(), &sources).compile_to_string()
        }
        // the sources handed over as FILES (written to a scratch directory that is removed afterwards)
        _ if cmd["files"].as_bool().unwrap_or(false) => {
            let dir = std::env::temp_dir().join(format!("verif-c17-{}", std::process::id()));
            let _ = std::fs::remove_dir_all(&dir);
            let _ = std::fs::create_dir_all(&dir);
            let paths: Vec<std::path::PathBuf> = sources.iter().enumerate().map(|(i, s)| { let p = dir.join(format!("src{i}.asn")); let _ = std::fs::write(&p, s); p }).collect();
            let mut it = paths.iter();
            let mut c = Compiler::<RasnBackend, _>::new_with_config(rasn_config(&cmd["config"])).add_asn_by_path(it.next().cloned().unwrap_or_default());
            for p in it {
                c = c.add_asn_by_path(p.clone());
            }
            let r = c.compile_to_string();
            let _ = std::fs::remove_dir_all(&dir);
            r
        }
        _ => add_sources(Compiler::<RasnBackend, _>::new_with_config(rasn_config(&cmd["config"])), &sources).compile_to_string(),
    };
    match res {
        Ok(r) => {
            let warnings: Vec<Value> = r.warnings.iter().map(|w| err_json(w, &sources)).collect();
            let mut v = json!({"ok": true, "generated": r.generated, "warnings": warnings});
            if backend == "ir" {
                v["ir"] = IR_DUMP.with(|d| json!(d.borrow().clone()));
            }
            if backend == "rasn" && cmd["project"].as_bool().unwrap_or(false) {
                v["items"] = project(&r.generated);
            }
            v
        }
        Err(e) => json!({"ok": false, "error": err_json(&e, &sources)}),
    }
}

/// two rasn compilers are set up first and run afterwards
fn compile_pair(cmd: &Value) -> Value {
    let get = |k: &str| -> Vec<String> { cmd[k].as_array().map(|a| a.iter().filter_map(|s| s.as_str().map(|s| s.to_string())).collect()).unwrap_or_default() };
    let (sa, sb) = (get("a"), get("b"));
    let ca = add_sources(Compiler::<RasnBackend, _>::new_with_config(rasn_config(&cmd["config"])), &sa);
    let cb = add_sources(Compiler::<RasnBackend, _>::new_with_config(rasn_config(&cmd["config"])), &sb);
    let fmt = |res: Result<rasn_compiler::CompileResult, CompilerError>, sources: &Vec<String>| match res {
        Ok(r) => json!({"ok": true, "generated": r.generated, "warnings": r.warnings.iter().map(|w| err_json(w, sources)).collect::<Vec<Value>>()}),
        Err(e) => json!({"ok": false, "error": err_json(&e, sources)}),
    };
    let ra = ca.compile_to_string();
    let rb = cb.compile_to_string();
    json!({"a": fmt(ra, &sa), "b": fmt(rb, &sb)})
}

// ---------------------------------------------------------------- syn projection
fn ts<T: quote::ToTokens>(t: &T) -> String {
    t.to_token_stream().to_string()
}
fn attrs(a: &[syn::Attribute]) -> Vec<String> {
    a.iter().map(|x| ts(&x.meta)).collect()
}
fn fields(f: &syn::Fields) -> Vec<Value> {
    f.iter()
        .enumerate()
        .map(|(i, f)| json!({"name": f.ident.as_ref().map(|i| i.to_string()).unwrap_or(i.to_string()), "ty": ts(&f.ty), "attrs": attrs(&f.attrs), "vis": ts(&f.vis)}))
        .collect()
}
fn project_items(items: &[syn::Item]) -> Vec<Value> {
    let mut out = vec![];
    for it in items {
        match it {
            syn::Item::Struct(s) => out.push(json!({"kind": "struct", "name": s.ident.to_string(), "attrs": attrs(&s.attrs), "fields": fields(&s.fields),
                "tuple": matches!(s.fields, syn::Fields::Unnamed(_)), "unit": matches!(s.fields, syn::Fields::Unit)})),
            syn::Item::Enum(e) => out.push(json!({"kind": "enum", "name": e.ident.to_string(), "attrs": attrs(&e.attrs),
                "variants": e.variants.iter().map(|v| json!({"name": v.ident.to_string(), "attrs": attrs(&v.attrs), "fields": fields(&v.fields),
                    "discriminant": v.discriminant.as_ref().map(|(_, e)| ts(e))})).collect::<Vec<_>>() })),
            syn::Item::Const(c) => out.push(json!({"kind": "const", "name": c.ident.to_string(), "ty": ts(&c.ty), "expr": ts(&c.expr), "attrs": attrs(&c.attrs)})),
            syn::Item::Static(c) => out.push(json!({"kind": "static", "name": c.ident.to_string(), "ty": ts(&c.ty), "expr": ts(&c.expr), "attrs": attrs(&c.attrs)})),
            syn::Item::Fn(f) => out.push(json!({"kind": "fn", "name": f.sig.ident.to_string(), "sig": ts(&f.sig), "body": ts(&f.block), "attrs": attrs(&f.attrs)})),
            syn::Item::Impl(i) => out.push(json!({"kind": "impl", "trait": i.trait_.as_ref().map(|(_, p, _)| ts(p)), "self_ty": ts(&i.self_ty),
                "items": i.items.iter().map(|x| match x { syn::ImplItem::Fn(f) => json!({"kind": "fn", "name": f.sig.ident.to_string(), "sig": ts(&f.sig), "body": ts(&f.block)}), o => json!({"kind": "other", "text": ts(o)}) }).collect::<Vec<_>>() })),
            syn::Item::Use(u) => out.push(json!({"kind": "use", "tree": ts(&u.tree), "attrs": attrs(&u.attrs)})),
            syn::Item::Mod(m) => out.push(json!({"kind": "mod", "name": m.ident.to_string(), "attrs": attrs(&m.attrs),
                "items": m.content.as_ref().map(|(_, i)| project_items(i))})),
            syn::Item::Type(t) => out.push(json!({"kind": "type", "name": t.ident.to_string(), "ty": ts(&t.ty), "attrs": attrs(&t.attrs)})),
            syn::Item::Macro(m) => out.push(json!({"kind": "macro", "path": ts(&m.mac.path), "tokens": m.mac.tokens.to_string()})),
            o => out.push(json!({"kind": "other", "text": ts(o)})),
        }
    }
    out
}
fn project(src: &str) -> Value {
    match syn::parse_file(src) {
        Ok(f) => json!({"ok": true, "items": project_items(&f.items)}),
        Err(e) => json!({"ok": false, "error": e.to_string()}),
    }
}

// ---------------------------------------------------------------- compile() into a real (temporary) destination
/// state: "absent" | "existing" (file with `existing` content) | "dir" | "dir-existing" (directory containing
/// generated.<ext> with `existing` content) | "missing-parent".  Returns the result of compile(), the final content
/// of the destination file (if any) and the text compile_to_string() returns for the same sources.
fn compile_file(cmd: &Value) -> Value {
    use std::sync::atomic::{AtomicUsize, Ordering};
    static N: AtomicUsize = AtomicUsize::new(0);
    let sources: Vec<String> = cmd["sources"].as_array().map(|a| a.iter().filter_map(|s| s.as_str().map(|s| s.to_string())).collect()).unwrap_or_default();
    let backend = cmd["backend"].as_str().unwrap_or("rasn");
    let state = cmd["state"].as_str().unwrap_or("absent");
    let existing = cmd["existing"].as_str().unwrap_or("");
    let ext = if backend == "ts" { ".ts" } else { ".rs" };
    let root = std::env::temp_dir().join(format!("verif-c20-{}-{}", std::process::id(), N.fetch_add(1, Ordering::SeqCst)));
    let _ = std::fs::remove_dir_all(&root);
    if std::fs::create_dir_all(&root).is_err() {
        return json!({"error": "cannot create scratch directory"});
    }
    let (dest, file) = match state {
        "existing" => {
            let f = root.join("out.txt");
            let _ = std::fs::write(&f, existing);
            (f.clone(), f)
        }
        "dir" => {
            let d = root.join("outdir");
            let _ = std::fs::create_dir_all(&d);
            (d.clone(), d.join(format!("generated{ext}")))
        }
        "dir-existing" => {
            let d = root.join("outdir");
            let _ = std::fs::create_dir_all(&d);
            let f = d.join(format!("generated{ext}"));
            let _ = std::fs::write(&f, existing);
            (d, f)
        }
        "missing-parent" => {
            let f = root.join("no-such-dir").join("out.txt");
            (f.clone(), f)
        }
        _ => {
            let f = root.join("out.txt");
            (f.clone(), f)
        }
    };
    let expected = match backend {
        "ts" => add_sources(Compiler::<TypescriptBackend, _>::new(), &sources).compile_to_string().ok().map(|r| r.generated),
        _ => add_sources(Compiler::<RasnBackend, _>::new(), &sources).compile_to_string().ok().map(|r| r.generated),
    };
    // builder variants: output mode before / after the sources, the compiler built for the OTHER backend and swapped with
    // with_backend, the destination directory created only after the compiler was built ("late-dir")
    let mode_first = cmd["mode_first"].as_bool().unwrap_or(false);
    let swap = cmd["swap"].as_bool().unwrap_or(false);
    let late = state == "late-dir";
    let (dest, file) = if late {
        let d = root.join("latedir");
        (d.clone(), d.join(format!("generated{ext}")))
    } else {
        (dest, file)
    };
    fn build<B1: Backend, B2: Backend>(sources: &[String], dest: &std::path::Path, mode_first: bool, late: bool) -> Result<usize, String> {
        let mode = rasn_compiler::OutputMode::SingleFile(dest.to_path_buf());
        let ready = if mode_first {
            let mut it = sources.iter();
            let mut c = Compiler::<B1, _>::new().set_output_mode(mode).add_asn_literal(it.next().cloned().unwrap_or_default());
            for s in it {
                c = c.add_asn_literal(s.clone());
            }
            c
        } else {
            add_sources(Compiler::<B1, _>::new(), sources).set_output_mode(mode)
        };
        let ready = ready.with_backend(B2::default());
        if late {
            let _ = std::fs::create_dir_all(dest);
        }
        ready.compile().map(|w| w.len()).map_err(|e| format!("{e:?}"))
    }
    let res = catch_unwind(AssertUnwindSafe(|| match (backend, swap) {
        ("ts", false) => build::<TypescriptBackend, TypescriptBackend>(&sources, &dest, mode_first, late),
        ("ts", true) => build::<RasnBackend, TypescriptBackend>(&sources, &dest, mode_first, late),
        (_, false) => build::<RasnBackend, RasnBackend>(&sources, &dest, mode_first, late),
        (_, true) => build::<TypescriptBackend, RasnBackend>(&sources, &dest, mode_first, late),
    }));
    let content = std::fs::read_to_string(&file).ok();
    let entries: Vec<String> = walk(&root).into_iter().map(|p| p.strip_prefix(&root).map(|q| q.display().to_string()).unwrap_or_default()).collect();
    let _ = std::fs::remove_dir_all(&root);
    match res {
        Ok(Ok(n)) => json!({"result": "ok", "warnings": n, "content": content, "expected": expected, "entries": entries}),
        Ok(Err(e)) => json!({"result": "err", "error": e, "content": content, "expected": expected, "entries": entries}),
        Err(_) => json!({"result": "panic", "content": content, "expected": expected, "entries": entries}),
    }
}

fn walk(dir: &std::path::Path) -> Vec<std::path::PathBuf> {
    let mut out = vec![];
    if let Ok(rd) = std::fs::read_dir(dir) {
        for e in rd.flatten() {
            let p = e.path();
            if p.is_dir() {
                out.extend(walk(&p));
            } else {
                out.push(p);
            }
        }
    }
    out.sort();
    out
}

// ---------------------------------------------------------------- public kernels called directly
fn handle(cmd: &Value) -> Value {
    match cmd["cmd"].as_str().unwrap_or("") {
        "compile" => compile(cmd),
        "compile_file" => compile_file(cmd),
        "compile_pair" => compile_pair(cmd),
        "project" => project(cmd["text"].as_str().unwrap_or("")),
        "ping" => json!({"pong": true}),
        other => json!({"error": format!("unknown cmd {other}")}),
    }
}

fn main() {
    std::panic::set_hook(Box::new(|_| {}));
    let stdin = std::io::stdin();
    let stdout = std::io::stdout();
    for line in stdin.lock().lines() {
        let line = match line {
            Ok(l) => l,
            Err(_) => break,
        };
        if line.trim().is_empty() {
            continue;
        }
        let cmd: Value = match serde_json::from_str(&line) {
            Ok(v) => v,
            Err(e) => {
                let _ = writeln!(stdout.lock(), "{}", json!({"error": format!("bad json: {e}")}));
                continue;
            }
        };
        let r = catch_unwind(AssertUnwindSafe(|| handle(&cmd)));
        let out = match r {
            Ok(v) => v,
            Err(p) => {
                let msg = p.downcast_ref::<String>().cloned().or_else(|| p.downcast_ref::<&str>().map(|s| s.to_string())).unwrap_or("panic".into());
                json!({"panic": msg})
            }
        };
        let mut o = stdout.lock();
        let _ = writeln!(o, "{}", out);
        let _ = o.flush();
    }
}
