//! rustc_public (stable-MIR) front end of mirsym.
//! Run as RUSTC_WORKSPACE_WRAPPER over /repo/rasn-compiler. For the crate named in SMIR_CRATE it
//! collects the monomorphised instances reachable from the root functions named (by path suffix)
//! in SMIR_ROOTS and writes bodies, types (+layouts) and global allocations to SMIR_OUT as JSON.
#![feature(rustc_private)]
extern crate rustc_driver;
extern crate rustc_interface;
extern crate rustc_middle;
#[macro_use]
extern crate rustc_public;
extern crate rustc_public_bridge;
extern crate serde;
extern crate serde_json;

use rustc_public::mir::alloc::{AllocId, GlobalAlloc};
use rustc_public::mir::mono::{Instance, StaticDef};
use rustc_public::mir::{Operand, Rvalue, StatementKind, TerminatorKind};
use rustc_public::ty::{AdtKind, ClosureKind, RigidTy, Ty, TyKind, VariantIdx};
use rustc_public::CrateDef;
use rustc_public_bridge::IndexedVal;
use serde_json::{json, Value};
use std::collections::{BTreeMap, BTreeSet, VecDeque};
use std::ops::ControlFlow;

struct Ctx {
    types: BTreeMap<usize, Value>,
    ty_queue: VecDeque<Ty>,
    seen_ty: BTreeSet<usize>,
    insts: BTreeMap<String, Value>,
    inst_queue: VecDeque<Instance>,
    seen_inst: BTreeSet<String>,
    nobody_filter: Vec<String>,
    trait_fns: BTreeMap<String, Option<rustc_public::ty::FnDef>>,
    /// #[thread_local] statics reached through Rvalue::ThreadLocalRef, keyed by the JSON of the item as it appears in the body
    tls: BTreeMap<String, Value>,
}

fn ty_id(t: Ty) -> usize {
    serde_json::to_value(&t).unwrap().as_u64().unwrap() as usize
}

impl Ctx {
    fn note_ty(&mut self, t: Ty) -> usize {
        let id = ty_id(t);
        if self.seen_ty.insert(id) {
            self.ty_queue.push_back(t);
        }
        id
    }
    fn note_inst(&mut self, i: Instance) -> String {
        let name = i.mangled_name();
        if self.seen_inst.insert(name.clone()) {
            self.inst_queue.push_back(i);
        }
        name
    }
    fn process_ty(&mut self, t: Ty) {
        let id = ty_id(t);
        let kind = t.kind();
        let mut v = json!({"kind": serde_json::to_value(&kind).unwrap(), "str": format!("{}", t)});
        if let Ok(l) = t.layout() {
            v["layout"] = serde_json::to_value(&l.shape()).unwrap_or(Value::Null);
        }
        if let TyKind::RigidTy(r) = &kind {
            match r {
                RigidTy::Adt(def, args) => {
                    let mut variants = vec![];
                    for (vi, var) in def.variants().into_iter().enumerate() {
                        let mut fields = vec![];
                        for f in var.fields() {
                            let fty = f.ty_with_args(args);
                            fields.push(json!({"name": f.name, "ty": self.note_ty(fty)}));
                        }
                        let discr = if def.kind() == AdtKind::Enum {
                            def.discriminant_for_variant(VariantIdx::to_val(vi)).val.to_string()
                        } else {
                            vi.to_string()
                        };
                        variants.push(json!({"name": var.name(), "fields": fields, "discr": discr}));
                    }
                    let mut targs = vec![];
                    for a in args.0.iter() {
                        if let rustc_public::ty::GenericArgKind::Type(t2) = a {
                            targs.push(json!(self.note_ty(*t2)));
                        } else {
                            targs.push(Value::Null);
                        }
                    }
                    v["adt"] = json!({"name": def.name(), "kind": format!("{:?}", def.kind()), "variants": variants, "targs": targs});
                }
                RigidTy::Tuple(ts) => {
                    let ids: Vec<usize> = ts.iter().map(|t| self.note_ty(*t)).collect();
                    v["tuple"] = json!(ids);
                }
                RigidTy::Ref(_, t2, _) | RigidTy::RawPtr(t2, _) | RigidTy::Slice(t2) => {
                    v["inner"] = json!(self.note_ty(*t2));
                }
                RigidTy::Array(t2, _) => {
                    v["inner"] = json!(self.note_ty(*t2));
                }
                RigidTy::Closure(def, args) => {
                    for (kn, kind) in [("Fn", ClosureKind::Fn), ("FnMut", ClosureKind::FnMut), ("FnOnce", ClosureKind::FnOnce)] {
                        if let Ok(ci) = Instance::resolve_closure(*def, args, kind) {
                            let m = self.note_inst(ci);
                            v[format!("closure_{}", kn)] = json!(m);
                        }
                    }
                    v["closure_name"] = json!(def.name());
                    if let Some(rustc_public::ty::GenericArgKind::Type(up)) = args.0.last() {
                        v["upvars"] = json!(self.note_ty(*up));
                    }
                }
                RigidTy::FnDef(def, args) => {
                    if let Ok(ci) = Instance::resolve(*def, args) {
                        let m = self.note_inst(ci);
                        v["fn_inst"] = json!(m);
                    }
                    v["fn_name"] = json!(def.name());
                }
                _ => {}
            }
        }
        self.types.insert(id, v);
    }

    /// FnDef of `Trait::method` (trait named by its path as printed by rustc_public)
    fn trait_fn(&mut self, tr: &str, method: &str) -> Option<rustc_public::ty::FnDef> {
        let key = format!("{}::{}", tr, method);
        if let Some(r) = self.trait_fns.get(&key) {
            return *r;
        }
        let mut found = None;
        for td in rustc_public::all_trait_decls() {
            let n = td.name();
            if n == tr || n == tr.replace("std::", "core::") || n == tr.replace("std::", "alloc::") {
                for ai in td.associated_items() {
                    if let rustc_public::ty::AssocKind::Fn { name, .. } = &ai.kind {
                        if name == method {
                            found = Some(rustc_public::ty::FnDef(ai.def_id.def_id()));
                        }
                    }
                }
            }
        }
        self.trait_fns.insert(key, found);
        found
    }
    fn resolve_tm(&mut self, tr: &str, method: &str, tys: &[Ty]) -> Option<Instance> {
        let fd = self.trait_fn(tr, method)?;
        let args = rustc_public::ty::GenericArgs(tys.iter().map(|t| rustc_public::ty::GenericArgKind::Type(*t)).collect());
        Instance::resolve(fd, &args).ok()
    }
    /// auxiliary trait-method instances that models of std functions need to call back into real code
    fn aux_for(&mut self, name: &str, inst: &Instance) -> Value {
        let mut aux = serde_json::Map::new();
        let targs: Vec<Ty> = inst.args().0.iter().filter_map(|a| if let rustc_public::ty::GenericArgKind::Type(t) = a { Some(*t) } else { None }).collect();
        if targs.is_empty() {
            return Value::Null;
        }
        let last = *targs.last().unwrap();
        let first = targs[0];
        if name.starts_with("core::fmt::rt::Argument::<'_>::new_display::<") {
            if let Some(i) = self.resolve_tm("std::fmt::Display", "fmt", &[first]) {
                aux.insert("fmt".into(), json!(self.note_inst(i)));
            }
        }
        let wants_iter = ["::from_iter::<", "::extend::<", "::extend_desugared::<", "::join::<", "::concat::<", "::sum::<", "::product::<", "::collect_into", "::append_all::<", "::append_separated::<", "::append_terminated::<", "::unzip::<", "::partition::<"]
            .iter()
            .any(|p| name.contains(p));
        if wants_iter && (name.starts_with('<') || name.starts_with("std::") || name.starts_with("core::") || name.starts_with("alloc::") || name.starts_with("proc_macro2::") || name.starts_with("quote::")) {
            let mut it_ty = last;
            if let Some(i) = self.resolve_tm("std::iter::IntoIterator", "into_iter", &[last]) {
                if let Ok(abi) = i.fn_abi() {
                    it_ty = abi.ret.ty;
                }
                aux.insert("IntoIterator::into_iter".into(), json!(self.note_inst(i)));
            }
            if let Some(i) = self.resolve_tm("std::iter::Iterator", "next", &[it_ty]) {
                aux.insert("Iterator::next".into(), json!(self.note_inst(i)));
            }
        }
        if name.contains("::try_fold::<") || name.contains("::try_for_each::<") || name.contains("::try_rfold::<") {
            if let Some(b) = self.resolve_tm("std::ops::Try", "branch", &[last]) {
                let mut res_ty = None;
                if let Ok(abi) = b.fn_abi() {
                    if let TyKind::RigidTy(RigidTy::Adt(_, args)) = abi.ret.ty.kind() {
                        if let Some(rustc_public::ty::GenericArgKind::Type(t)) = args.0.first() {
                            res_ty = Some(*t);
                        }
                    }
                }
                aux.insert("Try::branch".into(), json!(self.note_inst(b)));
                if let Some(i) = self.resolve_tm("std::ops::Try", "from_output", &[last]) {
                    aux.insert("Try::from_output".into(), json!(self.note_inst(i)));
                }
                if let Some(rt) = res_ty {
                    if let Some(i) = self.resolve_tm("std::ops::FromResidual", "from_residual", &[last, rt]) {
                        aux.insert("FromResidual::from_residual".into(), json!(self.note_inst(i)));
                    }
                }
            }
        }
        if name.contains(" as quote::ToTokens>::to_token_stream") || name.contains(" as quote::ToTokens>::into_token_stream")
            || name.contains(" as quote::to_tokens::ToTokens>::to_token_stream") || name.contains(" as quote::to_tokens::ToTokens>::into_token_stream") {
            for tn in ["quote::ToTokens", "quote::to_tokens::ToTokens"] {
                if let Some(i) = self.resolve_tm(tn, "to_tokens", &[first]) {
                    aux.insert("ToTokens::to_tokens".into(), json!(self.note_inst(i)));
                    break;
                }
            }
        }
        if name.contains("::or_default") || name.contains("::take::<") && false {
            // Entry<'_, K, V, A>: the value type is the second type argument
            let vty = if name.contains("Entry::<") && targs.len() >= 2 { targs[1] } else { last };
            if let Some(i) = self.resolve_tm("std::default::Default", "default", &[vty]) {
                aux.insert("Default::default".into(), json!(self.note_inst(i)));
            }
        }
        if name.contains("]>::contains") || name.contains("::dedup") || name.contains("]>::starts_with") || name.contains("]>::ends_with") {
            if let Some(i) = self.resolve_tm("std::cmp::PartialEq", "eq", &[first, first]) {
                aux.insert("PartialEq::eq".into(), json!(self.note_inst(i)));
            }
        }
        if name.contains("BTreeMap") || name.contains("BTreeSet") || name.contains("::sort") || name.contains("::binary_search") || name.contains("::max::<") || name.contains("::min::<") {
            if let Some(i) = self.resolve_tm("std::cmp::Ord", "cmp", &[first]) {
                aux.insert("Ord::cmp".into(), json!(self.note_inst(i)));
            }
        }
        if aux.is_empty() { Value::Null } else { Value::Object(aux) }
    }
    fn process_inst(&mut self, inst: Instance) {
        let mname = inst.mangled_name();
        let name = inst.name();
        let mut v = json!({"name": name, "kind": format!("{:?}", inst.kind), "has_body": inst.has_body()});
        if let Some(i) = inst.intrinsic_name() {
            v["intrinsic"] = json!(i);
        }
        // generic args (types only) of the instance: lets models know T of e.g. Argument::new_display::<T>
        let mut targs = vec![];
        for a in inst.args().0.iter() {
            if let rustc_public::ty::GenericArgKind::Type(t2) = a {
                targs.push(json!(self.note_ty(*t2)));
            } else {
                targs.push(Value::Null);
            }
        }
        v["targs"] = json!(targs);
        if let Ok(abi) = inst.fn_abi() {
            let a: Vec<usize> = abi.args.iter().map(|a| self.note_ty(a.ty)).collect();
            v["abi_args"] = json!(a);
            v["abi_ret"] = json!(self.note_ty(abi.ret.ty));
        }
        let aux = self.aux_for(&name, &inst);
        if !aux.is_null() {
            v["aux"] = aux;
        }
        let skip_body = self.nobody_filter.iter().any(|p| name.starts_with(p.as_str()));
        if !skip_body {
            if let Some(body) = inst.body() {
                let locals: Vec<usize> = body.locals().iter().map(|l| self.note_ty(l.ty)).collect();
                v["locals"] = json!(locals);
                v["arg_count"] = json!(body.arg_locals().len());
                v["spread_arg"] = json!(body.spread_arg());
                let mut callees = BTreeMap::new();
                for (bi, bb) in body.blocks.iter().enumerate() {
                    for st in &bb.statements {
                        if let StatementKind::Assign(_, rv) = &st.kind {
                            // make sure operand types of casts etc. are in the table
                            if let Ok(t) = rv.ty(body.locals()) {
                                self.note_ty(t);
                            }
                            if let Rvalue::ThreadLocalRef(item) = rv {
                                let key = serde_json::to_string(item).unwrap_or_default();
                                if !self.tls.contains_key(&key) {
                                    if let Ok(sd) = StaticDef::try_from(*item) {
                                        let init = sd.eval_initializer().ok().map(|a| serde_json::to_value(&a).unwrap());
                                        let tid = self.note_ty(sd.ty());
                                        self.tls.insert(key, json!({"name": sd.name(), "ty": tid, "init": init}));
                                    }
                                }
                            }
                            if let Rvalue::Cast(_, op, t) = rv {
                                self.note_ty(*t);
                                if let Ok(t0) = op.ty(body.locals()) {
                                    self.note_ty(t0);
                                }
                            }
                        }
                    }
                    match &bb.terminator.kind {
                        TerminatorKind::Call { func, .. } => {
                            if let Operand::Constant(c) = func {
                                let fty = c.ty();
                                if let TyKind::RigidTy(RigidTy::FnDef(def, args)) = fty.kind() {
                                    match Instance::resolve(def, &args) {
                                        Ok(ci) => {
                                            let m = self.note_inst(ci);
                                            callees.insert(bi.to_string(), json!({"inst": m, "name": ci.name()}));
                                        }
                                        Err(e) => {
                                            callees.insert(bi.to_string(), json!({"error": format!("{:?}", e), "name": def.name()}));
                                        }
                                    }
                                }
                            }
                        }
                        TerminatorKind::Drop { place, .. } => {
                            if let Ok(t) = place.ty(body.locals()) {
                                self.note_ty(t);
                            }
                        }
                        _ => {}
                    }
                }
                v["callees"] = json!(callees);
                // source line of every block's terminator, for crate-local code only (coverage gap map, tools/covmap.py)
                if name.contains("rasn_compiler") {
                    let lines: Vec<usize> = body.blocks.iter().map(|bb| bb.terminator.span.get_lines().start_line).collect();
                    v["block_lines"] = json!(lines);
                    v["file"] = json!(body.span.get_filename());
                }
                let mut b = serde_json::to_value(&body).unwrap();
                // spans and debug info are not needed and dominate the size
                if let Some(o) = b.as_object_mut() {
                    o.remove("var_debug_info");
                    o.remove("span");
                }
                strip_spans(&mut b);
                v["body"] = b;
            }
        }
        self.insts.insert(mname, v);
    }
}

fn strip_spans(v: &mut Value) {
    match v {
        Value::Object(m) => {
            m.remove("span");
            m.remove("source_info");
            for (_, x) in m.iter_mut() {
                strip_spans(x);
            }
        }
        Value::Array(a) => {
            for x in a {
                strip_spans(x);
            }
        }
        _ => {}
    }
}

fn scan(v: &Value, out: &mut Vec<usize>) {
    match v {
        Value::Object(m) => {
            if let Some(Value::Array(ps)) = m.get("ptrs") {
                for p in ps {
                    if let Some(id) = p.get(1).and_then(|x| x.as_u64()) {
                        out.push(id as usize);
                    }
                }
            }
            for (_, x) in m {
                scan(x, out);
            }
        }
        Value::Array(a) => {
            for x in a {
                scan(x, out);
            }
        }
        _ => {}
    }
}

fn dump() -> ControlFlow<()> {
    let krate = rustc_public::local_crate();
    let want = std::env::var("SMIR_CRATE").unwrap_or("rasn_compiler".into());
    if krate.name != want {
        return ControlFlow::Continue(());
    }
    let roots: Vec<String> = std::env::var("SMIR_ROOTS")
        .unwrap_or_default()
        .split(';')
        .map(|s| s.trim().to_string())
        .filter(|s| !s.is_empty())
        .collect();
    let nobody: Vec<String> = std::env::var("SMIR_NOBODY")
        .unwrap_or_default()
        .split(';')
        .map(|s| s.trim().to_string())
        .filter(|s| !s.is_empty())
        .collect();
    let mut cx = Ctx {
        types: BTreeMap::new(),
        ty_queue: VecDeque::new(),
        seen_ty: BTreeSet::new(),
        insts: BTreeMap::new(),
        inst_queue: VecDeque::new(),
        seen_inst: BTreeSet::new(),
        nobody_filter: nobody,
        trait_fns: BTreeMap::new(),
        tls: BTreeMap::new(),
    };
    let mut root_names = vec![];
    let mut all_items = vec![];
    let mut clone_impls = vec![];
    for item in rustc_public::all_local_items() {
        let name = item.name();
        all_items.push(name.clone());
        for r in roots.iter() {
            if name.ends_with(r.as_str()) && (name.len() == r.len() || name[..name.len() - r.len()].ends_with("::") || r.starts_with("::") || name[..name.len() - r.len()].ends_with(' ') || name[..name.len() - r.len()].ends_with('<')) {
                if let Ok(inst) = Instance::try_from(item) {
                    root_names.push(json!({"root": r, "name": name.clone(), "inst": cx.note_inst(inst)}));
                } else {
                    // closures inside functions with (late-bound) generics: resolve through their type
                    let mut done = false;
                    if let TyKind::RigidTy(RigidTy::Closure(def, args)) = item.ty().kind() {
                        for kind in [ClosureKind::Fn, ClosureKind::FnMut, ClosureKind::FnOnce] {
                            if let Ok(inst) = Instance::resolve_closure(def, &args, kind) {
                                cx.note_ty(item.ty());
                                root_names.push(json!({"root": r, "name": name.clone(), "inst": cx.note_inst(inst), "closure_ty": ty_id(item.ty())}));
                                done = true;
                                break;
                            }
                        }
                    }
                    if !done {
                        root_names.push(json!({"root": r, "name": name.clone(), "inst": Value::Null, "error": "generic"}));
                    }
                }
            }
        }
    }
    // which Clone impls of local types are derived (assumption check of the clone model)
    for imp in rustc_public::all_trait_impls() {
        let ti = imp.trait_impl();
        let tr = ti.value.def_id.name();
        if tr == "std::clone::Clone" || tr == "core::clone::Clone" {
            let sp = imp.span();
            let li = sp.get_lines();
            clone_impls.push(json!({"impl": imp.name(), "self": format!("{}", ti.value.self_ty()), "file": sp.get_filename(), "line": li.start_line, "col": li.start_col}));
        }
    }
    let max: usize = std::env::var("SMIR_MAX").ok().and_then(|s| s.parse().ok()).unwrap_or(20000);
    let mut n = 0;
    loop {
        while let Some(i) = cx.inst_queue.pop_front() {
            cx.process_inst(i);
            n += 1;
            if n > max {
                break;
            }
        }
        while let Some(t) = cx.ty_queue.pop_front() {
            cx.process_ty(t);
        }
        if cx.inst_queue.is_empty() || n > max {
            break;
        }
    }
    let mut allocs: BTreeMap<usize, Value> = BTreeMap::new();
    let mut todo: Vec<usize> = vec![];
    for (_, i) in cx.insts.iter() {
        scan(i, &mut todo);
    }
    for (_, t) in cx.tls.iter() {
        scan(t, &mut todo);
    }
    let mut extra_insts: Vec<Instance> = vec![];
    while let Some(id) = todo.pop() {
        if allocs.contains_key(&id) {
            continue;
        }
        let ga = GlobalAlloc::from(AllocId::to_val(id));
        let v = match &ga {
            GlobalAlloc::Memory(a) => json!({"Memory": serde_json::to_value(a).unwrap()}),
            GlobalAlloc::Static(d) => {
                let sd: &StaticDef = d;
                let init = sd.eval_initializer().ok().map(|a| serde_json::to_value(&a).unwrap());
                let tid = cx.note_ty(sd.ty());
                json!({"Static": {"name": d.name(), "ty": tid, "init": init}})
            }
            GlobalAlloc::Function(i) => {
                extra_insts.push(*i);
                json!({"Function": i.mangled_name()})
            }
            GlobalAlloc::VTable(t, _) => json!({"VTable": format!("{}", t)}),
            _ => json!("Other"),
        };
        scan(&v, &mut todo);
        allocs.insert(id, v);
    }
    // functions reached only through allocations (fn pointers in statics): second pass
    for i in extra_insts {
        cx.note_inst(i);
    }
    loop {
        while let Some(i) = cx.inst_queue.pop_front() {
            cx.process_inst(i);
        }
        while let Some(t) = cx.ty_queue.pop_front() {
            cx.process_ty(t);
        }
        if cx.inst_queue.is_empty() {
            break;
        }
    }
    let mut todo2: Vec<usize> = vec![];
    for (_, i) in cx.insts.iter() {
        scan(i, &mut todo2);
    }
    while let Some(id) = todo2.pop() {
        if allocs.contains_key(&id) {
            continue;
        }
        let ga = GlobalAlloc::from(AllocId::to_val(id));
        let v = match &ga {
            GlobalAlloc::Memory(a) => json!({"Memory": serde_json::to_value(a).unwrap()}),
            GlobalAlloc::Static(d) => {
                let init = d.eval_initializer().ok().map(|a| serde_json::to_value(&a).unwrap());
                json!({"Static": {"name": d.name(), "ty": ty_id(d.ty()), "init": init}})
            }
            GlobalAlloc::Function(i) => json!({"Function": i.mangled_name()}),
            GlobalAlloc::VTable(t, _) => json!({"VTable": format!("{}", t)}),
            _ => json!("Other"),
        };
        scan(&v, &mut todo2);
        allocs.insert(id, v);
    }
    let out = json!({"roots": root_names, "instances": cx.insts, "types": cx.types, "allocs": allocs,
        "clone_impls": clone_impls, "n_local_items": all_items.len(), "tls_statics": cx.tls});
    let path = std::env::var("SMIR_OUT").unwrap_or("/var/tmp/smir.json".into());
    std::fs::write(&path, serde_json::to_string(&out).unwrap()).unwrap();
    if std::env::var("SMIR_ITEMS").is_ok() {
        std::fs::write(format!("{}.items", path), all_items.join("\n")).unwrap();
    }
    eprintln!("smir: {} instances, {} types, {} allocs -> {}", cx.insts.len(), cx.types.len(), allocs.len(), path);
    ControlFlow::Continue(())
}

fn main() {
    let mut args: Vec<String> = std::env::args().collect();
    if args.len() > 1 && args[1].ends_with("rustc") {
        args.remove(1);
    }
    let _ = run!(&args, dump);
}
