#!/bin/bash
# usage: seedreg.sh <slot> <seed-id>...   regression of the detectors: every seeded change is applied to a scratch COPY of /repo
# (never to /repo itself) and the quick check of its property runs against that copy (VERIF_REPO / VERIF_CACHE / VERIF_OUT).
# One line per seed: "<id> exit=<rc> <seconds>s"; exit 1 = detected, 2 = inconclusive, 0 = MISSED, 3 = patch does not apply.
slot=$1; shift
base=/var/tmp/seedreg-$slot
mkdir -p $base/cache $base/out
for id in "$@"; do
  p=${PROP:-${id%-*}}
  rm -rf $base/repo; mkdir -p $base/repo
  git -C /repo archive HEAD | tar -x -C $base/repo
  if ! (cd $base/repo && patch -p1 -s --no-backup-if-mismatch < /verif/seeded/$id/patch.diff >/dev/null 2>&1); then echo "$id exit=3 patch does not apply"; continue; fi
  s=$(date +%s)
  VERIF_REPO=$base/repo VERIF_CACHE=$base/cache VERIF_OUT=$base/out /verif/check $p --tier quick > $base/$id.log 2>&1
  rc=$?
  echo "$id exit=$rc $(( $(date +%s) - s ))s | $(grep -E '^VIOLATION|INCONCL' $base/$id.log | head -1 | cut -c1-160)"
done
rm -rf $base/repo
