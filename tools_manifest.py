#!/usr/bin/env python3
"""regenerates MANIFEST.json from the table below (keeps the file valid and in one place)"""
import json, os
V = os.path.dirname(os.path.abspath(__file__))
ids = [json.loads(l)['id'] for l in open(os.path.join(V, 'properties.jsonl'))]
TECH = "bounded symbolic execution of the real MIR (mirsym) + z3; native replay of counterexamples"
CLAIMED = {
 'C04': dict(text="For every text shape of the stated constraint grammar the real lexer+linker output is loaded and the real generator MIR (generate_module -> per_visible_range_constraints -> format_range_annotations ...) is executed symbolically with every integer endpoint a free 128-bit variable; z3 decides soundness, exactness w.r.t. the X.691 10.3 effective constraint and the extensible flag for all values; shapes are enumerated exhaustively within the bound.",
             note="lexer/linker run natively per shape (uniformity in the integer values checked with a second assignment); std/proc_macro2/quote leaves modelled and validated byte-for-byte against native output; bounds: <=3 operands, <=2 serial constraints (thorough <=3), contexts assignment/component (thorough: +SEQUENCE OF element, type reference)", ref='§4 C04'),
 'C06': dict(text="Same bridge as C04; z3 decides for all i128 endpoints that the emitted Rust integer type contains every permitted value and that a fixed-width type is only chosen for a non-extensible constraint with finite effective bounds.",
             note="as C04; integer literals of value assignments are covered by the C07 check", ref='§4 C06'),
 'C02': dict(text="Text shapes of SEQUENCE/SET/CHOICE/SEQUENCE OF/SET OF with one lazily chosen 'interesting' member (every built-in type, references, direct recursion, anonymous SEQUENCE/SET/CHOICE/ENUMERATED/SEQUENCE OF/SET OF nested up to 3 levels, each optionality) at the first/last (thorough: every) position of 1..3 (thorough: 1..12) members: the real front end output is loaded and the real generator MIR is executed by mirsym; an independent structural matcher derives the expected projection from the text (names, order, Option/default fn/Box, type table, set marking, hoisted items used exactly once, no by-value type cycle).",
             note="the input space is structural: shapes are enumerated exhaustively within the bound, the solver only decides the integer leaves (DEFAULT values symbolic); lexer+linker run natively per shape; COMPONENTS OF, parameterization outside", ref='§4 C02'),
 'C03': dict(text="Exhaustive over module default x tag keyword x class x 9 tag positions (incl. nesting depth 2 and 3 and SEQUENCE OF/SET OF elements) x tagged type kind: the real front end output of each shape is loaded, the tag number is a free u64 variable, generate_module (format_tag, the automatic_tags and explicit-forcing logic of generate_choice / generate_sequence_or_set) runs from real MIR, and the rendering at the tagged position is compared with X.680 31.2.7; z3 decides the number for all u64.",
             note="lexer + linker (apply_tagging_environment) run natively per shape; marking on CHOICE/open-type kinds is not asserted (property's own note); DER bytes produced by rasn are outside", ref='§4 C03'),
 'C05': dict(text="(1) generator with the extension index `extensible: Option<usize>` a free 64-bit variable (and EXTENSIBILITY IMPLIED on/off) on SEQUENCE/SET/CHOICE/ENUMERATED of n members: z3 decides for all usize that member i is marked as extension addition iff i >= k and that #[non_exhaustive] follows marker-or-IMPLIED; (2) exhaustive text shapes (marker position, plain additions, [[ ]] groups with/without version number, nested, IMPLIED) through the real front end natively and the real generator MIR, judged against the expectation derived from the text.",
             note="character-level parsing runs natively (bridge); SET with addition groups and a second ellipsis are rejected by the lexer (counted, not judged); CHOICE groups flattened (accepted)", ref='§4 C05'),
 'C14': dict(text="The numbering function the lexer calls for ENUMERATED bodies (assign_enumeral_indices), Enumerated::from and format_enum_members are executed from real MIR for every explicit/identifier-only pattern with <= 3 root items and <= 2 additions (thorough: 5 + 3, the property's own bound); every explicit number is a free 128-bit variable and z3 decides equality with the X.680 20.3-20.6 numbering written as formulas, distinctness, name order, the extension index and the emitted discriminant literals.",
             note="character-level parsing of the item list is outside; the glue of enumerated_body is reproduced by the harness and validated against native compilations (differential job, which also judges the native numbers against the reference); source validity per X.680 20.2-20.6 assumed", ref='§4 C14'),
}
NA = {}
def entry(pid, c):
    return {"property_id": pid, "quick_cmd": f"./check {pid} --tier quick", "thorough_cmd": f"./check {pid} --tier thorough",
            "evidence_file": f"/verif/evidence/{pid}.json", "replay_cmd_template": f"./check {pid} --replay {{path}}", "engine": "mirsym",
            "level_claimed": {"category": "model_checking", "text": c['text'], "design_ref": c['ref']}, "level_note": c['note'], "technique": TECH}
m = {"version": 1, "setup_cmd": "./setup.sh",
     "hooks": {"guard": "none", "enable": "no source hooks: the MIR front end names private items by path; /repo is compiled unmodified", "baseline_off_cmd": "cd /repo && cargo test --workspace --no-fail-fast --offline", "source_commits": [], "add_only": True},
     "engines": [{"name": "mirsym", "path": "/verif/mirsym", "serves_properties": sorted(CLAIMED), "kind_free_text": "symbolic executor for rustc MIR (rustc_public dump regenerated from /repo on every run), z3 back end, cvc5/z3-5.1 cross-check, native replay runner"}],
     "checks": [entry(p, CLAIMED[p]) for p in ids if p in CLAIMED],
     "not_applicable": [{"property_id": p, "reason": NA.get(p, "check not built yet (framework under construction); final status per DESIGN.md §4")} for p in ids if p not in CLAIMED],
     "notes": "solver-based checking of the real code; see DESIGN.md. Exit codes of ./check: 0 held, 1 reproduced violation (VIOLATION line), 2 inconclusive."}
json.dump(m, open(os.path.join(V, 'MANIFEST.json'), 'w'), indent=1)
print('claimed', sorted(CLAIMED))
