"""Front end: regenerate the MIR dump from /repo's current working tree (content-hash cached)."""
import hashlib, json, os, shutil, subprocess, sys, time, pickle

VERIF = os.path.dirname(os.path.dirname(os.path.abspath(__file__)))
REPO = os.environ.get('VERIF_REPO', '/repo')
CACHE = os.environ.get('VERIF_CACHE') or os.path.join(VERIF, '.cache')
DRIVER_DIR = os.path.join(VERIF, 'smir-driver')
DRIVER_BIN = os.path.join(VERIF, '.cache', 'driver-target', 'release', 'smir_driver')
ENV_OFF = {'CARGO_NET_OFFLINE': 'true'}


def sh(cmd, **kw):
    env = dict(os.environ); env.update(ENV_OFF); env.update(kw.pop('env', {}))
    return subprocess.run(cmd, env=env, stdout=subprocess.PIPE, stderr=subprocess.STDOUT, text=True, **kw)


def nightly_sysroot():
    return subprocess.check_output(['rustc', '+nightly', '--print', 'sysroot'], text=True).strip()


def build_driver():
    os.makedirs(CACHE, exist_ok=True)
    r = sh(['cargo', '+nightly', 'build', '--release'], cwd=DRIVER_DIR,
           env={'CARGO_TARGET_DIR': os.path.join(VERIF, '.cache', 'driver-target')})
    if r.returncode != 0:
        sys.stderr.write(r.stdout); raise SystemExit(2)
    return DRIVER_BIN


def tree_hash(root, exts=('.rs', '.toml', '.lock')):
    h = hashlib.sha256()
    for d, dirs, files in sorted(os.walk(root)):
        dirs[:] = sorted(x for x in dirs if x not in ('target', '.git'))
        for f in sorted(files):
            if f.endswith(exts):
                p = os.path.join(d, f)
                h.update(os.path.relpath(p, root).encode()); h.update(open(p, 'rb').read())
    return h.hexdigest()


def repo_hash():
    return tree_hash(REPO)


ENCODE_MIR = {'pipe-harness'}


def dump(roots, tag='main', nobody=(), quiet=False, harness=None):
    """returns path of the JSON dump for the given root suffixes, rebuilt if /repo or the driver changed"""
    roots = sorted(set(roots))
    if not os.path.exists(DRIVER_BIN) or os.path.getmtime(DRIVER_BIN) < os.path.getmtime(os.path.join(DRIVER_DIR, 'src/main.rs')):
        build_driver()
    hkey = tree_hash(os.path.join(VERIF, harness)) if harness else ''
    key = hashlib.sha256((repo_hash() + '|' + hkey + '|' + ','.join(roots) + '|' + ','.join(nobody) + '|' +
                          hashlib.sha256(open(os.path.join(DRIVER_DIR, 'src/main.rs'), 'rb').read()).hexdigest()).encode()).hexdigest()[:24]
    out = os.path.join(CACHE, 'smir', f'{tag}-{key}.json')
    if os.path.exists(out):
        return out
    os.makedirs(os.path.dirname(out), exist_ok=True)
    # remove stale dumps of the same tag
    for f in os.listdir(os.path.dirname(out)):
        if f.startswith(tag + '-'):
            os.remove(os.path.join(os.path.dirname(out), f))
    t0 = time.time()
    scratch = f'/var/tmp/mirsym-src-{os.getpid()}'
    shutil.rmtree(scratch, ignore_errors=True)
    try:
        r = sh(['rsync', '-a', '--exclude', 'target', '--exclude', '.git', REPO + '/', scratch + '/'])
        if r.returncode != 0:
            sys.stderr.write(r.stdout); raise SystemExit(2)
        build_dir = scratch
        crate_name, pkg_args = 'rasn_compiler', ['-p', 'rasn-compiler', '--lib']
        if harness:
            # a small crate of /verif that instantiates generic public entry points; it is the only workspace member,
            # so the wrapper runs for it alone while rasn-compiler is an ordinary (path) dependency with MIR
            shutil.copytree(os.path.join(VERIF, harness), os.path.join(scratch, harness))
            shutil.copyfile(os.path.join(REPO, 'Cargo.lock'), os.path.join(scratch, harness, 'Cargo.lock'))
            build_dir = os.path.join(scratch, harness)
            crate_name, pkg_args = harness.replace('-', '_'), ['--lib']
        env = {'RUSTC_WORKSPACE_WRAPPER': DRIVER_BIN,
               'LD_LIBRARY_PATH': nightly_sysroot() + '/lib',
               'SMIR_ROOTS': ';'.join(roots), 'SMIR_OUT': out + '.tmp', 'SMIR_CRATE': crate_name,
               'SMIR_NOBODY': ';'.join(nobody), 'SMIR_ITEMS': '1',
               'CARGO_TARGET_DIR': os.path.join(CACHE, 'smir-target' + ('-' + harness if harness else '')),
               'CARGO_PROFILE_DEV_DEBUG_ASSERTIONS': 'false', 'CARGO_PROFILE_DEV_OVERFLOW_CHECKS': 'true',
               'CARGO_PROFILE_DEV_DEBUG': '0', 'RUSTUP_TOOLCHAIN': 'nightly'}
        if harness in ENCODE_MIR:
            # MIR of every (also non-generic, private) function of the dependencies is kept in their metadata, so that the
            # harness crate's compilation session resolves the whole pipeline behind the public entry points
            env['RUSTFLAGS'] = '-Zalways-encode-mir'
        # the wrapper's output is not part of cargo's fingerprint: force the crate to be recompiled
        sh(['cargo', 'clean', '-p', crate_name.replace('_', '-')], cwd=build_dir, env=env)
        r = sh(['cargo', 'build', '--offline'] + pkg_args, cwd=build_dir, env=env)
        if r.returncode != 0 or not os.path.exists(out + '.tmp'):
            sys.stderr.write(r.stdout[-4000:]); sys.stderr.write('\nfront end failed\n'); raise SystemExit(2)
        os.rename(out + '.tmp', out)
        if os.path.exists(out + '.tmp.items'):
            os.rename(out + '.tmp.items', out + '.items')
        sh(['cargo', 'clean', '-p', crate_name.replace('_', '-')], cwd=build_dir, env=env)
        if harness:
            sh(['cargo', 'clean', '-p', 'rasn-compiler'], cwd=build_dir, env=env)
    finally:
        shutil.rmtree(scratch, ignore_errors=True)
    if not quiet:
        sys.stderr.write(f'[frontend] dump {os.path.basename(out)} in {time.time()-t0:.1f}s\n')
    return out


if __name__ == '__main__':
    print(dump(sys.argv[1].split(';'), tag=sys.argv[2] if len(sys.argv) > 2 else 'cli'))
