"""Native shape bridge: the real lexer+linker run natively once per text shape (IrDump backend), the linked IR
is loaded into mirsym (selected integer leaves replaced by solver variables) and the real generator MIR is
executed on it.  With no symbolic leaves this doubles as the differential validation of the models: the
string produced must equal the natively generated text byte for byte."""
import re, os, glob
from .core import *
from . import debugparse, models


def frontend_repo():
    from . import frontend
    return frontend.REPO

GM = '<rasn_compiler::generator::rasn::Rasn as rasn_compiler::generator::Backend>::generate_module'
GEN_ROOTS = [GM]

DEFAULT_DERIVES = ["AsnType", "Debug", "Clone", "Decode", "Encode", "PartialEq", "Eq", "Hash"]


class Gen:
    def __init__(self, prog):
        self.p = prog
        self.fn = prog.find(GM)
        f = prog.inst[self.fn]
        self.rasn_ty = prog.kind(f['locals'][1])[1]
        self.vec_ty = f['locals'][2]
        self.tld_ty = prog.ty(self.vec_ty)['adt']['targs'][0]

    def mkrasn(self, ex, config=None, derives=None, type_annotations=()):
        p = self.p
        config = config or {}
        flds = p.ty(self.rasn_ty)['adt']['variants'][0]['fields']
        vals = []
        for fl in flds:
            t = fl['ty']
            nm = fl['name']
            if nm == 'config':
                cv = []
                for c in p.ty(t)['adt']['variants'][0]['fields']:
                    if c['name'] == 'custom_imports':
                        cv.append(VecV([Cell(StringV([ord(ch) for ch in s])) for s in config.get('custom_imports', [])]))
                    elif c['name'] == 'type_annotations':
                        cv.append(VecV([Cell(StringV([ord(ch) for ch in s])) for s in type_annotations]))
                    else:
                        cv.append(config.get(c['name'], c['name'] == 'opaque_open_types'))
                vals.append(Adt(t, 0, cv))
            elif nm == 'required_derives':
                vals.append(VecV([Cell(StringV([ord(ch) for ch in s])) for s in (derives or DEFAULT_DERIVES)]))
            else:
                vals.append(config.get(nm) if config.get(nm) is not None else Adt(t, 0, []))
        return Adt(self.rasn_ty, 0, vals)

    def load_module(self, ex, tld_debug_strings, on_leaf=None):
        """Vec<ToplevelDefinition> value of one module (all tlds share one module-header Rc as in the real linker output)"""
        trees = [debugparse.parse(t) for t in tld_debug_strings]
        v = debugparse.to_value(ex, ('list', trees), self.vec_ty, on_leaf)
        # share the header: replace every module_header Rc by the first one
        return v

    def generate_module(self, ex, module_value, rasn=None):
        rasn = rasn if rasn is not None else self.mkrasn(ex)
        r = ex.call(self.fn, [Ref(Cell(rasn)), module_value])
        return r

    def result_text(self, ex, r):
        """(kind, text|None, warnings list) of a generate_module result"""
        p = self.p
        r = ex.force(r)
        if p.variant_name(r) != 'Ok':
            return 'err', None, []
        gm = r.fields[0]
        gen = ex.force(gm.fields[0])
        warn = ex.force(gm.fields[1])
        text = None
        if p.variant_name(gen) == 'Some':
            text = ex.force(gen.fields[0])
        return 'ok', text, [c.v for c in warn.cells]


def test_corpus(repo=None):
    repo = repo or frontend_repo()
    """ASN.1 inputs of the repository's own e2e tests: (name, module text)"""
    out = []
    for path in sorted(glob.glob(os.path.join(repo, 'rasn-compiler-tests/tests/*.rs'))):
        src = open(path).read()
        for m in re.finditer(r'e2e_pdu!\(\s*(\w+)\s*,(.*?)\);\n', src, re.S):
            name, rest = m.group(1), m.group(2)
            lit = re.search(r'r#"(.*?)"#\s*$', rest, re.S) or re.search(r'"((?:[^"\\]|\\.)*)"\s*$', rest, re.S)
            if not lit:
                continue
            body = lit.group(1)
            if not rest.strip().startswith(('r#', '"')):
                continue   # custom config
            if not lit.group(0).startswith('r#'):
                body = bytes(body, 'utf-8').decode('unicode_escape') if '\\' in body else body
            out.append((os.path.basename(path)[:-3] + '::' + name, f"TestModule DEFINITIONS AUTOMATIC TAGS::= BEGIN {body} END"))
    return out


REJECT_IS_VIOLATION = True    # quick tier (the thorough families were not all enumerated against the unchanged tree: there a rejection is only counted)


def run_text_shapes(chk, gen, runner, shapes, judge, stats, config=None, symbolic=None):
    """shapes: iterable of (sig_prefix, text, info).  For each: native front end -> IR -> real generator MIR in mirsym ->
    judge(items, info, chk, pc, syms) -> [(oracle, message)].  Failures are confirmed through the natively compiled
    compiler (same judge on the syn-equivalent projection of the native text) before they are reported.
    symbolic: optional (placeholder values -> z3 terms) map applied to integer leaves."""
    from . import tokproj
    for sigp, text, info in shapes:
        ra = runner.compile(text, backend='ir')
        if not ra.get('ok'):
            if any(k in ra for k in ('panic', 'crash', 'hang')):
                # the natively compiled compiler does not answer this shape at all: nothing the property promises about
                # the shape is delivered (reported under the running property; the replay is the text itself)
                what = 'panics (' + str(ra.get('panic'))[:120] + ')' if 'panic' in ra else 'aborts' if 'crash' in ra else 'does not terminate'
                chk.violation(f"{sigp} native {'panic' if 'panic' in ra else 'crash' if 'crash' in ra else 'hang'}", f"the compiler {what} on: {text}", {'kind': 'text', 'text': text, 'config': config})
                continue
            stats['rejected-natively'] = stats.get('rejected-natively', 0) + 1
            info_rej = getattr(judge, 'on_reject', None)
            if info_rej:
                info_rej(chk, sigp, text, info, ra)
            elif REJECT_IS_VIOLATION:
                # every shape of every family is valid notation that the unchanged compiler accepts (harnesses with a documented
                # gap install on_reject): a shape that is now refused means its definitions are not generated at all
                e = ra.get('error') or {}
                chk.violation(sigp + ' rejected', f"valid notation is rejected ({str(e.get('display'))[:100]}): {text}", {'kind': 'text', 'text': text, 'config': config})
            continue
        stats['shapes'] = stats.get('shapes', 0) + 1
        on_leaf = None
        if symbolic:
            def on_leaf(path, kind, conc, symbolic=symbolic):
                if kind[0] == 'int' and conc in symbolic:
                    s = symbolic[conc]
                    if s.size() != kind[1]:
                        raise Unsupported(f"placeholder width {kind} at {path}")
                    return s
                return conc

        def run(ex):
            out = []
            for m in ra['ir']:
                v = gen.load_module(ex, m['tlds'], on_leaf)
                out.append(gen.result_text(ex, gen.generate_module(ex, v, gen.mkrasn(ex, config) if config else None)))
            return {'mods': out, 'ts': list(ex.ghost.get('to_string_ts', []))}
        for r in chk.explore(run):
            if r.kind == 'panic':
                chk.violation(f"{sigp} panic", f"generator panics ({r.value[0]}): {text}", {'kind': 'text', 'text': text, 'config': config})
                continue
            if r.kind != 'ok':
                continue
            mods = r.value['mods']
            # warnings of the generator (mirsym) + warnings the natively run linker/validator already produced
            nwarn = sum(len(w) for _, _, w in mods) + len(ra.get('warnings', []))
            ts_mods = [t for t in r.value['ts'] if t.toks and len(t.toks) > 2]
            items = []
            for t in ts_mods:
                its = tokproj.parse_items(t)
                if any(it.kind == 'mod' for it in its):
                    items.extend(its)
            fails = judge(items, info, chk, r.pc, nwarn)
            for oracle, msg in fails:
                out = runner.compile(text, backend='rasn', config=config)
                if out.get('ok'):
                    nf = judge(tokproj.project_text(out['generated']), info, None, None, len(out.get('warnings', [])))
                else:
                    nf = [('native-error', str(out)[:200])]
                if any(o == oracle for o, _ in nf) or not out.get('ok'):
                    chk.violation(f"{sigp} {oracle}", f"{msg}: {text}", {'kind': 'text', 'text': text, 'oracle': oracle, 'config': config})
                else:
                    chk.res.inconclusive.append(f"not reproduced natively: {sigp} {oracle}: {msg}")
            chk.sample({'shape': sigp, 'text': text[:300]})


def diff_corpus(chk, gen, runner, n, seed, repo=None):
    repo = repo or frontend_repo()
    """differential validation of the models: the repository's own e2e test inputs are generated by mirsym from the
    natively linked IR with all-concrete leaves; the text must equal the natively generated text byte for byte"""
    import random
    corpus = test_corpus(repo)
    rnd = random.Random(seed)
    pick = corpus if n >= len(corpus) else rnd.sample(corpus, n)
    for name, src in pick:
        nat = runner.compile(src, backend='ir')
        out = runner.compile(src, backend='rasn')
        if not nat.get('ok') or not out.get('ok'):
            continue

        def run(ex):
            mods = []
            for m in nat['ir']:
                v = gen.load_module(ex, m['tlds'])
                mods.append(gen.result_text(ex, gen.generate_module(ex, v)))
            return mods
        old_budget = chk.ex.max_path_steps
        res = chk.explore(run)
        if len(res) != 1 or res[0].kind != 'ok':
            kinds = [(r.kind, str(r.value)[:120]) for r in res[:2]]
            if any(k == 'truncated' for k, _ in kinds):
                chk.res.notes.append(f"differential input {name} skipped: step budget")
                chk.res.inconclusive[:] = [x for x in chk.res.inconclusive if 'step budget' not in x]
                continue
            chk.res.diff_fail.append(f"{name}: {kinds}")
            continue
        text = ''.join((pystr(t) if t is not None else '') for k, t, w in res[0].value)
        if text == out.get('generated'):
            chk.res.diff_ok += 1
        else:
            chk.res.diff_fail.append(f"{name}: generated text differs from the native output")
