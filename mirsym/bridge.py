"""Native shape bridge: the real lexer+linker run natively once per text shape (IrDump backend), the linked IR
is loaded into mirsym (selected integer leaves replaced by solver variables) and the real generator MIR is
executed on it.  With no symbolic leaves this doubles as the differential validation of the models: the
string produced must equal the natively generated text byte for byte."""
import re, os, glob
from .core import *
from . import debugparse, models

GM = '<rasn_compiler::generator::rasn::Rasn as rasn_compiler::generator::Backend>::generate_module'
GEN_ROOTS = [GM]

DEFAULT_DERIVES = ["AsnType", "Debug", "Clone", "Decode", "Encode", "PartialEq", "Eq", "Hash"]


class Gen:
    def __init__(self, prog):
        self.p = prog
        self.fn = prog.find(GM)
        f = prog.inst[self.fn]
        self.rasn_ty = prog.kind(f['locals'][1])[1]
        self.vec_ty = f['locals'][2]
        self.tld_ty = prog.ty(self.vec_ty)['adt']['targs'][0]

    def mkrasn(self, ex, config=None, derives=None, type_annotations=()):
        p = self.p
        config = config or {}
        flds = p.ty(self.rasn_ty)['adt']['variants'][0]['fields']
        vals = []
        for fl in flds:
            t = fl['ty']
            nm = fl['name']
            if nm == 'config':
                cv = []
                for c in p.ty(t)['adt']['variants'][0]['fields']:
                    if c['name'] == 'custom_imports':
                        cv.append(VecV([Cell(StringV([ord(ch) for ch in s])) for s in config.get('custom_imports', [])]))
                    elif c['name'] == 'type_annotations':
                        cv.append(VecV([Cell(StringV([ord(ch) for ch in s])) for s in type_annotations]))
                    else:
                        cv.append(config.get(c['name'], c['name'] == 'opaque_open_types'))
                vals.append(Adt(t, 0, cv))
            elif nm == 'required_derives':
                vals.append(VecV([Cell(StringV([ord(ch) for ch in s])) for s in (derives or DEFAULT_DERIVES)]))
            else:
                vals.append(config.get(nm) if config.get(nm) is not None else Adt(t, 0, []))
        return Adt(self.rasn_ty, 0, vals)

    def load_module(self, ex, tld_debug_strings, on_leaf=None):
        """Vec<ToplevelDefinition> value of one module (all tlds share one module-header Rc as in the real linker output)"""
        trees = [debugparse.parse(t) for t in tld_debug_strings]
        v = debugparse.to_value(ex, ('list', trees), self.vec_ty, on_leaf)
        # share the header: replace every module_header Rc by the first one
        return v

    def generate_module(self, ex, module_value, rasn=None):
        rasn = rasn if rasn is not None else self.mkrasn(ex)
        r = ex.call(self.fn, [Ref(Cell(rasn)), module_value])
        return r

    def result_text(self, ex, r):
        """(kind, text|None, warnings list) of a generate_module result"""
        p = self.p
        r = ex.force(r)
        if p.variant_name(r) != 'Ok':
            return 'err', None, []
        gm = r.fields[0]
        gen = ex.force(gm.fields[0])
        warn = ex.force(gm.fields[1])
        text = None
        if p.variant_name(gen) == 'Some':
            text = ex.force(gen.fields[0])
        return 'ok', text, [c.v for c in warn.cells]


def test_corpus(repo='/repo'):
    """ASN.1 inputs of the repository's own e2e tests: (name, module text)"""
    out = []
    for path in sorted(glob.glob(os.path.join(repo, 'rasn-compiler-tests/tests/*.rs'))):
        src = open(path).read()
        for m in re.finditer(r'e2e_pdu!\(\s*(\w+)\s*,(.*?)\);\n', src, re.S):
            name, rest = m.group(1), m.group(2)
            lit = re.search(r'r#"(.*?)"#\s*$', rest, re.S) or re.search(r'"((?:[^"\\]|\\.)*)"\s*$', rest, re.S)
            if not lit:
                continue
            body = lit.group(1)
            if not rest.strip().startswith(('r#', '"')):
                continue   # custom config
            if not lit.group(0).startswith('r#'):
                body = bytes(body, 'utf-8').decode('unicode_escape') if '\\' in body else body
            out.append((os.path.basename(path)[:-3] + '::' + name, f"TestModule DEFINITIONS AUTOMATIC TAGS::= BEGIN {body} END"))
    return out
