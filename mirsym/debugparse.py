"""Parser for Rust `{:?}` output (derived Debug) -> python tree, and conversion of such trees to mirsym
values typed by the dumped type table.  Tree nodes:
  ('struct', name, {field: node})   Name { a: .., b: .. }
  ('tuple', name, [nodes])          Name(a, b)   (name '' for plain tuples)
  ('unit', name)                    Name
  ('list', [nodes])                 [a, b]
  ('map', [(k, v)])                 {k: v}
  ('str', s) ('int', n) ('float', s) ('bool', b) ('char', c)
"""
from .core import *


class P:
    def __init__(self, s):
        self.s = s
        self.i = 0

    def ws(self):
        while self.i < len(self.s) and self.s[self.i] in ' \n\t':
            self.i += 1

    def peek(self):
        self.ws()
        return self.s[self.i] if self.i < len(self.s) else ''

    def expect(self, c):
        self.ws()
        if not self.s.startswith(c, self.i):
            raise ValueError(f"expected {c!r} at {self.i}: {self.s[self.i:self.i+40]!r}")
        self.i += len(c)

    def ident(self):
        self.ws()
        j = self.i
        while j < len(self.s) and (self.s[j].isalnum() or self.s[j] == '_' or self.s.startswith('::', j)):
            j += 2 if self.s[j] == ':' else 1
        r = self.s[self.i:j]
        self.i = j
        return r

    def string(self):
        self.expect('"')
        out = []
        while True:
            c = self.s[self.i]
            if c == '"':
                self.i += 1
                break
            if c == '\\':
                n = self.s[self.i + 1]
                self.i += 2
                if n == 'n':
                    out.append('\n')
                elif n == 't':
                    out.append('\t')
                elif n == 'r':
                    out.append('\r')
                elif n == '0':
                    out.append('\0')
                elif n == 'u':
                    j = self.s.index('}', self.i)
                    out.append(chr(int(self.s[self.i + 1:j], 16)))
                    self.i = j + 1
                else:
                    out.append(n)
            else:
                out.append(c)
                self.i += 1
        return ''.join(out)

    def value(self):
        c = self.peek()
        if c == '"':
            return ('str', self.string())
        if c == "'":
            self.i += 1
            if self.s[self.i] == '\\':
                n = self.s[self.i + 1]
                self.i += 2
                if n == 'u':
                    j = self.s.index('}', self.i)
                    ch = chr(int(self.s[self.i + 1:j], 16))
                    self.i = j + 1
                else:
                    ch = {'n': '\n', 't': '\t', 'r': '\r', '0': '\0'}.get(n, n)
            else:
                ch = self.s[self.i]
                self.i += 1
            self.expect("'")
            return ('char', ch)
        if c == '[':
            self.i += 1
            items = []
            while self.peek() != ']':
                items.append(self.value())
                if self.peek() == ',':
                    self.i += 1
            self.i += 1
            return ('list', items)
        if c == '(':
            self.i += 1
            items = []
            while self.peek() != ')':
                items.append(self.value())
                if self.peek() == ',':
                    self.i += 1
            self.i += 1
            return ('tuple', '', items)
        if c == '{':
            self.i += 1
            items = []
            while self.peek() != '}':
                k = self.value()
                if self.peek() == ':':
                    self.i += 1
                    v = self.value()
                    items.append((k, v))
                else:
                    items.append((k, None))
                if self.peek() == ',':
                    self.i += 1
            self.i += 1
            return ('map', items)
        if c == '-' or c.isdigit():
            j = self.i + 1
            while j < len(self.s) and (self.s[j].isdigit() or self.s[j] in '.e+-_' and self.s[j - 1] != ' '):
                if self.s[j] in '+-' and self.s[j - 1] not in 'eE':
                    break
                j += 1
            t = self.s[self.i:j]
            self.i = j
            if any(ch in t for ch in '.e') or t in ('inf', 'NaN'):
                return ('float', t)
            return ('int', int(t))
        name = self.ident()
        if not name:
            raise ValueError(f"unexpected {self.s[self.i:self.i+30]!r} at {self.i}")
        if name == 'true':
            return ('bool', True)
        if name == 'false':
            return ('bool', False)
        c = self.peek()
        if c == '{':
            self.i += 1
            fields = {}
            while self.peek() != '}':
                if self.s.startswith('..', self.i):
                    self.i += 2
                    continue
                fn = self.ident()
                self.expect(':')
                fields[fn] = self.value()
                if self.peek() == ',':
                    self.i += 1
            self.i += 1
            return ('struct', name, fields)
        if c == '(':
            self.i += 1
            items = []
            while self.peek() != ')':
                items.append(self.value())
                if self.peek() == ',':
                    self.i += 1
            self.i += 1
            return ('tuple', name, items)
        return ('unit', name)


def parse(s):
    p = P(s)
    v = p.value()
    p.ws()
    if p.i != len(s):
        raise ValueError(f"trailing {s[p.i:p.i+40]!r}")
    return v


def to_value(ex, node, tid, on_leaf=None, path=''):
    """typed mirsym value from a Debug tree.  on_leaf(path, kind, concrete) may substitute a symbolic scalar."""
    p = ex.p
    k = p.kind(tid)
    t = p.ty(tid)
    if k[0] == 'int':
        assert node[0] == 'int', (node, t['str'])
        return on_leaf(path, k, node[1]) if on_leaf else node[1]
    if k[0] == 'bool':
        return on_leaf(path, k, node[1]) if on_leaf else node[1]
    if k[0] == 'char':
        return on_leaf(path, k, ord(node[1])) if on_leaf else ord(node[1])
    if k[0] == 'float':
        return Opaque('float:' + str(node[1]))
    if k[0] == 'tuple':
        return Tup([to_value(ex, n, ft, on_leaf, f"{path}.{i}") for i, (n, ft) in enumerate(zip(node[2], k[1]))])
    if k[0] == 'ref':
        ik = p.kind(k[1])
        if ik[0] == 'str':
            return mkstr(node[1])
        return Ref(Cell(to_value(ex, node, k[1], on_leaf, path)))
    if k[0] == 'adt':
        an = k[1]
        targs = t['adt']['targs']
        if an in ('std::string::String', 'alloc::string::String'):
            return StringV([ord(c) for c in node[1]])
        if an in ('std::vec::Vec', 'alloc::vec::Vec'):
            return VecV([Cell(to_value(ex, n, targs[0], on_leaf, f"{path}[{i}]")) for i, n in enumerate(node[1])], targs[0])
        if an in ('std::boxed::Box', 'alloc::boxed::Box'):
            return BoxV(Cell(to_value(ex, node, targs[0], on_leaf, path)))
        if an in ('std::rc::Rc', 'alloc::rc::Rc'):
            from . import models
            return models.mk_rc(ex, to_value(ex, node, targs[0], on_leaf, path))
        if an in ('std::cell::RefCell', 'core::cell::RefCell'):
            from . import models
            inner = node[2]['value'] if node[0] == 'struct' and node[1] == 'RefCell' else node
            return models.mk_refcell(ex, tid, to_value(ex, inner, targs[0], on_leaf, path))
        if an.endswith('::BTreeMap'):
            from . import models
            return models.mk_btreemap(ex, [(to_value(ex, kk, targs[0], on_leaf, path), to_value(ex, vv, targs[1], on_leaf, path)) for kk, vv in node[1]])
        adt = t['adt']
        if adt['kind'] == 'Enum':
            name = node[1]
            vi = p.variant_index(tid, name.split('::')[-1])
        else:
            vi = 0
        flds = adt['variants'][vi]['fields']
        if node[0] == 'unit':
            vals = []
        elif node[0] == 'struct':
            vals = [to_value(ex, node[2][f['name']], f['ty'], on_leaf, f"{path}.{f['name']}") for f in flds]
        else:
            vals = [to_value(ex, n, f['ty'], on_leaf, f"{path}.{i}") for i, (n, f) in enumerate(zip(node[2], flds))]
        return Adt(tid, vi, vals)
    raise Unsupported(f"to_value for type {t['str']}")
