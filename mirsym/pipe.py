"""Whole-pipeline execution: the public entry point `compile_to_string` (lexer -> validator/linker -> generator), instantiated
by the crate /verif/pipe-harness, runs from real MIR.  The lexer runs on the concrete module text; between the lexer and
the validator selected integer leaves of the parsed definitions (placeholders written in the text) are replaced by solver
variables, so that the linker and the generator are executed symbolically in those values.

Only `Backend::format_bindings` (prettyplease/syn pretty printing of the finished text) is replaced by the identity."""
import z3
from .core import *
from . import frontend, models
from .models import model, ret_ty, as_str

HARNESS = 'pipe-harness'
PIPE_RASN = 'pipe_harness::pipe_rasn'
PIPE_TS = 'pipe_harness::pipe_ts'
RENDER = 'pipe_harness::render'
PIPE_PAIR = 'pipe_harness::pipe_rasn_pair'
ROOTS = [PIPE_RASN, PIPE_TS, RENDER, PIPE_PAIR]
DEFAULT_ANN = '#[derive(AsnType, Debug, Clone, Decode, Encode, PartialEq, Eq, Hash)]'

_INSTALLED = [False]


def dump():
    return frontend.dump(ROOTS, tag='pipe', harness=HARNESS)


def install():
    if _INSTALLED[0]:
        return
    _INSTALLED[0] = True

    @model(r' as rasn_compiler::(prelude|generator)::Backend>::format_bindings$')
    def s_format_bindings(ex, n, a, f):
        rt = ret_ty(f)
        return Adt(rt, ex.p.variant_index(rt, 'Ok'), [StringV(list(as_str(ex, a[0])))])

    @model(r'^rasn_compiler::lexer::asn_spec$')
    def s_asn_spec(ex, n, a, f):
        # the lexer is deterministic and runs on concrete text: its result is computed once per text and process
        # (paths are explored by re-execution) and copied afterwards
        key = (ex.p.path, _source_text(ex, a[0]))
        r = _LEX_CACHE.get(key) if key[1] is not None else None
        if r is None:
            r = ex.run_body(f, a)
            if key[1] is not None:
                _LEX_CACHE[key] = copy_value(r)
        else:
            r = copy_value(r)
        sub = ex.ghost.get('pipe_subst')
        if sub:
            cnt = [0]
            r = subst_ints(ex, r, sub, cnt)
            ex.ghost['pipe_subst_count'] = ex.ghost.get('pipe_subst_count', 0) + cnt[0]
        ex.ghost['pipe_lexed'] = ex.ghost.get('pipe_lexed', 0) + 1
        return r
    # the hook must win over nothing else: asn_spec has no other model


_LEX_CACHE = {}


def _source_text(ex, v):
    """the concrete source text inside an AsnSourceUnit value (None if not found / symbolic)"""
    v = ex.force(v) if isinstance(v, (Lazy,)) else v
    if isinstance(v, (StrRef, StringV)):
        return ''.join(map(chr, v.chars)) if is_conc_chars(v.chars) else None
    if isinstance(v, Ref):
        try:
            return _source_text(ex, ex.deref(v))
        except Exception:
            return None
    if isinstance(v, (Adt, Tup)):
        for x in v.fields:
            t = _source_text(ex, x)
            if t is not None:
                return t
    return None


def copy_value(v):
    """deep copy of an owned value tree (strings are copied too; references and scalars are shared)"""
    if isinstance(v, Adt):
        return Adt(v.ty, v.variant, [copy_value(x) for x in v.fields])
    if isinstance(v, Tup):
        return Tup([copy_value(x) for x in v.fields])
    if isinstance(v, VecV):
        n = VecV([Cell(copy_value(c.v)) for c in v.cells], v.elem)
        n.cap = v.cap
        return n
    if isinstance(v, Arr):
        return Arr([Cell(copy_value(c.v)) if isinstance(c, Cell) else c for c in v.cells])
    if isinstance(v, BoxV):
        return BoxV(Cell(copy_value(v.cell.v)))
    if isinstance(v, StringV):
        return StringV(list(v.chars))
    return deep(v)


def subst_ints(ex, v, sub, cnt):
    """replace integer leaves equal to a placeholder by the solver variable (width taken from the field's type)"""
    p = ex.p
    if isinstance(v, Adt):
        flds = None
        t = p.ty(v.ty)
        if t.get('adt'):
            vs = t['adt']['variants']
            if v.variant < len(vs):
                flds = vs[v.variant]['fields']
        for i, x in enumerate(v.fields):
            if isinstance(x, int) and not isinstance(x, bool) and x in sub and flds is not None and i < len(flds):
                k = p.kind(flds[i]['ty'])
                if k[0] == 'int':
                    s = sub[x]
                    if s.size() < k[1]:
                        raise Unsupported(f"placeholder {x} in a {k[1]}-bit field")
                    if s.size() > k[1]:
                        # a narrower field (e.g. a u64 tag number): the low bits; the harness constrains the variable to the field's range
                        s = z3.Extract(k[1] - 1, 0, s)
                    v.fields[i] = s
                    cnt[0] += 1
                    continue
            v.fields[i] = subst_ints(ex, x, sub, cnt)
        return v
    if isinstance(v, Tup):
        for i, x in enumerate(v.fields):
            v.fields[i] = subst_ints(ex, x, sub, cnt)
        return v
    if isinstance(v, (VecV, SliceRef)):
        for c in v.cells:
            c.v = subst_ints(ex, c.v, sub, cnt)
        return v
    if isinstance(v, Arr):
        for c in v.cells:
            if isinstance(c, Cell):
                c.v = subst_ints(ex, c.v, sub, cnt)
        return v
    if isinstance(v, BoxV):
        v.cell.v = subst_ints(ex, v.cell.v, sub, cnt)
        return v
    if isinstance(v, Cell):
        v.v = subst_ints(ex, v.v, sub, cnt)
        return v
    if isinstance(v, (Lazy, LazyVec)):
        return subst_ints(ex, ex.force(v), sub, cnt)
    return v


class Pipe:
    def __init__(self, prog):
        self.p = prog
        self.fn_rasn = prog.find(PIPE_RASN)
        self.fn_ts = prog.find(PIPE_TS)
        self.cfg_ty = prog.inst[self.fn_rasn]['locals'][1]
        self.fn_render = prog.find(RENDER)
        install()

    def render(self, ex, err_value, source):
        """(Display text, contextualize text) of a CompilerError value, both from the real code"""
        r = ex.force(ex.call(self.fn_render, [Ref(Cell(err_value)), StrRef([ord(c) for c in source])]))
        return r.fields[0], r.fields[1]

    def mkconfig(self, ex, config=None):
        config = config or {}
        vals = []
        for c in self.p.ty(self.cfg_ty)['adt']['variants'][0]['fields']:
            if c['name'] == 'custom_imports':
                vals.append(VecV([Cell(StringV([ord(ch) for ch in s])) for s in config.get('custom_imports', [])]))
            elif c['name'] == 'type_annotations':
                vals.append(VecV([Cell(StringV([ord(ch) for ch in s])) for s in config.get('type_annotations', [DEFAULT_ANN])]))
            else:
                vals.append(config.get(c['name'], c['name'] == 'opaque_open_types'))
        return Adt(self.cfg_ty, 0, vals)

    def compile(self, ex, sources, subst=None, backend='rasn', config=None):
        """('ok', text chars, number of warnings, warnings value) | ('err', error value, 0, None)"""
        if isinstance(sources, str):
            sources = [sources]
        ex.ghost['pipe_subst'] = subst
        srcs = VecV([Cell(StringV([ord(c) for c in s])) for s in sources])
        if backend == 'rasn':
            r = ex.call(self.fn_rasn, [self.mkconfig(ex, config), srcs])
        else:
            r = ex.call(self.fn_ts, [srcs])
        r = ex.force(r)
        if self.p.variant_name(r) != 'Ok':
            return ('err', r.fields[0], 0, None)
        cr = ex.force(r.fields[0])
        names = [fl['name'] for fl in self.p.ty(cr.ty)['adt']['variants'][0]['fields']]
        gen = ex.force(cr.fields[names.index('generated')])
        warn = ex.force(cr.fields[names.index('warnings')])
        return ('ok', list(gen.chars), len(warn.cells), warn)

    def _result(self, ex, r):
        r = ex.force(r)
        if self.p.variant_name(r) != 'Ok':
            return ('err', r.fields[0], 0, None)
        cr = ex.force(r.fields[0])
        names = [fl['name'] for fl in self.p.ty(cr.ty)['adt']['variants'][0]['fields']]
        gen = ex.force(cr.fields[names.index('generated')])
        warn = ex.force(cr.fields[names.index('warnings')])
        return ('ok', list(gen.chars), len(warn.cells), warn)

    def compile_pair(self, ex, s1, s2, subst=None):
        """two rasn compilers are built first and run afterwards: the two results"""
        ex.ghost['pipe_subst'] = subst
        mk = lambda ss: VecV([Cell(StringV([ord(c) for c in s])) for s in ss])
        r = ex.force(ex.call(self.p.find(PIPE_PAIR), [self.mkconfig(ex, None), mk(s1), self.mkconfig(ex, None), mk(s2)]))
        return self._result(ex, r.fields[0]), self._result(ex, r.fields[1])


def text_repr(chars):
    out = []
    for c in chars:
        if isinstance(c, int):
            out.append(chr(c))
        elif isinstance(c, Frag) and c.kind == 'int':
            out.append('{' + str(c.payload[0])[:40] + '}')
        elif isinstance(c, Frag):
            out.append('{' + c.kind + '}')
        else:
            out.append('{?}')
    return ''.join(out)


def texts_equal(chk, pc, a, b):
    """None if the two rendered texts are equal for every value allowed by pc; else (position, z3 model | None)"""
    if len(a) != len(b):
        return (min(len(a), len(b)), None)
    conds = []
    for i, (x, y) in enumerate(zip(a, b)):
        if isinstance(x, int) and isinstance(y, int):
            if x != y:
                return (i, None)
            continue
        if isinstance(x, Frag) and isinstance(y, Frag):
            if x.kind != y.kind:
                return (i, None)
            if x.kind == 'int':
                tx, ty = x.payload[0], y.payload[0]
                if x.payload[1:] != y.payload[1:] and not (isinstance(tx, int) and isinstance(ty, int)):
                    return (i, None)
                if isinstance(tx, int) and isinstance(ty, int):
                    if tx != ty:
                        return (i, None)
                else:
                    bits = x.payload[1]
                    conds.append((i, to_bv(tx, bits) == to_bv(ty, bits)))
                continue
            if repr(x.payload) != repr(y.payload):
                return (i, None)
            continue
        if isinstance(x, Frag) or isinstance(y, Frag):
            return (i, None)
        conds.append((i, to_bv(x, 32) == to_bv(y, 32)))
    if conds:
        m = chk.holds(pc, z3.And([c for _, c in conds]), 'texts-equal')
        if m:
            return (conds[0][0], m)
    return None


# ---- structural comparison of (concrete) value trees, e.g. two results of the lexer -----------------------------
def values_differ(p, a, b, ignore=('comments', 'description'), path=''):
    """None if equal; else a short description of the first difference.  Fields named in `ignore` are skipped;
    parser positions (nom Input values) are not part of a parse result and are skipped when both sides are Inputs."""
    if isinstance(a, (Lazy, LazyVec)) or isinstance(b, (Lazy, LazyVec)):
        return f"{path}: lazy value"
    if type(a) is not type(b):
        if isinstance(a, (StringV, StrRef)) and isinstance(b, (StringV, StrRef)):
            pass
        else:
            return f"{path}: {type(a).__name__} vs {type(b).__name__}"
    if isinstance(a, Adt):
        if a.ty != b.ty or a.variant != b.variant:
            return f"{path}: variant {p.variant_name(a) if a.ty == b.ty else a.ty} vs {p.variant_name(b) if a.ty == b.ty else b.ty}"
        t = p.ty(a.ty)
        names = None
        if t.get('adt') and a.variant < len(t['adt']['variants']):
            names = [f['name'] for f in t['adt']['variants'][a.variant]['fields']]
        if t.get('adt', {}).get('name', '').endswith('input::Input'):
            return None
        for i, (x, y) in enumerate(zip(a.fields, b.fields)):
            nm = names[i] if names and i < len(names) else str(i)
            if nm in ignore:
                continue
            d = values_differ(p, x, y, ignore, f"{path}.{nm}")
            if d:
                return d
        return None
    if isinstance(a, Tup):
        if len(a.fields) != len(b.fields):
            return f"{path}: tuple arity"
        for i, (x, y) in enumerate(zip(a.fields, b.fields)):
            d = values_differ(p, x, y, ignore, f"{path}.{i}")
            if d:
                return d
        return None
    if isinstance(a, (VecV, SliceRef, Arr)):
        ca = [c.v if isinstance(c, Cell) else c for c in a.cells]
        cb = [c.v if isinstance(c, Cell) else c for c in b.cells]
        if len(ca) != len(cb):
            return f"{path}: {len(ca)} vs {len(cb)} elements"
        for i, (x, y) in enumerate(zip(ca, cb)):
            d = values_differ(p, x, y, ignore, f"{path}[{i}]")
            if d:
                return d
        return None
    if isinstance(a, BoxV):
        return values_differ(p, a.cell.v, b.cell.v, ignore, path)
    if isinstance(a, (StringV, StrRef)):
        if len(a.chars) != len(b.chars) or any((x != y) if isinstance(x, int) and isinstance(y, int) else (x is not y) for x, y in zip(a.chars, b.chars)):
            return f"{path}: string {chars_repr(a.chars)[:40]!r} vs {chars_repr(b.chars)[:40]!r}"
        return None
    if isinstance(a, Ref):
        return None
    if isinstance(a, (int, bool)):
        return None if a == b else f"{path}: {a} vs {b}"
    if isinstance(a, z3.ExprRef):
        return None if a.eq(b) else f"{path}: symbolic {a} vs {b}"
    if isinstance(a, Opaque):
        return None if repr(a) == repr(b) else f"{path}: {a!r} vs {b!r}"
    return None if repr(a) == repr(b) else f"{path}: {repr(a)[:60]} vs {repr(b)[:60]}"
