"""Projection of a (possibly symbolic) generated token tree to items - the python twin of the runner's syn
projection, so that the same oracles read both the symbolic output of mirsym and the native output."""
from .core import *
from .tokens import TS, TIdent, TPunct, TLit, TGroup, tok_str, ts_str, tokenize


def is_id(t, name=None):
    return isinstance(t, TIdent) and (name is None or (is_conc_chars(t.chars) and ''.join(map(chr, t.chars)) == name))


def is_p(t, ch):
    return isinstance(t, TPunct) and t.ch == ch


def idname(t):
    return chars_repr(t.chars)


class Attr:
    """#[path(args)] or #[path = value] ; args as TS"""

    def __init__(self, ts):
        self.ts = ts
        toks = ts.toks
        self.path = idname(toks[0]) if toks and isinstance(toks[0], TIdent) else None
        self.args = toks[1].ts if len(toks) > 1 and isinstance(toks[1], TGroup) else None

    def __repr__(self):
        return "#[" + safe_str(self.ts) + "]"

    def items(self):
        """comma separated argument items as token lists"""
        return split_commas(self.args.toks) if self.args is not None else []


def safe_str(ts):
    try:
        return ts_str(ts)
    except Exception:
        return repr(ts)


def split_commas(toks):
    out = []
    cur = []
    for t in toks:
        if is_p(t, ','):
            out.append(cur)
            cur = []
        else:
            cur.append(t)
    if cur:
        out.append(cur)
    return out


class Field:
    def __init__(self, name, ty, attrs, vis):
        self.name, self.ty, self.attrs, self.vis = name, ty, attrs, vis

    def __repr__(self):
        return f"Field({self.name}: {safe_str(TS(self.ty))} {self.attrs})"


class Item:
    def __init__(self, kind, name, attrs, **kw):
        self.kind, self.name, self.attrs = kind, name, attrs
        self.__dict__.update(kw)

    def __repr__(self):
        return f"Item({self.kind} {self.name})"

    def rasn_items(self):
        """all items of #[rasn(..)] attributes: list of token lists"""
        out = []
        for a in self.attrs:
            if a.path == 'rasn':
                out.extend(a.items())
        return out


def take_attrs(toks, i):
    attrs = []
    while i + 1 < len(toks) and is_p(toks[i], '#') and isinstance(toks[i + 1], TGroup) and toks[i + 1].delim == '[':
        attrs.append(Attr(toks[i + 1].ts))
        i += 2
    return attrs, i


def parse_fields_named(ts):
    fields = []
    for part in split_commas_top(ts.toks):
        attrs, i = take_attrs(part, 0)
        vis = ''
        if i < len(part) and is_id(part[i], 'pub'):
            vis = 'pub'
            i += 1
            if i < len(part) and isinstance(part[i], TGroup) and part[i].delim == '(':
                i += 1
        if i >= len(part):
            continue
        name = idname(part[i])
        i += 1
        if i < len(part) and is_p(part[i], ':'):
            i += 1
        fields.append(Field(name, part[i:], attrs, vis))
    return fields


def split_commas_top(toks):
    """split on commas that are not inside < > generics"""
    out = []
    cur = []
    depth = 0
    prev = None
    for t in toks:
        if is_p(t, '<'):
            depth += 1
        elif is_p(t, '>') and not (prev is not None and is_p(prev, '-')):
            depth = max(0, depth - 1)
        if is_p(t, ',') and depth == 0:
            out.append(cur)
            cur = []
        else:
            cur.append(t)
        prev = t
    if cur:
        out.append(cur)
    return out


def parse_fields_tuple(ts):
    fields = []
    for k, part in enumerate(split_commas_top(ts.toks)):
        attrs, i = take_attrs(part, 0)
        vis = ''
        if i < len(part) and is_id(part[i], 'pub'):
            vis = 'pub'
            i += 1
        fields.append(Field(str(k), part[i:], attrs, vis))
    return fields


def parse_items(ts):
    toks = ts.toks
    items = []
    i = 0
    n = len(toks)
    while i < n:
        start = i
        nitems = len(items)
        attrs, i = take_attrs(toks, i)
        if i >= n:
            break
        vis = False
        if is_id(toks[i], 'pub'):
            vis = True
            i += 1
            if i < n and isinstance(toks[i], TGroup) and toks[i].delim == '(':
                i += 1
        t = toks[i]
        if is_id(t, 'mod'):
            name = idname(toks[i + 1])
            body = toks[i + 2]
            items.append(Item('mod', name, attrs, items=parse_items(body.ts)))
            i += 3
        elif is_id(t, 'struct'):
            name = idname(toks[i + 1])
            j = i + 2
            if j < n and isinstance(toks[j], TGroup) and toks[j].delim == '(':
                items.append(Item('struct', name, attrs, fields=parse_fields_tuple(toks[j].ts), tuple=True, unit=False))
                j += 1
                if j < n and is_p(toks[j], ';'):
                    j += 1
            elif j < n and isinstance(toks[j], TGroup) and toks[j].delim == '{':
                items.append(Item('struct', name, attrs, fields=parse_fields_named(toks[j].ts), tuple=False, unit=False))
                j += 1
            else:
                items.append(Item('struct', name, attrs, fields=[], tuple=False, unit=True))
                if j < n and is_p(toks[j], ';'):
                    j += 1
            i = j
        elif is_id(t, 'enum'):
            name = idname(toks[i + 1])
            body = toks[i + 2]
            variants = []
            for part in split_commas_top(body.ts.toks):
                vattrs, k = take_attrs(part, 0)
                if k >= len(part):
                    continue
                vname = idname(part[k])
                k += 1
                vfields = []
                disc = None
                if k < len(part) and isinstance(part[k], TGroup) and part[k].delim == '(':
                    vfields = parse_fields_tuple(part[k].ts)
                    k += 1
                elif k < len(part) and isinstance(part[k], TGroup) and part[k].delim == '{':
                    vfields = parse_fields_named(part[k].ts)
                    k += 1
                if k < len(part) and is_p(part[k], '='):
                    disc = part[k + 1:]
                variants.append(Item('variant', vname, vattrs, fields=vfields, discriminant=disc))
            items.append(Item('enum', name, attrs, variants=variants))
            i += 3
        elif is_id(t, 'impl'):
            j = i + 1
            hdr = []
            while j < n and not (isinstance(toks[j], TGroup) and toks[j].delim == '{'):
                hdr.append(toks[j])
                j += 1
            trait = None
            self_ty = hdr
            for k, h in enumerate(hdr):
                if is_id(h, 'for'):
                    trait = hdr[:k]
                    self_ty = hdr[k + 1:]
            items.append(Item('impl', safe_str(TS(self_ty)), attrs, trait=trait, self_ty=self_ty, items=parse_items(toks[j].ts) if j < n else []))
            i = j + 1
        elif is_id(t, 'fn'):
            name = idname(toks[i + 1])
            j = i + 2
            sig = []
            while j < n and not (isinstance(toks[j], TGroup) and toks[j].delim == '{'):
                sig.append(toks[j])
                j += 1
            items.append(Item('fn', name, attrs, sig=sig, body=toks[j].ts if j < n else TS()))
            i = j + 1
        elif is_id(t, 'const') or is_id(t, 'static'):
            name = idname(toks[i + 1])
            j = i + 2
            ty = []
            if j < n and is_p(toks[j], ':'):
                j += 1
            while j < n and not is_p(toks[j], '='):
                ty.append(toks[j])
                j += 1
            j += 1
            expr = []
            while j < n and not is_p(toks[j], ';'):
                expr.append(toks[j])
                j += 1
            items.append(Item(idname(t), name, attrs, ty=ty, expr=expr))
            i = j + 1
        elif is_id(t, 'use') or is_id(t, 'extern') or is_id(t, 'type'):
            j = i
            body = []
            while j < n and not is_p(toks[j], ';'):
                body.append(toks[j])
                j += 1
            items.append(Item(idname(t), safe_str(TS(body[1:])), attrs, tree=body[1:]))
            i = j + 1
        elif isinstance(t, TIdent) and i + 1 < n and is_p(toks[i + 1], '!'):
            # macro invocation  name ! { .. }
            j = i + 2
            body = toks[j] if j < n else None
            items.append(Item('macro', idname(t), attrs, body=body.ts if isinstance(body, TGroup) else TS()))
            i = j + 1
            if i < n and is_p(toks[i], ';'):
                i += 1
        else:
            items.append(Item('other', safe_str(TS([t])), attrs))
            i += 1
        for it in items[nitems:]:
            it.raw = toks[start:i]
    return items


def project_text(text):
    """items of natively generated text"""
    return parse_items(tokenize(text))


def find_items(items, kind=None, name=None):
    out = []
    for it in items:
        if (kind is None or it.kind == kind) and (name is None or it.name == name):
            out.append(it)
        if it.kind == 'mod':
            out.extend(find_items(it.items, kind, name))
    return out


# --------------------------------------------------------------------------- reading rasn annotations
def lit_chars(t):
    """content chars (ints / Frags / symbolic) of a string literal token"""
    if isinstance(t, TLit) and t.kind == 'str':
        return list(t.payload)
    if isinstance(t, TLit) and t.kind == 'raw' and t.payload.startswith('"'):
        import ast
        return [ord(c) for c in ast.literal_eval(t.payload)] if '\\u{' not in t.payload else [ord(c) for c in unescape(t.payload[1:-1])]
    return None


def unescape(s):
    import re
    def rep(m):
        return chr(int(m.group(1), 16))
    s = re.sub(r'\\u\{([0-9a-fA-F]+)\}', rep, s)
    return s.replace('\\n', '\n').replace('\\t', '\t').replace('\\r', '\r').replace('\\"', '"').replace("\\'", "'").replace('\\\\', '\\').replace('\\0', '\0')


def parse_range_string(chars):
    """'lo..=hi' | 'lo..' | '..=hi' | 'v'  -> (lo, hi) where each is None, python int, or z3 term"""
    parts = []   # numbers/frags and separators
    cur = []
    seq = []
    for c in chars:
        if isinstance(c, Frag):
            if cur:
                seq.append(('txt', ''.join(cur)))
                cur = []
            if c.kind == 'int':
                seq.append(('num', c.payload[0]))
            else:
                return None
        elif isinstance(c, int):
            cur.append(chr(c))
        else:
            return None
    if cur:
        seq.append(('txt', ''.join(cur)))
    # flatten text numbers
    toks = []
    import re
    for k, v in seq:
        if k == 'num':
            toks.append(('num', v))
        else:
            for m in re.finditer(r'-?\d+|\.\.=|\.\.|.', v):
                s = m.group(0)
                if re.fullmatch(r'-?\d+', s):
                    toks.append(('num', int(s)))
                else:
                    toks.append(('sep', s))
    kinds = [k for k, _ in toks]
    vals = [v for _, v in toks]
    if kinds == ['num']:
        return (vals[0], vals[0], True)
    if kinds == ['num', 'sep', 'num'] and vals[1] == '..=':
        return (vals[0], vals[2], False)
    if kinds == ['num', 'sep'] and vals[1] == '..':
        return (vals[0], None, False)
    if kinds == ['sep', 'num'] and vals[0] == '..=':
        return (None, vals[1], False)
    # Rust's half-open forms exclude the upper end point
    if kinds == ['num', 'sep', 'num'] and vals[1] == '..':
        return (vals[0], vals[2] - 1, False)
    if kinds == ['sep', 'num'] and vals[0] == '..':
        return (None, vals[1] - 1, False)
    return None


def range_annotation(attr_items, which):
    """(lo, hi, extensible, single) of value(..) / size(..) among rasn attribute items, or None if absent.
    Raises ValueError if present but not understood."""
    for it in attr_items:
        if it and is_id(it[0], which) and len(it) > 1 and isinstance(it[1], TGroup):
            inner = split_commas(it[1].ts.toks)
            chars = lit_chars(inner[0][0]) if inner and inner[0] else None
            if chars is None:
                raise ValueError(f"{which} annotation without string literal")
            r = parse_range_string(chars)
            if r is None:
                raise ValueError(f"cannot parse {which} range {chars_repr(chars)}")
            ext = len(inner) > 1 and len(inner[1]) == 1 and is_id(inner[1][0], 'extensible')
            return (r[0], r[1], ext, r[2])
    return None
