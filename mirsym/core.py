"""mirsym core: symbolic execution of rustc_public MIR (JSON dump of the smir driver) with z3.

Values
  scalars      python int (mathematical value) / bool when concrete, z3 BitVecRef / BoolRef when symbolic
  Adt, Tup     aggregates (mutable python objects; Copy of an aggregate copies)
  Arr, VecV    arrays / Vec<T> as lists of Cells
  SliceRef     &[T] / &mut [T]: list of (shared) Cells
  Ref          reference or raw pointer = (Cell, projection path)
  BoxV         Box<T> (owned Cell)
  StringV/StrRef  String / &str as lists of chars (python ints, z3 BV32, or Frag pieces)
  ClosureV, FnDefV, FnPtrV, Opaque, Lazy, LazyVec

Exploration is by re-execution under a decision trace; every symbolic branch is recorded (forced or chosen)
so that replaying a prefix costs no solver calls.
"""
import json, sys, time, os, pickle, hashlib
import z3

sys.setrecursionlimit(200000)



# block coverage of crate-local code (only with VERIF_COV=<dir>; tools/covmap.py): instance name -> executed block indices
COV = {} if os.environ.get('VERIF_COV') else None

class Unsupported(Exception):
    pass


class PathEnd(Exception):
    """infeasible / assumption violated: the path is dropped"""
    pass


class Truncated(Exception):
    """a declared bound was hit"""
    pass


class Panic(Exception):
    def __init__(self, msg, where=None):
        Exception.__init__(self, msg)
        self.msg = msg
        self.where = where


INT_BITS = {'I8': 8, 'I16': 16, 'I32': 32, 'I64': 64, 'I128': 128, 'Isize': 64,
            'U8': 8, 'U16': 16, 'U32': 32, 'U64': 64, 'U128': 128, 'Usize': 64}


# --------------------------------------------------------------------------- values
class Cell:
    __slots__ = ('v',)

    def __init__(self, v=None):
        self.v = v

    def __repr__(self):
        return f"Cell({self.v!r})"


class Ref:
    __slots__ = ('cell', 'path', 'meta')

    def __init__(self, cell, path=(), meta=None):
        self.cell = cell
        self.path = tuple(path)
        self.meta = meta

    def __repr__(self):
        return f"Ref({self.path})"


class Adt:
    __slots__ = ('ty', 'variant', 'fields')

    def __init__(self, ty, variant, fields):
        self.ty = ty
        self.variant = variant
        self.fields = fields

    def __repr__(self):
        return f"Adt(t{self.ty},v{self.variant},{self.fields})"


class Tup:
    __slots__ = ('fields',)

    def __init__(self, fields):
        self.fields = list(fields)

    def __repr__(self):
        return f"Tup{self.fields}"


class Arr:
    __slots__ = ('cells',)

    def __init__(self, cells):
        self.cells = cells

    def __repr__(self):
        return f"Arr{[c.v for c in self.cells]}"


class VecV:
    __slots__ = ('cells', 'elem', 'cap')

    def __init__(self, cells, elem=None):
        self.cells = cells
        self.elem = elem
        self.cap = None

    def __repr__(self):
        return f"Vec{[c.v for c in self.cells]}"


class SliceRef:
    __slots__ = ('cells',)

    def __init__(self, cells):
        self.cells = cells

    def __repr__(self):
        return f"Slice{[c.v for c in self.cells]}"


class BoxV:
    __slots__ = ('cell',)

    def __init__(self, cell):
        self.cell = cell

    def __repr__(self):
        return f"Box({self.cell.v!r})"


class Frag:
    """opaque piece of a formatted string: ('int', term, bits, signed) | ('debug', value) | ('opaque', what)"""
    __slots__ = ('kind', 'payload')

    def __init__(self, kind, payload):
        self.kind = kind
        self.payload = payload

    def __repr__(self):
        return f"Frag({self.kind},{self.payload})"


class StringV:
    __slots__ = ('chars',)

    def __init__(self, chars=()):
        self.chars = list(chars)

    def __repr__(self):
        return "String(%r)" % (chars_repr(self.chars),)


class StrRef:
    """&str: chars plus (for sub-slices) the identity of the string it was cut from and its byte offset in it"""
    __slots__ = ('chars', 'base', 'off')

    def __init__(self, chars=(), base=None, off=0):
        self.chars = tuple(chars)
        self.base = base
        self.off = off

    def sub(self, i, j):
        """sub-slice by char indices, keeping provenance"""
        if self.base is None:
            self.base = object()
        off = self.off
        for c in self.chars[:i]:
            off += 1 if not isinstance(c, int) else (1 if c < 0x80 else 2 if c < 0x800 else 3 if c < 0x10000 else 4)
        return StrRef(self.chars[i:j], self.base, off)

    def __repr__(self):
        return "str(%r)" % (chars_repr(self.chars),)


def chars_repr(chars):
    out = []
    for c in chars:
        if isinstance(c, int):
            out.append(chr(c))
        elif isinstance(c, Frag):
            out.append('{' + c.kind + '}')
        else:
            out.append('{?}')
    return ''.join(out)


def mkstr(s):
    return StrRef([ord(c) for c in s])


def is_conc_chars(chars):
    for c in chars:
        if not isinstance(c, int):
            return False
    return True


def pystr(v):
    """concrete python string of a StringV/StrRef (raises if symbolic)"""
    if not is_conc_chars(v.chars):
        raise Unsupported("symbolic string where a concrete one is needed: " + chars_repr(v.chars))
    return ''.join(map(chr, v.chars))


class ClosureV:
    __slots__ = ('ty', 'caps')

    def __init__(self, ty, caps):
        self.ty = ty
        self.caps = caps

    def __repr__(self):
        return f"Closure(t{self.ty})"


class FnDefV:
    __slots__ = ('ty',)

    def __init__(self, ty):
        self.ty = ty

    def __repr__(self):
        return f"FnDef(t{self.ty})"


class FnPtrV:
    __slots__ = ('inst',)

    def __init__(self, inst):
        self.inst = inst


class Opaque:
    __slots__ = ('what',)

    def __init__(self, what):
        self.what = what

    def __repr__(self):
        return f"Opaque({self.what})"


class MaybeUninitV:
    """uninitialised memory behind Box::new_uninit: the MaybeUninit/ManuallyDrop wrappers are transparent"""
    __slots__ = ()


class Lazy:
    """symbolic ADT input; template = (variant, child values) shared by all copies"""
    __slots__ = ('ty', 'name', 'depth', 'template')

    def __init__(self, ty, name, depth):
        self.ty = ty
        self.name = name
        self.depth = depth
        self.template = None

    def __repr__(self):
        return f"Lazy({self.name})"


class LazyVec:
    __slots__ = ('elem', 'name', 'depth', 'template')

    def __init__(self, elem, name, depth):
        self.elem = elem
        self.name = name
        self.depth = depth
        self.template = None

    def __repr__(self):
        return f"LazyVec({self.name})"


UNIT = Tup([])


def deep(v):
    """structural copy sharing Lazy nodes, scalars and references"""
    if isinstance(v, Adt):
        return Adt(v.ty, v.variant, [deep(x) for x in v.fields])
    if isinstance(v, Tup):
        return Tup([deep(x) for x in v.fields]) if v.fields else v
    if isinstance(v, VecV):
        return VecV([Cell(deep(c.v)) for c in v.cells], v.elem)
    if isinstance(v, Arr):
        return Arr([Cell(deep(c.v)) for c in v.cells])
    if isinstance(v, BoxV):
        return BoxV(Cell(deep(v.cell.v)))
    if isinstance(v, StringV):
        return StringV(v.chars)
    if isinstance(v, ClosureV):
        return ClosureV(v.ty, [deep(x) for x in v.caps])
    from . import models
    return models.deep_extra(v, deep)


# --------------------------------------------------------------------------- program
_NAME_SUBS = [('nom::internal::', 'nom::'), ('nom::traits::', 'nom::'), ('quote::to_tokens::ToTokens', 'quote::ToTokens'),
              ('quote::ext::TokenStreamExt', 'quote::TokenStreamExt'), ('quote::ident_fragment::IdentFragment', 'quote::IdentFragment')]


def _norm_name(s):
    """rustc prints a path through the shortest re-export visible from the crate being compiled; a harness crate sees
    the defining modules of nom / quote items instead of the crate-root re-exports that rasn-compiler itself sees"""
    for a, b in _NAME_SUBS:
        if a in s:
            s = s.replace(a, b)
    return s


def _normalise_names(d):
    for v in d['instances'].values():
        v['name'] = _norm_name(v['name'])
        for c in (v.get('callees') or {}).values():
            if isinstance(c, dict) and 'name' in c:
                c['name'] = _norm_name(c['name'])
    for t in d['types'].values():
        if 'str' in t:
            t['str'] = _norm_name(t['str'])
        if isinstance(t.get('adt'), dict) and 'name' in t['adt']:
            t['adt']['name'] = _norm_name(t['adt']['name'])


class Program:
    def __init__(self, path):
        pk = path + '.pickle'
        if os.path.exists(pk) and os.path.getmtime(pk) >= os.path.getmtime(path):
            d = pickle.load(open(pk, 'rb'))
        else:
            d = json.load(open(path))
            _normalise_names(d)
            try:
                pickle.dump(d, open(pk + '.tmp', 'wb'), protocol=4)
                os.replace(pk + '.tmp', pk)
            except Exception:
                pass
        self.path = path
        self.inst = d['instances']
        self.types = {int(k): v for k, v in d['types'].items()}
        self.allocs = d.get('allocs', {})
        self.tls = d.get('tls_statics', {})
        self.roots = d['roots']
        self.clone_impls = d.get('clone_impls', [])
        self._kind = {}
        self._by_name = {}
        for k, v in self.inst.items():
            self._by_name.setdefault(v['name'], []).append(k)
        self._tyname = {}
        for k, v in self.types.items():
            self._tyname.setdefault(v['str'], []).append(k)

    def ty(self, tid):
        return self.types[tid]

    def kind(self, tid):
        """normalised kind tuple"""
        k = self._kind.get(tid)
        if k is not None:
            return k
        t = self.types[tid]
        r = t['kind'].get('RigidTy') if isinstance(t['kind'], dict) else None
        if r is None:
            k = ('other', str(t['kind'])[:40])
        elif r == 'Bool':
            k = ('bool',)
        elif r == 'Char':
            k = ('char',)
        elif r == 'Str':
            k = ('str',)
        elif r == 'Never':
            k = ('never',)
        elif isinstance(r, dict):
            if 'Int' in r:
                k = ('int', INT_BITS[r['Int']], True)
            elif 'Uint' in r:
                k = ('int', INT_BITS[r['Uint']], False)
            elif 'Float' in r:
                k = ('float', r['Float'])
            elif 'Adt' in r:
                k = ('adt', t['adt']['name'])
            elif 'Tuple' in r:
                k = ('tuple', tuple(r['Tuple']))
            elif 'Ref' in r:
                k = ('ref', r['Ref'][1], r['Ref'][2])
            elif 'RawPtr' in r:
                k = ('ptr', r['RawPtr'][0], r['RawPtr'][1])
            elif 'Slice' in r:
                k = ('slice', r['Slice'])
            elif 'Array' in r:
                n = None
                c = r['Array'][1]
                try:
                    n = int.from_bytes(bytes(c['kind']['Value'][1]['bytes']), 'little')
                except Exception:
                    pass
                k = ('array', r['Array'][0], n)
            elif 'Closure' in r:
                k = ('closure',)
            elif 'FnDef' in r:
                k = ('fndef',)
            elif 'FnPtr' in r:
                k = ('fnptr',)
            elif 'Dynamic' in r:
                k = ('dyn',)
            elif 'Pat' in r:
                k = ('pat', r['Pat'][0])
            else:
                k = ('other', list(r.keys())[0])
        else:
            k = ('other', str(r))
        self._kind[tid] = k
        return k

    def adt(self, tid):
        return self.types[tid].get('adt')

    def adt_short(self, tid):
        a = self.types[tid].get('adt')
        return a['name'].split('::')[-1] if a else None

    def variant_index(self, tid, name):
        for i, v in enumerate(self.types[tid]['adt']['variants']):
            if v['name'] == name:
                return i
        raise KeyError((self.types[tid]['str'], name))

    def variant_name(self, v):
        return self.types[v.ty]['adt']['variants'][v.variant]['name']

    def field_index(self, tid, variant, fname):
        for i, f in enumerate(self.types[tid]['adt']['variants'][variant]['fields']):
            if f['name'] == fname:
                return i
        raise KeyError((self.types[tid]['str'], fname))

    def find(self, suffix):
        for r0 in self.roots:
            if r0.get('root') == suffix and r0.get('inst'):
                return r0['inst']
        r = [k for k, v in self.inst.items() if v['name'] == suffix]
        if not r:
            r = [k for k, v in self.inst.items() if v['name'].endswith(suffix)]
        if len(r) != 1:
            raise KeyError(f"instance {suffix!r}: {len(r)} matches {[self.inst[k]['name'] for k in r][:5]}")
        return r[0]

    def find_type(self, s):
        r = self._tyname.get(s)
        if not r:
            r = [k for k, v in self.types.items() if v['str'].endswith(s)]
        if not r:
            raise KeyError(s)
        return r[0]


# --------------------------------------------------------------------------- scalar helpers
def is_sym(v):
    return isinstance(v, z3.ExprRef)


def norm(v, bits, signed):
    v &= (1 << bits) - 1
    if signed and v >> (bits - 1):
        v -= 1 << bits
    return v


def to_bv(v, bits):
    if isinstance(v, bool):
        return z3.BitVecVal(1 if v else 0, bits)
    if isinstance(v, int):
        return z3.BitVecVal(v & ((1 << bits) - 1), bits)
    if z3.is_bool(v):
        return z3.If(v, z3.BitVecVal(1, bits), z3.BitVecVal(0, bits))
    return v


def to_boolref(v):
    if isinstance(v, bool):
        return z3.BoolVal(v)
    return v


def simp(e):
    """simplify a z3 term; return python scalar if it became concrete (needs type info from caller)"""
    return z3.simplify(e)


def conc_of(e, signed):
    """python value of a concrete z3 term or None"""
    if z3.is_bv_value(e):
        return e.as_signed_long() if signed else e.as_long()
    if z3.is_true(e):
        return True
    if z3.is_false(e):
        return False
    return None


# --------------------------------------------------------------------------- executor
class Exec:
    def __init__(self, prog, models=None):
        from . import models as M
        self.p = prog
        self.M = M
        self.solver = z3.Solver()
        self.trace = []
        self.pos = 0
        self.pending = []
        self.pc = []
        self.log = []
        self.queries = 0
        self.solver_time = 0.0
        self.steps = 0
        self.path_steps = 0
        self.max_path_steps = 400000
        self.unmodelled = {}
        self.vec_max = 2
        self.variant_filter = None
        self.vec_len_filter = None
        self.max_depth = 12
        self.withheld = {}          # variants not explored because of a bound: name -> count
        self.io_trace = []
        self.sym_counter = 0
        self.call_depth = 0
        self.max_call_depth = 400
        self.ghost = {}
        self.fn_cache = {}
        self.model_cache = {}
        self.encoded = set()        # names of instances whose real MIR was executed
        self.models_used = set()
        self.ascii_syms = []
        self.statics = {}
        self.path_statics = {}
        self.stack = []

    # ---- decisions
    def choose(self, n, label):
        if n == 1:
            return 0
        if self.pos < len(self.trace):
            c = self.trace[self.pos]
        else:
            c = 0
            self.trace.append(0)
            for alt in range(n - 1, 0, -1):
                self.pending.append(self.trace[:self.pos] + [alt])
        self.pos += 1
        self.log.append((label, c))
        return c

    def add_pc(self, cond):
        self.pc.append(cond)
        self.solver.add(cond)

    def assume(self, cond):
        if isinstance(cond, bool):
            if not cond:
                raise PathEnd()
            return
        cond = z3.simplify(cond)
        if z3.is_true(cond):
            return
        if z3.is_false(cond):
            raise PathEnd()
        self.add_pc(cond)

    def check_sat(self, *extra):
        self.queries += 1
        t = time.time()
        r = self.solver.check(*extra)
        self.solver_time += time.time() - t
        if r == z3.unknown:
            raise Unsupported("solver returned unknown on a feasibility query")
        return r == z3.sat

    def branch(self, cond, label=''):
        if isinstance(cond, bool):
            return cond
        cond = z3.simplify(cond)
        if z3.is_true(cond):
            return True
        if z3.is_false(cond):
            return False
        if self.pos < len(self.trace):
            c = self.trace[self.pos]
            self.pos += 1
            # 0 / 1 = forced true / false, 2 / 3 = chosen true / false
            if c in (0, 2):
                if c == 2:
                    self.add_pc(cond)
                return True
            if c == 3:
                self.add_pc(z3.Not(cond))
            return False
        t = self.check_sat(cond)
        f = self.check_sat(z3.Not(cond))
        if t and f:
            self.trace.append(2)
            self.pending.append(self.trace[:self.pos] + [3])
            self.pos += 1
            self.log.append((label, 1))
            self.add_pc(cond)
            return True
        if t:
            self.trace.append(0)
            self.pos += 1
            return True
        if f:
            self.trace.append(1)
            self.pos += 1
            return False
        raise PathEnd()

    def summarize_bool(self, thunk):
        """state merging for a PURE computation that returns a bool (a character predicate applied to a symbolic character):
        all its paths are enumerated in a nested exploration and folded into the single term OR_i (pc_i AND result_i), so that
        the caller branches once on what the predicate says instead of once per comparison inside it.  Anything but a clean
        boolean result on every sub-path (panic, unsupported, budget) falls back to the ordinary, forking execution."""
        outer = (self.trace, self.pos, self.pending, self.log, self.call_depth, len(self.stack))
        base = len(self.pc)
        sub_pending = [[]]
        terms = []
        ok = True
        try:
            while sub_pending and ok:
                self.trace = sub_pending.pop()
                self.pos = 0
                self.pending = sub_pending
                self.log = []
                self.solver.push()
                try:
                    try:
                        r = thunk()
                        if isinstance(r, bool):
                            r = z3.BoolVal(r)
                        if not z3.is_bool(r):
                            ok = False
                        else:
                            terms.append(z3.And(*(self.pc[base:] + [r])))
                    except PathEnd:
                        pass
                    except (Panic, Truncated, Unsupported, RecursionError):
                        ok = False
                finally:
                    del self.pc[base:]
                    self.solver.pop()
                    self.call_depth = outer[4]
                    del self.stack[outer[5]:]
        finally:
            self.trace, self.pos, self.pending, self.log = outer[:4]
        if not ok:
            return thunk()
        return z3.simplify(z3.Or(*terms)) if terms else False

    def concretize(self, v, candidates, label='concretize'):
        """fork a symbolic scalar over the concrete candidates (all others: path withheld, counted)"""
        if isinstance(v, int):
            return v
        s = z3.simplify(v)
        if z3.is_bv_value(s):
            return s.as_long()
        for c in candidates:
            if self.branch(v == z3.BitVecVal(c, v.size()), label):
                return c
        self.withheld[label] = self.withheld.get(label, 0) + 1
        raise Truncated(f"{label}: value outside candidates")

    def fresh(self, name, bits):
        self.sym_counter += 1
        return z3.BitVec(f"{name}", bits)

    # ---- symbolic inputs
    def sym_value(self, tid, name, depth=0):
        k = self.p.kind(tid)
        if k[0] == 'bool':
            return z3.Bool(name)
        if k[0] == 'char':
            c = z3.BitVec(name, 32)
            self.add_pc(z3.Or(z3.ULT(c, 0xD800), z3.And(z3.UGT(c, 0xDFFF), z3.ULE(c, 0x10FFFF))))
            return c
        if k[0] == 'int':
            return z3.BitVec(name, k[1])
        if k[0] == 'adt':
            an = k[1]
            t = self.p.ty(tid)
            if an in ('std::vec::Vec', 'alloc::vec::Vec'):
                return LazyVec(t['adt']['targs'][0], name, depth)
            if an in ('std::boxed::Box', 'alloc::boxed::Box'):
                return BoxV(Cell(self.sym_value(t['adt']['targs'][0], name + '.*', depth)))
            if an in ('std::string::String', 'alloc::string::String'):
                return self.M.sym_string(self, name)
            h = self.M.sym_adt_hook(self, tid, an, name, depth)
            if h is not None:
                return h
            return Lazy(tid, name, depth)
        if k[0] == 'tuple':
            return Tup([self.sym_value(x, f"{name}.{i}", depth) for i, x in enumerate(k[1])])
        if k[0] == 'array' and k[2] is not None:
            return Arr([Cell(self.sym_value(k[1], f"{name}[{i}]", depth)) for i in range(k[2])])
        return Opaque(self.p.ty(tid)['str'] + ':' + name)

    def materialise(self, v):
        if isinstance(v, Lazy):
            if v.template is None:
                adt = self.p.ty(v.ty)['adt']
                short = adt['name'].split('::')[-1]
                if adt['kind'] != 'Enum':
                    allowed = [0]
                else:
                    allowed = [i for i, var in enumerate(adt['variants'])
                               if (self.variant_filter is None or self.variant_filter(short, var['name'], v))]
                    if v.depth >= self.max_depth:
                        leaf = [i for i in allowed if not adt['variants'][i]['fields']]
                        nw = len(allowed) - len(leaf)
                        if nw:
                            self.withheld['depth:' + short] = self.withheld.get('depth:' + short, 0) + nw
                        allowed = leaf
                if not allowed:
                    raise PathEnd()
                vi = allowed[self.choose(len(allowed), f"variant:{v.name}")]
                var = adt['variants'][vi]
                v.template = (vi, [self.sym_value(f['ty'], f"{v.name}.{var['name']}.{f['name']}" if adt['kind'] == 'Enum' else f"{v.name}.{f['name']}", v.depth + 1)
                                   for f in var['fields']])
            vi, kids = v.template
            return Adt(v.ty, vi, [deep(k) for k in kids])
        if isinstance(v, LazyVec):
            if v.template is None:
                lens = list(range(self.vec_max + 1))
                if self.vec_len_filter is not None:
                    lens = [n for n in lens if self.vec_len_filter(v, n)]
                if not lens:
                    raise PathEnd()
                n = lens[self.choose(len(lens), f"len:{v.name}")]
                v.template = [self.sym_value(v.elem, f"{v.name}[{i}]", v.depth + 1) for i in range(n)]
            return VecV([Cell(deep(k)) for k in v.template], v.elem)
        return v

    def force(self, v):
        while isinstance(v, (Lazy, LazyVec)):
            v = self.materialise(v)
        return v

    # ---- places
    def _child(self, container, step):
        kind, i = step
        if kind == 'f':
            if isinstance(container, (Adt, Tup)):
                try:
                    return container.fields[i]
                except IndexError:
                    raise Unsupported(f"field {i} of {container!r}")
            if isinstance(container, ClosureV):
                return container.caps[i]
            r = self.M.field_of(self, container, i)
            if r is not NotImplemented:
                return r
            raise Unsupported(f"field {i} of {type(container).__name__} {container!r}"[:200])
        if kind == 'i':
            if isinstance(container, (Arr, VecV, SliceRef)):
                if i >= len(container.cells):
                    raise Panic("index out of bounds")
                return container.cells[i].v
            raise Unsupported(f"index of {container!r}"[:200])
        return container

    def _set_child(self, container, step, val):
        kind, i = step
        if kind == 'f':
            if isinstance(container, (Adt, Tup)):
                container.fields[i] = val
                return
            if isinstance(container, ClosureV):
                container.caps[i] = val
                return
            if self.M.set_field_of(self, container, i, val):
                return
        if kind == 'i' and isinstance(container, (Arr, VecV, SliceRef)):
            container.cells[i].v = val
            return
        raise Unsupported(f"store {step} into {container!r}"[:200])

    def load_path(self, cell, path):
        """value at the place, forced (lazy nodes on the way and at the end are materialised in place)"""
        v = cell.v
        if isinstance(v, (Lazy, LazyVec)):
            v = self.materialise(v)
            cell.v = v
        for step in path:
            if step[0] == 'd':
                if isinstance(v, Adt) and v.variant != step[1]:
                    raise Panic("downcast to wrong variant (UB)")
                continue
            child = self._child(v, step)
            if isinstance(child, (Lazy, LazyVec)):
                child = self.materialise(child)
                self._set_child(v, step, child)
            v = child
        return v

    def load_raw(self, cell, path):
        """value at the place without forcing the final node"""
        k = len(path)
        while k > 0 and path[k - 1][0] == 'd':
            k -= 1
        if k == 0:
            return cell.v
        parent = self.load_path(cell, path[:k - 1])
        return self._child(parent, path[k - 1])

    def store_path(self, cell, path, val):
        if isinstance(cell.v, MaybeUninitV):
            cell.v = val
            return
        k = len(path)
        while k > 0 and path[k - 1][0] == 'd':
            k -= 1
        if k == 0:
            cell.v = val
            return
        parent = self.load_path(cell, path[:k - 1])
        self._set_child(parent, path[k - 1], val)

    def deref(self, v):
        """follow refs/boxes to the (forced) referent"""
        while True:
            if isinstance(v, Ref):
                v = self.load_path(v.cell, v.path)
            elif isinstance(v, BoxV):
                v = self.force_cell(v.cell)
            else:
                return self.force(v)

    def force_cell(self, cell):
        v = cell.v
        if isinstance(v, (Lazy, LazyVec)):
            v = self.materialise(v)
            cell.v = v
        return v

    def resolve_place(self, frame, place):
        cell = frame.locals[place['local']]
        proj = place['projection']
        if not proj:
            return cell, ()
        path = []
        for pr in proj:
            if pr == 'Deref':
                v = self.load_path(cell, path)
                if isinstance(v, Ref):
                    cell, path = v.cell, list(v.path)
                elif isinstance(v, BoxV):
                    cell, path = v.cell, []
                elif isinstance(v, (StrRef, SliceRef)):
                    cell, path = Cell(v), []
                else:
                    r = self.M.deref_of(self, v)
                    if r is NotImplemented:
                        raise Unsupported(f"deref of {v!r}"[:200])
                    cell, path = r[0], list(r[1])
            elif isinstance(pr, dict):
                if 'Field' in pr:
                    path.append(('f', pr['Field'][0]))
                elif 'Downcast' in pr:
                    path.append(('d', pr['Downcast']))
                elif 'Index' in pr:
                    iv = frame.locals[pr['Index']].v
                    cont = self.load_path(cell, path)
                    n = len(cont.cells) if isinstance(cont, (Arr, VecV, SliceRef)) else None
                    if n is None:
                        raise Unsupported(f"Index into {cont!r}"[:200])
                    if not isinstance(iv, int):
                        iv = self.concretize(iv, range(n), 'index')
                    path.append(('i', iv))
                elif 'ConstantIndex' in pr:
                    ci = pr['ConstantIndex']
                    if ci['from_end']:
                        cont = self.load_path(cell, path)
                        path.append(('i', len(cont.cells) - ci['offset']))
                    else:
                        path.append(('i', ci['offset']))
                elif 'OpaqueCast' in pr or 'Subtype' in pr:
                    pass
                else:
                    raise Unsupported(f"projection {pr}")
            else:
                raise Unsupported(f"projection {pr}")
        return cell, path

    # ---- types of places / operands
    def place_ty(self, f, place):
        tid = f['locals'][place['local']]
        for pr in place['projection']:
            if pr == 'Deref':
                k = self.p.kind(tid)
                if k[0] in ('ref', 'ptr'):
                    tid = k[1]
                elif k[0] == 'adt':
                    tid = self.p.ty(tid)['adt']['targs'][0]
                else:
                    raise Unsupported(f"deref type {k}")
            elif isinstance(pr, dict):
                if 'Field' in pr:
                    tid = pr['Field'][1]
                elif 'Index' in pr or 'ConstantIndex' in pr:
                    k = self.p.kind(tid)
                    tid = k[1]
                elif 'OpaqueCast' in pr:
                    tid = pr['OpaqueCast']
                elif 'Subtype' in pr:
                    tid = pr['Subtype']
        return tid

    def operand_ty(self, f, op):
        c = op.get('Constant')
        if c is not None:
            return c['const_']['ty']
        return self.place_ty(f, op.get('Copy') or op.get('Move'))

    # ---- constants
    def const_val(self, c):
        cc = c['const_']
        key = cc.get('id')
        k = cc['kind']
        tid = cc['ty']
        if k == 'ZeroSized':
            return self.zst(tid)
        if isinstance(k, dict) and 'Allocated' in k:
            a = k['Allocated']
            return self.decode(a['bytes'], 0, tid, a['provenance']['ptrs'])
        raise Unsupported(f"const kind {str(k)[:80]}")

    def zst(self, tid):
        kk = self.p.kind(tid)
        if kk[0] == 'fndef':
            return FnDefV(tid)
        if kk[0] == 'closure':
            up = self.p.ty(tid).get('upvars')
            caps = []
            if up is not None and self.p.kind(up)[0] == 'tuple':
                caps = [self.zst(t) for t in self.p.kind(up)[1]]
            return ClosureV(tid, caps)
        if kk[0] == 'adt':
            adt = self.p.ty(tid)['adt']
            if adt['kind'] == 'Enum':
                # single inhabited variant
                return Adt(tid, 0, [self.zst(f['ty']) for f in adt['variants'][0]['fields']])
            return Adt(tid, 0, [self.zst(f['ty']) for f in adt['variants'][0]['fields']])
        if kk[0] == 'tuple':
            return Tup([self.zst(x) for x in kk[1]])
        if kk[0] == 'array':
            return Arr([])
        return UNIT

    def decode(self, by, off, tid, ptrs):
        """decode a value of type tid from constant bytes (layout driven)"""
        p = self.p
        kk = p.kind(tid)
        t = p.ty(tid)

        def rd(o, n):
            bs = by[o:o + n]
            return int.from_bytes(bytes((b if b is not None else 0) for b in bs), 'little')
        if kk[0] == 'int':
            return norm(rd(off, kk[1] // 8), kk[1], kk[2])
        if kk[0] == 'bool':
            return rd(off, 1) != 0
        if kk[0] == 'char':
            return rd(off, 4)
        if kk[0] == 'float':
            return Opaque('float')
        if kk[0] in ('ref', 'ptr', 'fnptr'):
            tgt = None
            for po, aid in ptrs:
                if po == off:
                    tgt = aid
            if tgt is None:
                a = rd(off, 8)
                if kk[0] == 'ptr':
                    return Opaque(f'rawptr:{a}')
                # dangling-but-aligned reference to a ZST / empty slice
                ik = p.kind(kk[1]) if kk[0] == 'ref' else None
                if ik and ik[0] == 'str':
                    return StrRef(())
                if ik and ik[0] == 'slice':
                    return SliceRef([])
                if ik:
                    return Ref(Cell(self.zst(kk[1])))
                return Opaque('ptr')
            al = p.allocs.get(str(tgt))
            if al is None:
                return Opaque(f'alloc{tgt}')
            if 'Function' in al:
                return FnPtrV(al['Function'])
            if 'Static' in al:
                return self.static_ref(tgt, al['Static'])
            if 'Memory' not in al:
                return Opaque(f'alloc:{list(al)[0] if isinstance(al, dict) else al}')
            mem = al['Memory']
            ib = mem['bytes']
            iptrs = mem['provenance']['ptrs']
            # offset inside the target allocation is the pointer value itself
            inner_off = rd(off, 8)
            inner = kk[1] if kk[0] != 'fnptr' else None
            ik = p.kind(inner)
            if ik[0] == 'str':
                ln = rd(off + 8, 8)
                s = bytes((b or 0) for b in ib[inner_off:inner_off + ln]).decode('utf-8')
                return StrRef([ord(ch) for ch in s])
            if ik[0] == 'slice':
                ln = rd(off + 8, 8)
                st = self.size_of(ik[1])
                return SliceRef([Cell(self.decode(ib, inner_off + i * st, ik[1], iptrs)) for i in range(ln)])
            if ik[0] == 'dyn':
                return Opaque('dyn-const')
            return Ref(Cell(self.decode(ib, inner_off, inner, iptrs)))
        lay = t.get('layout')
        if kk[0] == 'tuple':
            offs = lay['fields']['Arbitrary']['offsets']
            return Tup([self.decode(by, off + offs[i]['num_bits'] // 8, ft, ptrs) for i, ft in enumerate(kk[1])])
        if kk[0] == 'array':
            st = lay['fields']['Array']['stride']['num_bits'] // 8
            return Arr([Cell(self.decode(by, off + i * st, kk[1], ptrs)) for i in range(lay['fields']['Array']['count'])])
        if kk[0] == 'adt':
            hook = self.M.decode_adt_hook(self, by, off, tid, ptrs)
            if hook is not NotImplemented:
                return hook
            adt = t['adt']
            vs = lay['variants']
            if 'Single' in vs:
                vi = vs['Single']['index']
                offs = lay['fields']['Arbitrary']['offsets'] if isinstance(lay['fields'], dict) and 'Arbitrary' in lay['fields'] else []
                flds = adt['variants'][vi]['fields']
                return Adt(tid, vi, [self.decode(by, off + offs[i]['num_bits'] // 8, f['ty'], ptrs) for i, f in enumerate(flds)])
            if 'Multiple' in vs:
                m = vs['Multiple']
                tag_off = lay['fields']['Arbitrary']['offsets'][m['tag_field']]['num_bits'] // 8
                tv = m['tag']['Initialized']['value']
                if 'Int' in tv:
                    tbits = INT_BITS[tv['Int']['length']]
                else:
                    tbits = 64
                tag = rd(off + tag_off, tbits // 8)
                enc = m['tag_encoding']
                if enc == 'Direct':
                    vi = None
                    for i, var in enumerate(adt['variants']):
                        if int(var['discr']) & ((1 << tbits) - 1) == tag:
                            vi = i
                    if vi is None:
                        raise Unsupported(f"const enum tag {tag} of {t['str']}")
                else:
                    n = enc['Niche']
                    rel = (tag - n['niche_start']) & ((1 << tbits) - 1)
                    lo, hi = n['niche_variants']['start'], n['niche_variants']['end']
                    # pointer-tagged niches with provenance are the untagged variant
                    has_ptr = any(po == off + tag_off for po, _ in ptrs)
                    if not has_ptr and rel <= hi - lo:
                        vi = lo + rel
                    else:
                        vi = n['untagged_variant']
                offs = m['variants'][vi]['offsets']
                flds = adt['variants'][vi]['fields']
                return Adt(tid, vi, [self.decode(by, off + offs[i]['num_bits'] // 8, f['ty'], ptrs) for i, f in enumerate(flds)])
        if kk[0] == 'closure':
            return ClosureV(tid, [])
        if kk[0] == 'fndef':
            return FnDefV(tid)
        if kk[0] == 'pat':
            return self.decode(by, off, kk[1], ptrs)
        raise Unsupported(f"decode const of {t['str']}")

    def size_of(self, tid):
        kk = self.p.kind(tid)
        if kk[0] == 'int':
            return kk[1] // 8
        lay = self.p.ty(tid).get('layout')
        if lay:
            return lay['size']['num_bits'] // 8
        raise Unsupported(f"size_of {self.p.ty(tid)['str']}")

    def static_ref(self, aid, st):
        """reference to a static: one cell per path (statics with interior mutability are re-initialised per path)"""
        c = self.path_statics.get(aid)
        if c is None:
            init = st.get('init')
            if init is None:
                raise Unsupported(f"static without initialiser {st['name']}")
            v = self.M.static_hook(self, st)
            if v is NotImplemented:
                v = self.decode(init['bytes'], 0, st['ty'], init['provenance']['ptrs'])
            c = Cell(v)
            self.path_statics[aid] = c
        return Ref(c)

    # ---- operands
    def operand(self, frame, op):
        pl = op.get('Move')
        if pl is not None:
            cell, path = self.resolve_place(frame, pl)
            return self.load_raw(cell, path)
        pl = op.get('Copy')
        if pl is not None:
            cell, path = self.resolve_place(frame, pl)
            v = self.load_raw(cell, path)
            if isinstance(v, (Adt, Tup, Arr)):
                return deep(v)
            return v
        if 'RuntimeChecks' in op:
            return False
        return self.const_val(op['Constant'])

    # ---- arithmetic
    def int_info(self, tid):
        k = self.p.kind(tid)
        if k[0] == 'int':
            return k[1], k[2]
        if k[0] == 'char':
            return 32, False
        if k[0] == 'bool':
            return 1, False
        if k[0] in ('ptr', 'ref', 'fnptr'):
            return 64, False
        raise Unsupported(f"int_info of {self.p.ty(tid)['str']}")

    def binop(self, op, a, b, tid_a, tid_b=None):
        ka = self.p.kind(tid_a)
        if ka[0] == 'bool':
            if isinstance(a, bool) and isinstance(b, bool):
                return {'Eq': a == b, 'Ne': a != b, 'BitAnd': a and b, 'BitOr': a or b, 'BitXor': a != b,
                        'Lt': (not a) and b, 'Le': (not a) or b, 'Gt': a and not b, 'Ge': a or not b}[op]
            a = to_boolref(a)
            b = to_boolref(b)
            if op == 'Eq':
                return a == b
            if op == 'Ne':
                return a != b
            if op == 'BitAnd':
                return z3.And(a, b)
            if op == 'BitOr':
                return z3.Or(a, b)
            if op == 'BitXor':
                return z3.Xor(a, b)
            raise Unsupported(f"bool binop {op}")
        if ka[0] in ('ptr', 'ref', 'fnptr') or isinstance(a, (Ref, Opaque)) or isinstance(b, (Ref, Opaque)):
            return self.M.ptr_binop(self, op, a, b)
        bits, signed = self.int_info(tid_a)
        if isinstance(a, int) and isinstance(b, int) and not isinstance(a, bool):
            if op == 'Eq':
                return a == b
            if op == 'Ne':
                return a != b
            if op == 'Lt':
                return a < b
            if op == 'Le':
                return a <= b
            if op == 'Gt':
                return a > b
            if op == 'Ge':
                return a >= b
            if op in ('Add', 'AddUnchecked'):
                return norm(a + b, bits, signed)
            if op in ('Sub', 'SubUnchecked'):
                return norm(a - b, bits, signed)
            if op in ('Mul', 'MulUnchecked'):
                return norm(a * b, bits, signed)
            if op == 'BitAnd':
                return norm(a & b, bits, signed)
            if op == 'BitOr':
                return norm(a | b, bits, signed)
            if op == 'BitXor':
                return norm(a ^ b, bits, signed)
            if op in ('Shl', 'ShlUnchecked'):
                return norm(a << (b % bits), bits, signed)
            if op in ('Shr', 'ShrUnchecked'):
                return norm(a >> (b % bits), bits, signed)
            if op == 'Div':
                if b == 0:
                    raise Panic('division by zero')
                q = abs(a) // abs(b)
                return norm(q if (a < 0) == (b < 0) else -q, bits, signed)
            if op == 'Rem':
                if b == 0:
                    raise Panic('remainder by zero')
                r = abs(a) % abs(b)
                return norm(r if a >= 0 else -r, bits, signed)
            if op == 'Cmp':
                return ('ordering', a < b, a == b)
            raise Unsupported(f"binop {op}")
        x = to_bv(a, bits)
        if op in ('Shl', 'ShlUnchecked', 'Shr', 'ShrUnchecked'):
            bb = self.int_info(tid_b)[0] if tid_b is not None else bits
            y = to_bv(b, bb)
            if bb < bits:
                y = z3.ZeroExt(bits - bb, y)
            elif bb > bits:
                y = z3.Extract(bits - 1, 0, y)
            y = y & z3.BitVecVal(bits - 1, bits)
            if op.startswith('Shl'):
                return x << y
            return (x >> y) if signed else z3.LShR(x, y)
        y = to_bv(b, bits)
        if op == 'Eq':
            return x == y
        if op == 'Ne':
            return x != y
        if op in ('Lt', 'Le', 'Gt', 'Ge'):
            if signed:
                return {'Lt': x < y, 'Le': x <= y, 'Gt': x > y, 'Ge': x >= y}[op]
            return {'Lt': z3.ULT(x, y), 'Le': z3.ULE(x, y), 'Gt': z3.UGT(x, y), 'Ge': z3.UGE(x, y)}[op]
        if op in ('Add', 'AddUnchecked'):
            return x + y
        if op in ('Sub', 'SubUnchecked'):
            return x - y
        if op in ('Mul', 'MulUnchecked'):
            return x * y
        if op == 'BitAnd':
            return x & y
        if op == 'BitOr':
            return x | y
        if op == 'BitXor':
            return x ^ y
        if op in ('Div', 'Rem'):
            if self.branch(y == 0, 'div0'):
                raise Panic('division by zero')
            if signed:
                if self.branch(z3.And(x == z3.BitVecVal(1 << (bits - 1), bits), y == z3.BitVecVal(-1, bits)), 'divovf'):
                    raise Panic('division overflow')
                return (x / y) if op == 'Div' else z3.SRem(x, y)
            return z3.UDiv(x, y) if op == 'Div' else z3.URem(x, y)
        if op == 'Cmp':
            lt = (x < y) if signed else z3.ULT(x, y)
            return ('ordering', lt, x == y)
        raise Unsupported(f"binop {op}")

    def checked(self, op, a, b, tid):
        bits, signed = self.int_info(tid)
        if isinstance(a, int) and isinstance(b, int):
            r = {'Add': a + b, 'Sub': a - b, 'Mul': a * b}[op]
            n = norm(r, bits, signed)
            return Tup([n, n != r])
        x = to_bv(a, bits)
        y = to_bv(b, bits)
        if op == 'Add':
            res = x + y
            ovf = z3.Not(z3.And(z3.BVAddNoOverflow(x, y, signed), z3.BVAddNoUnderflow(x, y))) if signed else z3.Not(z3.BVAddNoOverflow(x, y, False))
        elif op == 'Sub':
            res = x - y
            ovf = z3.Not(z3.And(z3.BVSubNoOverflow(x, y), z3.BVSubNoUnderflow(x, y, signed))) if signed else z3.Not(z3.BVSubNoUnderflow(x, y, False))
        elif op == 'Mul':
            res = x * y
            ovf = z3.Not(z3.And(z3.BVMulNoOverflow(x, y, signed), z3.BVMulNoUnderflow(x, y))) if signed else z3.Not(z3.BVMulNoOverflow(x, y, False))
        else:
            raise Unsupported(f"checked {op}")
        return Tup([res, ovf])

    def cast_int(self, v, src, dst):
        sb, ss = self.int_info(src)
        db, ds = self.int_info(dst)
        if isinstance(v, bool):
            return 1 if v else 0
        if isinstance(v, int):
            return norm(v, db, ds)
        if z3.is_bool(v):
            return z3.If(v, z3.BitVecVal(1, db), z3.BitVecVal(0, db))
        if db == sb:
            return v
        if db < sb:
            return z3.Extract(db - 1, 0, v)
        return z3.SignExt(db - sb, v) if ss else z3.ZeroExt(db - sb, v)

    def ordering(self, tid, lt, eq):
        if self.branch(lt, 'cmp<'):
            return Adt(tid, self.p.variant_index(tid, 'Less'), [])
        if self.branch(eq, 'cmp='):
            return Adt(tid, self.p.variant_index(tid, 'Equal'), [])
        return Adt(tid, self.p.variant_index(tid, 'Greater'), [])

    # ---- rvalues
    def rvalue(self, frame, rv, dest_ty):
        f = frame.fn
        u = rv.get('Use')
        if u is not None:
            return self.operand(frame, u[0] if isinstance(u, list) else u)
        x = rv.get('Ref')
        if x is not None:
            cell, path = self.resolve_place(frame, x[2])
            return self.mkref(cell, path)
        x = rv.get('AddressOf')
        if x is not None:
            cell, path = self.resolve_place(frame, x[1])
            return self.mkref(cell, path)
        x = rv.get('Discriminant')
        if x is not None:
            cell, path = self.resolve_place(frame, x)
            v = self.load_path(cell, path)
            if isinstance(v, Adt):
                d = int(self.p.ty(v.ty)['adt']['variants'][v.variant]['discr'])
                k = self.p.kind(dest_ty)
                return norm(d, k[1], k[2]) if k[0] == 'int' else d
            if v is None:
                # discriminant of an uninitialised local (artifact of std's optimised MIR; the result only feeds an
                # `assume`): an unconstrained value
                self.sym_counter += 1
                k = self.p.kind(dest_ty)
                return z3.BitVec(f"undef!{self.sym_counter}", k[1] if k[0] == 'int' else 64)
            r = self.M.discriminant_of(self, v, dest_ty)
            if r is NotImplemented:
                raise Unsupported(f"discriminant of {v!r}"[:200])
            return r
        x = rv.get('Aggregate')
        if x is not None:
            kind, ops = x
            vals = [self.operand(frame, o) for o in ops]
            if kind == 'Tuple':
                return Tup(vals)
            if isinstance(kind, dict):
                if 'Adt' in kind:
                    a = kind['Adt']
                    # union: a[4] = active field
                    return Adt(dest_ty, a[1], vals)
                if 'Array' in kind:
                    return Arr([Cell(v) for v in vals])
                if 'Closure' in kind:
                    return ClosureV(dest_ty, vals)
                if 'RawPtr' in kind:
                    return self.M.raw_ptr_aggregate(self, vals, dest_ty)
            raise Unsupported(f"aggregate {kind}")
        x = rv.get('BinaryOp')
        if x is not None:
            op, a, b = x
            ta = self.operand_ty(f, a)
            va = self.operand(frame, a)
            vb = self.operand(frame, b)
            tb = self.operand_ty(f, b) if op.startswith('Sh') else None
            if op == 'Offset':
                return self.M.ptr_offset(self, va, vb, ta)
            r = self.binop(op, va, vb, ta, tb)
            if isinstance(r, tuple):
                return self.ordering(dest_ty, r[1], r[2])
            return r
        x = rv.get('CheckedBinaryOp')
        if x is not None:
            op, a, b = x
            return self.checked(op, self.operand(frame, a), self.operand(frame, b), self.operand_ty(f, a))
        x = rv.get('UnaryOp')
        if x is not None:
            op, a = x
            v = self.operand(frame, a)
            if op == 'Not':
                if isinstance(v, bool):
                    return not v
                if isinstance(v, int):
                    bits, signed = self.int_info(self.operand_ty(f, a))
                    return norm(~v, bits, signed)
                return z3.Not(v) if z3.is_bool(v) else ~v
            if op == 'Neg':
                if isinstance(v, int):
                    bits, signed = self.int_info(self.operand_ty(f, a))
                    return norm(-v, bits, signed)
                return -v
            if op == 'PtrMetadata':
                return self.M.ptr_metadata(self, v)
            raise Unsupported(f"unop {op}")
        x = rv.get('Cast')
        if x is not None:
            kind, a, tid = x
            v = self.operand(frame, a)
            if kind == 'IntToInt':
                return self.cast_int(v, self.operand_ty(f, a), tid)
            return self.M.cast(self, kind, v, self.operand_ty(f, a), tid)
        x = rv.get('CopyForDeref')
        if x is not None:
            cell, path = self.resolve_place(frame, x)
            return self.load_raw(cell, path)
        x = rv.get('Len')
        if x is not None:
            cell, path = self.resolve_place(frame, x)
            v = self.load_path(cell, path)
            return len(v.cells)
        x = rv.get('Repeat')
        if x is not None:
            v = self.operand(frame, x[0])
            k = self.p.kind(dest_ty)
            return Arr([Cell(deep(v)) for _ in range(k[2])])
        x = rv.get('NullaryOp')
        if x is not None:
            return self.M.nullary(self, x, dest_ty)
        x = rv.get('ShallowInitBox')
        if x is not None:
            return self.M.shallow_init_box(self, self.operand(frame, x[0]), x[1])
        if 'ThreadLocalRef' in rv:
            # #[thread_local] static (thread_local! with a const initialiser): one thread is modelled, so it is a plain static
            key = json.dumps(rv['ThreadLocalRef'], separators=(',', ':'))
            st = self.p.tls.get(key)
            if st is None:
                raise Unsupported(f"thread-local static {key} not in the dump")
            return self.static_ref(('tls', key), st)
        raise Unsupported(f"rvalue {list(rv.keys())}")

    def mkref(self, cell, path):
        # a reference to the *whole* of a str/slice view stays that view
        if not path:
            v = cell.v
            if isinstance(v, (StrRef, SliceRef)):
                return v
        else:
            try:
                v = self.load_raw(cell, path)
            except Panic:
                raise
            if isinstance(v, (StrRef, SliceRef)):
                return v
        return Ref(cell, path)

    # ---- calls
    def call(self, mangled, args):
        f = self.p.inst[mangled]
        name = f['name']
        m = self.model_cache.get(name)
        if m is None:
            m = self.M.lookup(name, f) or False
            self.model_cache[name] = m
        if m:
            self.models_used.add(m.__name__ + ':' + name.split('<')[0][:60] if False else m.__name__)
            r = m(self, name, args, f)
            if r is not NotImplemented or 'body' not in f:
                return r
            # the model declined (outside its domain): run the real body
        if 'body' not in f:
            # tuple-variant / tuple-struct constructors used as functions
            rt = f.get('abi_ret')
            if rt is not None and self.p.kind(rt)[0] == 'adt':
                last = name.rsplit('::', 1)[-1]
                adt = self.p.ty(rt)['adt']
                for vi, var in enumerate(adt['variants']):
                    if var['name'].rsplit('::', 1)[-1] == last and len(var['fields']) == len(args):
                        return Adt(rt, vi, list(args))
            self.unmodelled[name] = self.unmodelled.get(name, 0) + 1
            raise Unsupported(f"no body and no model: {name}")
        if f.get('spread_arg') is not None:
            # rust-call ABI with a spread argument: last argument is a tuple that is spread
            n = f['arg_count']
            if len(args) != n and len(args) == 2 and isinstance(args[1], Tup):
                args = [args[0]] + list(args[1].fields)
        elif is_closure_body(name) and len(args) == 2 and isinstance(args[1], Tup) and f['arg_count'] == 1 + len(args[1].fields):
            # closure bodies are reached from MIR only through the Fn* traits (rust-call ABI: (self, (args..)))
            args = [args[0]] + list(args[1].fields)
        return self.run_body(f, args)

    def call_value(self, fv, args):
        """call a closure / fn item / fn pointer value with a list of arguments"""
        c = fv
        while isinstance(c, Ref):
            c = self.load_path(c.cell, c.path)
        if isinstance(c, BoxV):
            c = self.force_cell(c.cell)
        if isinstance(c, FnDefV):
            t = self.p.ty(c.ty)
            if 'fn_inst' not in t:
                raise Unsupported(f"unresolved fn item {t['str']}")
            return self.call(t['fn_inst'], list(args))
        if isinstance(c, FnPtrV):
            fi = self.p.inst.get(c.inst)
            if fi is not None and 'body' in fi and fi['arg_count'] == len(args) + 1 and self.p.kind(fi['locals'][1])[0] == 'closure':
                # a capture-less closure coerced to a fn pointer: the pointer is the FnOnce::call_once shim, whose first
                # argument is the (zero-sized) closure value itself
                return self.call(c.inst, [self.zst(fi['locals'][1])] + list(args))
            return self.call(c.inst, list(args))
        if isinstance(c, ClosureV):
            t = self.p.ty(c.ty)
            for kn in ('closure_Fn', 'closure_FnMut', 'closure_FnOnce'):
                m = t.get(kn)
                if m and 'body' in self.p.inst[m] and 'Shim' not in self.p.inst[m]['kind']:
                    break
            else:
                m = t.get('closure_Fn') or t.get('closure_FnMut') or t.get('closure_FnOnce')
            f = self.p.inst[m]
            selfk = self.p.kind(f['locals'][1])
            selfarg = Ref(Cell(c)) if selfk[0] == 'ref' else c
            if isinstance(fv, Ref) and selfk[0] == 'ref':
                selfarg = fv
                # &&closure
                while True:
                    inner = self.load_path(selfarg.cell, selfarg.path)
                    if isinstance(inner, Ref):
                        selfarg = inner
                    else:
                        break
            return self.run_body(f, [selfarg] + list(args))
        r = self.M.call_value_hook(self, c, args)
        if r is not NotImplemented:
            return r
        raise Unsupported(f"call of {c!r}"[:200])

    def run_body(self, f, args):
        body = f['body']
        nloc = len(f['locals'])
        frame = Frame(f, [Cell() for _ in range(nloc)])
        # locals of a function-item type are zero-sized and may be borrowed without ever being assigned
        zl = f.get('_fndef_locals')
        if zl is None:
            zl = [(i, t) for i, t in enumerate(f['locals']) if i > f['arg_count'] and self.p.kind(t)[0] == 'fndef']
            f['_fndef_locals'] = zl
        for i, t in zl:
            frame.locals[i].v = FnDefV(t)
        if len(args) != f['arg_count']:
            raise Unsupported(f"arity {f['name']}: got {len(args)} want {f['arg_count']}")
        for i, a in enumerate(args):
            frame.locals[i + 1].v = a
        self.call_depth += 1
        if self.call_depth > self.max_call_depth:
            self.call_depth -= 1
            raise Truncated(f"call depth > {self.max_call_depth} in {f['name']}")
        self.encoded.add(f['name'])
        self.stack.append(f['name'])
        try:
            return self._run(frame, f, body)
        except Unsupported as e:
            if not getattr(e, 'located', False):
                e.located = True
                e.args = (f"{e.args[0]} [in {' <- '.join((x if len(x) <= 90 else x[:60] + '..' + x[-28:]) for x in self.stack[-1:-6:-1])}]",)
            raise
        except (IndexError, KeyError, AttributeError, TypeError, AssertionError, z3.Z3Exception) as e:
            import traceback
            tb = traceback.extract_tb(e.__traceback__)[-1]
            u = Unsupported(f"internal {type(e).__name__}: {e} at {tb.filename.rsplit('/', 1)[-1]}:{tb.lineno} [in {' <- '.join((x if len(x) <= 90 else x[:60] + '..' + x[-28:]) for x in self.stack[-1:-6:-1])}]")
            u.located = True
            raise u
        finally:
            self.stack.pop()
            self.call_depth -= 1

    def _run(self, frame, f, body):
        blocks = body['blocks']
        bb = 0
        flocals = f['locals']
        cov = COV.setdefault(f['name'], set()) if (COV is not None and 'block_lines' in f) else None
        while True:
            blk = blocks[bb]
            if cov is not None:
                cov.add(bb)
            for st in blk['statements']:
                k = st['kind']
                if isinstance(k, dict):
                    a = k.get('Assign')
                    if a is not None:
                        place, rv = a
                        dty = flocals[place['local']] if not place['projection'] else self.place_ty(f, place)
                        v = self.rvalue(frame, rv, dty)
                        if place['projection']:
                            cell, path = self.resolve_place(frame, place)
                            self.store_path(cell, path, v)
                        else:
                            frame.locals[place['local']].v = v
                    elif 'SetDiscriminant' in k:
                        sd = k['SetDiscriminant']
                        cell, path = self.resolve_place(frame, sd['place'])
                        v = self.load_path(cell, path)
                        if isinstance(v, Adt):
                            v.variant = sd['variant_index']
                        else:
                            raise Unsupported('SetDiscriminant on non-ADT')
                    elif 'Intrinsic' in k:
                        self.M.stmt_intrinsic(self, frame, k['Intrinsic'])
                    elif 'StorageLive' in k:
                        # a fresh cell: references to the old incarnation stay valid (they cannot be used legally anyway)
                        frame.locals[k['StorageLive']] = Cell()
            self.steps += 1
            self.path_steps += 1
            if self.path_steps > self.max_path_steps:
                raise Truncated(f"step budget {self.max_path_steps} exhausted in {f['name']}")
            t = blk['terminator']['kind']
            if isinstance(t, str):
                if t == 'Return':
                    return frame.locals[0].v
                if t == 'Unreachable':
                    raise Panic('reached Unreachable terminator', f['name'])
                if t in ('Resume', 'Abort'):
                    raise Panic(t, f['name'])
                raise Unsupported(f"terminator {t}")
            g = t.get('Goto')
            if g is not None:
                bb = g['target']
                continue
            sw = t.get('SwitchInt')
            if sw is not None:
                d = self.operand(frame, sw['discr'])
                tg = sw['targets']
                nxt = None
                if isinstance(d, bool):
                    d = 1 if d else 0
                if isinstance(d, int):
                    dty = self.operand_ty(f, sw['discr']) if 'RuntimeChecks' not in sw['discr'] else None
                    kk = self.p.kind(dty) if dty is not None else ('bool',)
                    du = d & ((1 << kk[1]) - 1) if kk[0] == 'int' else d
                    for val, target in tg['branches']:
                        if val == du:
                            nxt = target
                            break
                else:
                    lab = None
                    for val, target in tg['branches']:
                        if z3.is_bool(d):
                            cond = d if val != 0 else z3.Not(d)
                        else:
                            cond = (d == z3.BitVecVal(val, d.size()))
                        if lab is None:
                            lab = f"sw@{f['name'].rsplit('::', 1)[-1]}:{bb}"
                        if self.branch(cond, lab):
                            nxt = target
                            break
                bb = tg['otherwise'] if nxt is None else nxt
                continue
            c = t.get('Call')
            if c is not None:
                args2 = [self.operand(frame, a) for a in c['args']]
                ce = f['callees'].get(str(bb))
                if ce is None or 'inst' not in ce:
                    fv = self.operand(frame, c['func'])
                    r = self.call_value(fv, args2)
                else:
                    r = self.call(ce['inst'], args2)
                cell, path = self.resolve_place(frame, c['destination'])
                self.store_path(cell, path, r)
                if c['target'] is None:
                    raise Panic('diverging call returned', f['name'])
                bb = c['target']
                continue
            d = t.get('Drop')
            if d is not None:
                self.M.drop_hook(self, frame, d)
                bb = d['target']
                continue
            a = t.get('Assert')
            if a is not None:
                cond = self.operand(frame, a['cond'])
                if isinstance(cond, bool):
                    ok = (cond == a['expected'])
                else:
                    ok = self.branch(cond if a['expected'] else z3.Not(cond), 'assert')
                if not ok:
                    raise Panic("assert failed: " + assert_msg(a['msg']), f['name'])
                bb = a['target']
                continue
            raise Unsupported(f"terminator {list(t.keys())}")

    # ---- exploration
    def explore(self, run_one, max_paths=1000000, time_budget=None):
        results = []
        self.pending = [[]]
        t0 = time.time()
        self.truncated_exploration = False
        while self.pending:
            if len(results) >= max_paths or (time_budget and time.time() - t0 > time_budget):
                self.truncated_exploration = True
                break
            self.trace = self.pending.pop()
            self.pos = 0
            self.pc = []
            self.log = []
            self.path_steps = 0
            self.call_depth = 0
            self.io_trace = []
            self.ghost = {}
            self.path_statics = {}
            self.stack = []
            self.solver.push()
            try:
                try:
                    r = run_one(self)
                    results.append(PathResult('ok', r, self))
                except PathEnd:
                    pass
                except Panic as e:
                    results.append(PathResult('panic', (e.msg, e.where), self))
                except Truncated as e:
                    results.append(PathResult('truncated', str(e), self))
                except Unsupported as e:
                    results.append(PathResult('unsupported', str(e), self))
                except RecursionError:
                    results.append(PathResult('truncated', 'python recursion limit', self))
            finally:
                self.solver.pop()
        return results


def is_closure_body(name):
    last = name.rsplit('::', 1)[-1]
    return last.startswith('{closure#') or last.startswith('{closure@')


class PathResult:
    __slots__ = ('kind', 'value', 'pc', 'log', 'io', 'ghost', 'steps')

    def __init__(self, kind, value, ex):
        self.kind = kind
        self.value = value
        self.pc = list(ex.pc)
        self.log = list(ex.log)
        self.io = list(ex.io_trace)
        self.ghost = dict(ex.ghost)
        self.steps = ex.path_steps


class Frame:
    __slots__ = ('fn', 'locals')

    def __init__(self, fn, locals_):
        self.fn = fn
        self.locals = locals_


def assert_msg(m):
    if isinstance(m, str):
        return m
    if isinstance(m, dict):
        k = list(m.keys())[0]
        v = m[k]
        if k in ('Overflow',):
            return f"arithmetic overflow ({v[0]})"
        return k
    return str(m)[:80]
