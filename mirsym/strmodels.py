"""str / String / char models.  Strings are lists of chars (python ints or z3 BV32 terms constrained by the
harness to ASCII); byte offsets = sum of UTF-8 widths of concrete chars, 1 per symbolic char."""
import re, z3
from .core import *
from .models import (model, as_str, ret_ty, some, none, UNIT, str_eq, bool_and, bool_or, bool_not, val_eq, IterV, get_iter,
                     utf8len, str_bytelen, ITER_PAT, drain, as_cells)
from . import models

# Chars behaves like a by-value cursor
models.ITER_PAT = ITER_PAT


def cz(ch):
    return ch if isinstance(ch, int) else None


# --------------------------------------------------------------------------- char predicates
def in_range(c, lo, hi):
    if isinstance(c, int):
        return lo <= c <= hi
    return z3.And(z3.UGE(c, lo), z3.ULE(c, hi))


def char_pred(name, c):
    """predicate value (python bool or z3 Bool).  Symbolic chars are ASCII (harness precondition)."""
    if isinstance(c, int):
        ch = chr(c)
        return {
            'is_uppercase': ch.isupper() if c > 127 else 'A' <= ch <= 'Z',
            'is_lowercase': ch.islower() if c > 127 else 'a' <= ch <= 'z',
            'is_alphabetic': ch.isalpha(),
            'is_numeric': ch.isnumeric() if c > 127 else ch.isdigit(),
            'is_alphanumeric': ch.isalnum(),
            'is_whitespace': ch.isspace() and c not in (0x1c, 0x1d, 0x1e, 0x1f),
            'is_control': c < 32 or 127 <= c < 160,
            'is_ascii': c < 128,
            'is_ascii_uppercase': 'A' <= ch <= 'Z',
            'is_ascii_lowercase': 'a' <= ch <= 'z',
            'is_ascii_alphabetic': ch.isalpha() and c < 128,
            'is_ascii_digit': '0' <= ch <= '9',
            'is_ascii_alphanumeric': ch.isalnum() and c < 128,
            'is_ascii_whitespace': ch in ' \t\n\x0c\r',
            'is_ascii_punctuation': c < 128 and not ch.isalnum() and 32 < c < 127,
            'is_ascii_hexdigit': ch in '0123456789abcdefABCDEF',
            'is_ascii_graphic': 32 < c < 127,
            'is_ascii_control': c < 32 or c == 127,
        }[name]
    up = in_range(c, 65, 90)
    lo = in_range(c, 97, 122)
    dg = in_range(c, 48, 57)
    return {
        'is_uppercase': up, 'is_lowercase': lo, 'is_alphabetic': z3.Or(up, lo), 'is_numeric': dg,
        'is_alphanumeric': z3.Or(up, lo, dg), 'is_ascii_uppercase': up, 'is_ascii_lowercase': lo,
        'is_ascii_alphabetic': z3.Or(up, lo), 'is_ascii_digit': dg, 'is_ascii_alphanumeric': z3.Or(up, lo, dg),
        'is_whitespace': z3.Or(c == 32, in_range(c, 9, 13)), 'is_ascii_whitespace': z3.Or(c == 32, c == 9, c == 10, c == 12, c == 13),
        'is_ascii': z3.ULT(c, 128), 'is_control': z3.Or(z3.ULT(c, 32), c == 127),
        'is_ascii_hexdigit': z3.Or(dg, in_range(c, 65, 70), in_range(c, 97, 102)),
        'is_ascii_punctuation': z3.And(z3.UGT(c, 32), z3.ULT(c, 127), z3.Not(z3.Or(up, lo, dg))),
        'is_ascii_graphic': z3.And(z3.UGT(c, 32), z3.ULT(c, 127)), 'is_ascii_control': z3.Or(z3.ULT(c, 32), c == 127),
    }[name]


@model(r'^(std|core)::char::methods::<impl char>::(is_\w+)$')
def m_char_pred(ex, n, a, f):
    name = n.rsplit('::', 1)[1]
    c = ex.deref(a[0]) if isinstance(a[0], Ref) else a[0]
    if name == 'is_digit':
        radix = a[1]
        if isinstance(c, int) and isinstance(radix, int):
            try:
                int(chr(c), radix)
                return chr(c).isalnum() and c < 128
            except ValueError:
                return False
        if radix == 10:
            return char_pred('is_ascii_digit', c)
        raise Unsupported("is_digit symbolic radix")
    return char_pred(name, c)


def ascii_upper(c):
    if isinstance(c, int):
        return c - 32 if 97 <= c <= 122 else c
    return z3.If(in_range(c, 97, 122), c - 32, c)


def ascii_lower(c):
    if isinstance(c, int):
        return c + 32 if 65 <= c <= 90 else c
    return z3.If(in_range(c, 65, 90), c + 32, c)


@model(r'^(std|core)::char::methods::<impl char>::to_ascii_(upper|lower)case$')
def m_char_to_ascii_case(ex, n, a, f):
    c = ex.deref(a[0]) if isinstance(a[0], Ref) else a[0]
    return ascii_upper(c) if n.endswith('uppercase') else ascii_lower(c)


@model(r'^(std|core)::char::methods::<impl char>::eq_ignore_ascii_case$')
def m_char_eq_ignore_case(ex, n, a, f):
    return val_eq(ascii_lower(ex.deref(a[0])), ascii_lower(ex.deref(a[1])))


@model(r'^(std|core)::char::methods::<impl char>::to_(upper|lower)case$')
def m_char_to_case(ex, n, a, f):
    c = a[0]
    up = n.endswith('uppercase')
    if isinstance(c, int):
        s = chr(c).upper() if up else chr(c).lower()
        return IterV([Cell(ord(x)) for x in s], by_value=True)
    return IterV([Cell(ascii_upper(c) if up else ascii_lower(c))], by_value=True)


@model(r'^(std|core)::char::methods::<impl char>::len_utf8$')
def m_char_len_utf8(ex, n, a, f):
    return utf8len(a[0])


@model(r'^(std|core)::char::methods::<impl char>::to_digit$')
def m_char_to_digit(ex, n, a, f):
    c, radix = a
    rt = ret_ty(f)
    if isinstance(c, int) and isinstance(radix, int):
        try:
            if not (chr(c).isalnum() and c < 128):
                raise ValueError
            return some(ex, rt, int(chr(c), radix))
        except ValueError:
            return none(ex, rt)
    if isinstance(radix, int) and 2 <= radix <= 36:
        # symbolic character: fork on the digit classes of the radix
        cb = to_bv(c, 32)
        nd = min(radix, 10)
        if ex.branch(z3.And(z3.UGE(cb, 48), z3.ULE(cb, 48 + nd - 1)), 'to_digit-dec'):
            return some(ex, rt, cb - 48)
        if radix > 10:
            if ex.branch(z3.And(z3.UGE(cb, 97), z3.ULE(cb, 97 + radix - 11)), 'to_digit-lower'):
                return some(ex, rt, cb - 87)
            if ex.branch(z3.And(z3.UGE(cb, 65), z3.ULE(cb, 65 + radix - 11)), 'to_digit-upper'):
                return some(ex, rt, cb - 55)
        return none(ex, rt)
    raise Unsupported("to_digit symbolic")


@model(r'^(std|core)::char::methods::<impl char>::escape_unicode$')
def m_char_escape_unicode(ex, n, a, f):
    c = a[0]
    if not isinstance(c, int):
        return IterV([Cell(Frag('escape_unicode', c))], by_value=True)
    return IterV([Cell(ord(x)) for x in '\\u{%x}' % c], by_value=True)


@model(r'^(std|core)::char::methods::<impl char>::(escape_debug|escape_default)$')
def m_char_escape_debug(ex, n, a, f):
    from .tokens import escape_debug_char
    c = a[0]
    if not isinstance(c, int):
        raise Unsupported("escape_debug of a symbolic char")
    return IterV([Cell(ord(x)) for x in escape_debug_char(c)], by_value=True)


@model(r'^<(std|core)::char::(EscapeUnicode|EscapeDebug|EscapeDefault|ToUppercase|ToLowercase) as std::fmt::Display>::fmt$')
def m_char_iter_display(ex, n, a, f):
    it = ex.deref(a[0])
    fm = ex.deref(a[1])
    fm.out.extend(c.v for c in it.cells[it.pos:it.end])
    return Adt(ret_ty(f), ex.p.variant_index(ret_ty(f), 'Ok'), [UNIT])


@model(r'^(std|core)::char::convert::from_u32$', r'^(std|core)::char::methods::<impl char>::from_u32$')
def m_char_from_u32(ex, n, a, f):
    v = a[0]
    rt = ret_ty(f)
    if isinstance(v, int):
        ok = v < 0xD800 or 0xDFFF < v <= 0x10FFFF
        return some(ex, rt, v) if ok else none(ex, rt)
    ok = z3.Or(z3.ULT(v, 0xD800), z3.And(z3.UGT(v, 0xDFFF), z3.ULE(v, 0x10FFFF)))
    return some(ex, rt, v) if ex.branch(ok, 'char::from_u32') else none(ex, rt)


@model(r'^<char as std::convert::TryFrom<u32>>::try_from$', r'^core::char::convert::<impl std::convert::TryFrom<u32> for char>::try_from$')
def m_char_try_from_u32(ex, n, a, f):
    v = a[0]
    rt = ret_ty(f)
    if isinstance(v, int):
        ok = v < 0xD800 or 0xDFFF < v <= 0x10FFFF
    else:
        ok = ex.branch(z3.Or(z3.ULT(v, 0xD800), z3.And(z3.UGT(v, 0xDFFF), z3.ULE(v, 0x10FFFF))), 'char::try_from')
    if ok:
        return Adt(rt, ex.p.variant_index(rt, 'Ok'), [v])
    return Adt(rt, ex.p.variant_index(rt, 'Err'), [Opaque('CharTryFromError')])


# --------------------------------------------------------------------------- patterns
def pattern_kind(ex, f, idx=-1):
    ts = [t for t in f.get('targs', []) if t is not None]
    if not ts:
        return None, None
    tid = ts[idx]
    return ex.p.kind(tid), tid


def match_at(ex, chars, i, pat, pk):
    """(cond, length) of pattern `pat` matching at char index i; cond python bool or z3"""
    k = pk[0] if pk else None
    if k == 'char' or isinstance(pat, int) or (is_sym(pat) and not z3.is_bool(pat)):
        if i >= len(chars):
            return False, 0
        return val_eq(chars[i], pat), 1
    if isinstance(pat, (StrRef, StringV)):
        pc = pat.chars
        if i + len(pc) > len(chars):
            return False, 0
        r = True
        for j, c in enumerate(pc):
            r = bool_and(r, val_eq(chars[i + j], c))
            if r is False:
                return False, 0
        return r, len(pc)
    if isinstance(pat, (SliceRef, Arr)):
        if i >= len(chars):
            return False, 0
        r = False
        for c in pat.cells:
            r = bool_or(r, val_eq(chars[i], c.v))
        return r, 1
    if isinstance(pat, (ClosureV, FnDefV, FnPtrV)):
        if i >= len(chars):
            return False, 0
        return ex.call_value(pat, [chars[i]]), 1
    if isinstance(pat, Ref):
        return match_at(ex, chars, i, ex.deref(pat), pk)
    raise Unsupported(f"pattern {pat!r}"[:100])


def norm_pat(ex, pat):
    while isinstance(pat, Ref):
        inner = ex.load_path(pat.cell, pat.path)
        if isinstance(inner, (ClosureV,)):
            return pat
        pat = inner
    return pat


def find_first(ex, chars, pat, pk, start=0, label='str-find'):
    """index (char position) of the first match at or after start, or None; forks on symbolic matches"""
    pat = norm_pat(ex, pat)
    empty = isinstance(pat, (StrRef, StringV)) and len(pat.chars) == 0
    if empty:
        return start, 0
    for i in range(start, len(chars)):
        cond, ln = match_at(ex, chars, i, pat, pk)
        if ex.branch(cond, label):
            return i, ln
    return None, 0


def byte_off(chars, idx):
    return str_bytelen(chars[:idx])


def char_index_of_byte(ex, chars, b, what='str index'):
    """char index for a byte offset (must fall on a char boundary)"""
    if not isinstance(b, int):
        b = ex.concretize(b, range(str_bytelen(chars) + 2), what)
    o = 0
    for i, c in enumerate(chars):
        if o == b:
            return i
        if o > b:
            break
        o += utf8len(c)
    if o == b:
        return len(chars)
    raise Panic(f"{what}: byte index {b} is out of bounds or not a char boundary")


@model(r'^(std|core|alloc)::str::<impl str>::replace::<')
def m_str_replace(ex, n, a, f):
    chars = list(as_str(ex, a[0]))
    pk, _ = pattern_kind(ex, f)
    to = as_str(ex, a[2])
    out = []
    i = 0
    pat = norm_pat(ex, a[1])
    while i < len(chars):
        cond, ln = match_at(ex, chars, i, pat, pk)
        if ln and ex.branch(cond, 'replace'):
            out.extend(to)
            i += ln
        else:
            out.append(chars[i])
            i += 1
    return StringV(out)


@model(r'^(std|core)::str::<impl str>::contains::<')
def m_str_contains(ex, n, a, f):
    chars = as_str(ex, a[0])
    pk, _ = pattern_kind(ex, f)
    i, _ = find_first(ex, chars, a[1], pk, 0, 'contains')
    return i is not None


@model(r'^(std|core)::str::<impl str>::starts_with::<')
def m_str_starts_with(ex, n, a, f):
    chars = as_str(ex, a[0])
    pk, _ = pattern_kind(ex, f)
    pat = norm_pat(ex, a[1])
    if isinstance(pat, (StrRef, StringV)) and not pat.chars:
        return True
    cond, ln = match_at(ex, chars, 0, pat, pk)
    return cond


@model(r'^(std|core)::str::<impl str>::ends_with::<')
def m_str_ends_with(ex, n, a, f):
    chars = as_str(ex, a[0])
    pk, _ = pattern_kind(ex, f)
    pat = norm_pat(ex, a[1])
    if isinstance(pat, (StrRef, StringV)):
        k = len(pat.chars)
        if k == 0:
            return True
        if k > len(chars):
            return False
        cond, _ = match_at(ex, chars, len(chars) - k, pat, pk)
        return cond
    if not chars:
        return False
    cond, _ = match_at(ex, chars, len(chars) - 1, pat, pk)
    return cond


@model(r'^(std|core)::str::<impl str>::(find|rfind)::<')
def m_str_find(ex, n, a, f):
    chars = as_str(ex, a[0])
    pk, _ = pattern_kind(ex, f)
    rt = ret_ty(f)
    if '::rfind::<' in n:
        pat = norm_pat(ex, a[1])
        for i in range(len(chars) - 1, -1, -1):
            cond, ln = match_at(ex, chars, i, pat, pk)
            if ex.branch(cond, 'rfind'):
                return some(ex, rt, byte_off(chars, i))
        return none(ex, rt)
    i, _ = find_first(ex, chars, a[1], pk, 0, 'find')
    return none(ex, rt) if i is None else some(ex, rt, byte_off(chars, i))


@model(r'^(std|core)::str::<impl str>::strip_(prefix|suffix)::<')
def m_str_strip(ex, n, a, f):
    chars = as_str(ex, a[0])
    pk, _ = pattern_kind(ex, f)
    rt = ret_ty(f)
    pat = norm_pat(ex, a[1])
    if 'strip_prefix' in n:
        cond, ln = match_at(ex, chars, 0, pat, pk) if not (isinstance(pat, (StrRef, StringV)) and not pat.chars) else (True, 0)
        if ex.branch(cond, 'strip_prefix'):
            return some(ex, rt, StrRef(chars[ln:]))
        return none(ex, rt)
    k = len(pat.chars) if isinstance(pat, (StrRef, StringV)) else 1
    if k > len(chars):
        return none(ex, rt)
    cond, ln = match_at(ex, chars, len(chars) - k, pat, pk) if k else (True, 0)
    if ex.branch(cond, 'strip_suffix'):
        return some(ex, rt, StrRef(chars[:len(chars) - k]))
    return none(ex, rt)


@model(r'^(std|core)::str::<impl str>::trim_(start|end)_matches::<', r'^(std|core)::str::<impl str>::trim_matches::<')
def m_str_trim_matches(ex, n, a, f):
    chars = list(as_str(ex, a[0]))
    pk, _ = pattern_kind(ex, f)
    pat = norm_pat(ex, a[1])
    if isinstance(pat, (StrRef, StringV)) and len(pat.chars) != 1:
        # a multi-character string pattern is removed repeatedly as a whole
        k = len(pat.chars)
        if k == 0:
            return StrRef(chars)
        if 'trim_matches' in n and 'start' not in n and 'end' not in n:
            raise Unsupported("trim_matches with a multi-char str pattern")
        if 'trim_end_matches' in n:
            while len(chars) >= k:
                cond, _ = match_at(ex, chars, len(chars) - k, pat, pk)
                if ex.branch(cond, 'trim_end_str'):
                    del chars[len(chars) - k:]
                else:
                    break
        else:
            while len(chars) >= k:
                cond, _ = match_at(ex, chars, 0, pat, pk)
                if ex.branch(cond, 'trim_start_str'):
                    del chars[:k]
                else:
                    break
        return StrRef(chars)
    if 'trim_end_matches' in n or 'trim_matches' in n:
        while chars:
            cond, _ = match_at(ex, chars, len(chars) - 1, pat, pk)
            if ex.branch(cond, 'trim_end'):
                chars.pop()
            else:
                break
    if 'trim_start_matches' in n or 'trim_matches' in n:
        while chars:
            cond, _ = match_at(ex, chars, 0, pat, pk)
            if ex.branch(cond, 'trim_start'):
                chars.pop(0)
            else:
                break
    return StrRef(chars)


@model(r'^(std|core)::str::<impl str>::(trim|trim_start|trim_end)$')
def m_str_trim(ex, n, a, f):
    chars = list(as_str(ex, a[0]))
    which = n.rsplit('::', 1)[1]
    if which in ('trim', 'trim_end'):
        while chars and ex.branch(char_pred('is_whitespace', chars[-1]), 'trim'):
            chars.pop()
    if which in ('trim', 'trim_start'):
        while chars and ex.branch(char_pred('is_whitespace', chars[0]), 'trim'):
            chars.pop(0)
    return StrRef(chars)


@model(r'^(std|core|alloc)::str::<impl str>::to_(upper|lower)case$', r'^(std|core|alloc)::str::<impl str>::to_ascii_(upper|lower)case$')
def m_str_to_case(ex, n, a, f):
    chars = as_str(ex, a[0])
    up = n.endswith('uppercase')
    out = []
    for c in chars:
        if isinstance(c, int):
            if '_ascii_' in n:
                out.append(ascii_upper(c) if up else ascii_lower(c))
            else:
                out.extend(ord(x) for x in (chr(c).upper() if up else chr(c).lower()))
        elif isinstance(c, Frag):
            raise Unsupported("case conversion of opaque fragment")
        else:
            out.append(ascii_upper(c) if up else ascii_lower(c))
    return StringV(out)


@model(r'^(std|core)::str::<impl str>::chars$')
def m_str_chars(ex, n, a, f):
    return IterV([Cell(c) for c in as_str(ex, a[0])], by_value=True)


@model(r'^(std|core)::str::<impl str>::char_indices$')
def m_str_char_indices(ex, n, a, f):
    chars = as_str(ex, a[0])
    cells = []
    o = 0
    for c in chars:
        cells.append(Cell(Tup([o, c])))
        o += utf8len(c)
    return IterV(cells, by_value=True)


@model(r'^(std|core)::str::<impl str>::(bytes|as_bytes)$', r'^std::string::String::(as_bytes|into_bytes)$')
def m_str_bytes(ex, n, a, f):
    chars = as_str(ex, a[0])
    out = []
    for c in chars:
        if isinstance(c, int):
            out.extend(chr(c).encode('utf-8'))
        elif isinstance(c, Frag):
            out.append(c)     # an opaque text fragment stays one opaque item of the byte sequence
        else:
            out.append(z3.Extract(7, 0, c))
    cells = [Cell(b) for b in out]
    if n.endswith('::bytes'):
        return IterV(cells, by_value=True)
    if n.endswith('into_bytes'):
        return VecV(cells)
    return SliceRef(cells)


@model(r'^(std|core)::str::<impl str>::lines$')
def m_str_lines(ex, n, a, f):
    chars = as_str(ex, a[0])
    lines = []
    cur = []
    for c in chars:
        if not isinstance(c, int):
            if ex.branch(val_eq(c, 10), 'lines'):
                lines.append(cur)
                cur = []
                continue
            cur.append(c)
            continue
        if c == 10:
            if cur and cur[-1] == 13:
                cur.pop()
            lines.append(cur)
            cur = []
        else:
            cur.append(c)
    if cur:
        lines.append(cur)
    return IterV([Cell(StrRef(l)) for l in lines], by_value=True)


@model(r'^(std|core)::str::<impl str>::(split|rsplit|split_terminator)::<')
def m_str_split(ex, n, a, f):
    chars = as_str(ex, a[0])
    pk, _ = pattern_kind(ex, f)
    pat = norm_pat(ex, a[1])
    parts = []
    cur = []
    i = 0
    while i < len(chars):
        cond, ln = match_at(ex, chars, i, pat, pk)
        if ln and ex.branch(cond, 'split'):
            parts.append(cur)
            cur = []
            i += ln
        else:
            cur.append(chars[i])
            i += 1
    if not ('split_terminator' in n and not cur):
        parts.append(cur)
    if '::rsplit::<' in n:
        parts.reverse()
    return IterV([Cell(StrRef(p)) for p in parts], by_value=True)


@model(r'^(std|core)::str::<impl str>::split_whitespace$')
def m_str_split_ws(ex, n, a, f):
    chars = as_str(ex, a[0])
    parts = []
    cur = []
    for c in chars:
        if ex.branch(char_pred('is_whitespace', c), 'split_ws'):
            if cur:
                parts.append(cur)
                cur = []
        else:
            cur.append(c)
    if cur:
        parts.append(cur)
    return IterV([Cell(StrRef(p)) for p in parts], by_value=True)


@model(r'^(std|core)::str::<impl str>::(split_once|rsplit_once)::<')
def m_str_split_once(ex, n, a, f):
    chars = as_str(ex, a[0])
    pk, _ = pattern_kind(ex, f)
    rt = ret_ty(f)
    if 'rsplit_once' in n:
        pat = norm_pat(ex, a[1])
        for i in range(len(chars) - 1, -1, -1):
            cond, ln = match_at(ex, chars, i, pat, pk)
            if ln and ex.branch(cond, 'rsplit_once'):
                return some(ex, rt, Tup([StrRef(chars[:i]), StrRef(chars[i + ln:])]))
        return none(ex, rt)
    i, ln = find_first(ex, chars, a[1], pk, 0, 'split_once')
    if i is None:
        return none(ex, rt)
    return some(ex, rt, Tup([StrRef(chars[:i]), StrRef(chars[i + ln:])]))


@model(r'^(std|core)::str::<impl str>::parse::<')
def m_str_parse(ex, n, a, f):
    chars = as_str(ex, a[0])
    rt = ret_ty(f)
    tk = ex.p.kind([t for t in f['targs'] if t is not None][0])
    if tk == ('adt', 'proc_macro2::TokenStream'):
        from .tokens import m_ts_from_str
        return m_ts_from_str(ex, n, a, f)
    s = pystr(StrRef(chars))
    if tk[0] == 'int':
        try:
            if not re.fullmatch(r'[+-]?[0-9]+', s):
                raise ValueError
            v = int(s)
            lo, hi = (-(1 << (tk[1] - 1)), (1 << (tk[1] - 1)) - 1) if tk[2] else (0, (1 << tk[1]) - 1)
            if not lo <= v <= hi or (not tk[2] and s.startswith('-')):
                raise ValueError
            return Adt(rt, ex.p.variant_index(rt, 'Ok'), [v])
        except ValueError:
            return Adt(rt, ex.p.variant_index(rt, 'Err'), [Opaque('ParseIntError')])
    raise Unsupported(f"str::parse::<{tk}>")


@model(r'^(std|core)::str::<impl str>::(get|get_unchecked)::<', r'^(std|core)::str::traits::<impl std::ops::Index<.*> for str>::index$',
       r'^<std::string::String as std::ops::Index<.*>>::index$', r'^(std|core)::str::traits::<impl std::slice::SliceIndex<str> for .*>::(index|get)$')
def m_str_index(ex, n, a, f):
    chars = as_str(ex, a[0])
    total = str_bytelen(chars)
    r = ex.force(a[1])
    nm = ex.p.ty(r.ty)['adt']['name'].split('::')[-1]

    def cv(v):
        return v if isinstance(v, int) else ex.concretize(v, range(total + 2), 'str-index')
    if nm == 'RangeFull':
        lo, hi = 0, total
    elif nm == 'Range':
        lo, hi = cv(r.fields[0]), cv(r.fields[1])
    elif nm == 'RangeFrom':
        lo, hi = cv(r.fields[0]), total
    elif nm == 'RangeTo':
        lo, hi = 0, cv(r.fields[0])
    elif nm == 'RangeInclusive':
        lo, hi = cv(r.fields[0]), cv(r.fields[1]) + 1
    elif nm == 'RangeToInclusive':
        lo, hi = 0, cv(r.fields[0]) + 1
    else:
        raise Unsupported(f"str index by {nm}")
    is_get = '>::get::<' in n or n.endswith('::get')
    try:
        if lo > hi:
            raise Panic(f"str slice index starts at {lo} but ends at {hi}")
        i = char_index_of_byte(ex, chars, lo)
        j = char_index_of_byte(ex, chars, hi)
    except Panic:
        if is_get:
            return none(ex, ret_ty(f))
        raise
    src = ex.deref(a[0])
    res = src.sub(i, j) if isinstance(src, StrRef) else StrRef(chars[i:j])
    return some(ex, ret_ty(f), res) if is_get else res


@model(r'^(std|core)::str::<impl str>::is_char_boundary$')
def m_is_char_boundary(ex, n, a, f):
    chars = as_str(ex, a[0])
    b = a[1] if isinstance(a[1], int) else ex.concretize(a[1], range(str_bytelen(chars) + 2), 'is_char_boundary')
    o = 0
    if b == 0:
        return True
    for c in chars:
        o += utf8len(c)
        if o == b:
            return True
    return False


@model(r'^(std|core)::str::<impl str>::split_at(_checked)?$')
def m_str_split_at(ex, n, a, f):
    chars = as_str(ex, a[0])
    i = char_index_of_byte(ex, chars, a[1], 'split_at')
    src = ex.deref(a[0])
    if isinstance(src, StrRef):
        return Tup([src.sub(0, i), src.sub(i, len(chars))])
    return Tup([StrRef(chars[:i]), StrRef(chars[i:])])


@model(r'^(std|core)::str::<impl str>::eq_ignore_ascii_case$')
def m_str_eq_ignore_case(ex, n, a, f):
    x = as_str(ex, a[0])
    y = as_str(ex, a[1])
    return str_eq(ex, [ascii_lower(c) for c in x], [ascii_lower(c) for c in y])


@model(r'^(std|core)::str::<impl str>::repeat$', r'^alloc::str::<impl str>::repeat$')
def m_str_repeat(ex, n, a, f):
    chars = as_str(ex, a[0])
    k = a[1] if isinstance(a[1], int) else ex.concretize(a[1], range(9), 'repeat')
    return StringV(list(chars) * k)


# ---- String
@model(r'^std::string::String::with_capacity$')
def m_string_with_capacity(ex, n, a, f):
    return StringV(())


@model(r'^std::string::String::(capacity|reserve|shrink_to_fit)$')
def m_string_capacity(ex, n, a, f):
    return 0 if n.endswith('capacity') else UNIT


@model(r'^std::string::String::pop$')
def m_string_pop(ex, n, a, f):
    s = ex.deref(a[0])
    rt = ret_ty(f)
    if not s.chars:
        return none(ex, rt)
    return some(ex, rt, s.chars.pop())


@model(r'^std::string::String::clear$')
def m_string_clear(ex, n, a, f):
    ex.deref(a[0]).chars.clear()
    return UNIT


@model(r'^std::string::String::truncate$')
def m_string_truncate(ex, n, a, f):
    s = ex.deref(a[0])
    i = char_index_of_byte(ex, s.chars, a[1], 'truncate')
    del s.chars[i:]
    return UNIT


@model(r'^std::string::String::insert(_str)?$')
def m_string_insert(ex, n, a, f):
    s = ex.deref(a[0])
    i = char_index_of_byte(ex, s.chars, a[1], 'insert')
    if n.endswith('_str'):
        s.chars[i:i] = list(as_str(ex, a[2]))
    else:
        s.chars.insert(i, a[2])
    return UNIT


@model(r'^std::string::String::remove$')
def m_string_remove(ex, n, a, f):
    s = ex.deref(a[0])
    i = char_index_of_byte(ex, s.chars, a[1], 'remove')
    if i >= len(s.chars):
        raise Panic('cannot remove a char from the end of a string')
    return s.chars.pop(i)


@model(r'^std::string::String::drain::<')
def m_string_drain(ex, n, a, f):
    s = ex.deref(a[0])
    r = ex.force(a[1])
    nm = ex.p.ty(r.ty)['adt']['name'].split('::')[-1]
    if nm != 'RangeFull':
        raise Unsupported("String::drain of a sub-range")
    cells = [Cell(c) for c in s.chars]
    s.chars = []
    return IterV(cells, by_value=True)


@model(r'^<std::string::String as std::iter::FromIterator<(char|&char|&str|std::string::String)>>::from_iter::<')
def m_string_from_iter(ex, n, a, f):
    out = []
    it = ex.force(a[0])
    for x in drain(ex, f, it):
        x = ex.deref(x) if isinstance(x, Ref) else x
        if isinstance(x, (StrRef, StringV)):
            out.extend(x.chars)
        else:
            out.append(x)
    return StringV(out)


@model(r'^<std::string::String as std::iter::Extend<(char|&char|&str|std::string::String)>>::extend::<')
def m_string_extend(ex, n, a, f):
    s = ex.deref(a[0])
    it = ex.force(a[1])
    for x in drain(ex, f, it):
        x = ex.deref(x) if isinstance(x, Ref) else x
        if isinstance(x, (StrRef, StringV)):
            s.chars.extend(x.chars)
        else:
            s.chars.append(x)
    return UNIT


@model(r'^(std|alloc)::slice::<impl \[.*\]>::(join|concat)::<', r'^alloc::str::join_generic_copy', r'^<\[.*\] as (std|alloc)::slice::(Join|Concat)<.*>>::(join|concat)$')
def m_slice_join(ex, n, a, f):
    cells = as_cells(ex, a[0])
    sep = as_str(ex, a[1]) if len(a) > 1 and ('join' in n) else ()
    out = []
    for i, c in enumerate(cells):
        v = ex.deref(Ref(c))
        if i:
            out.extend(sep)
        out.extend(as_str(ex, v))
    return StringV(out)


@model(r'^<std::string::String as std::convert::From<char>>::from$', r'^<char as std::convert::Into<std::string::String>>::into$')
def m_string_from_char(ex, n, a, f):
    return StringV([a[0]])


@model(r'^<std::string::String as std::cmp::(PartialOrd|Ord)>::(cmp|partial_cmp|lt|le|gt|ge)$', r'^<str as std::cmp::(PartialOrd|Ord)>::(cmp|partial_cmp)$',
       r'^core::str::traits::<impl std::cmp::(Partial)?Ord for str>::(cmp|partial_cmp)$')
def m_str_cmp(ex, n, a, f):
    x = as_str(ex, a[0])
    y = as_str(ex, a[1])
    what = n.rsplit('::', 1)[1]
    if not (is_conc_chars(x) and is_conc_chars(y)):
        # lexicographic comparison decided character by character by the executor (UTF-8 keeps the order of the code points, so the
        # byte order of `str` is the order of the scalar values); the lengths are concrete
        sign = 0
        for cx, cy in zip(x, y):
            tx = cx if not isinstance(cx, int) else z3.BitVecVal(cx, 32)
            ty_ = cy if not isinstance(cy, int) else z3.BitVecVal(cy, 32)
            if isinstance(cx, int) and isinstance(cy, int):
                if cx == cy:
                    continue
                sign = -1 if cx < cy else 1
                break
            if ex.branch(to_bv(tx, 32) == to_bv(ty_, 32), 'str-cmp-eq'):
                continue
            sign = -1 if ex.branch(z3.ULT(to_bv(tx, 32), to_bv(ty_, 32)), 'str-cmp-lt') else 1
            break
        if sign == 0:
            sign = -1 if len(x) < len(y) else 1 if len(x) > len(y) else 0
        if what in ('lt', 'le', 'gt', 'ge'):
            return {'lt': sign < 0, 'le': sign <= 0, 'gt': sign > 0, 'ge': sign >= 0}[what]
        rt = ret_ty(f)
        oty = rt if what != 'partial_cmp' else ex.p.ty(rt)['adt']['targs'][0]
        o = Adt(oty, ex.p.variant_index(oty, 'Less' if sign < 0 else 'Equal' if sign == 0 else 'Greater'), [])
        return some(ex, rt, o) if what == 'partial_cmp' else o
    bx = ''.join(map(chr, x)).encode()
    by = ''.join(map(chr, y)).encode()
    if what in ('lt', 'le', 'gt', 'ge'):
        return {'lt': bx < by, 'le': bx <= by, 'gt': bx > by, 'ge': bx >= by}[what]
    rt = ret_ty(f)
    oty = rt
    if what == 'partial_cmp':
        oty = ex.p.ty(rt)['adt']['targs'][0]
    o = Adt(oty, ex.p.variant_index(oty, 'Less' if bx < by else 'Equal' if bx == by else 'Greater'), [])
    return some(ex, rt, o) if what == 'partial_cmp' else o


@model(r'^<(std::str::Chars<\'_>|std::str::CharIndices<\'_>|std::str::Bytes<\'_>|std::str::Lines<\'_>|std::str::Split<.*>|std::str::RSplit<.*>|std::str::SplitWhitespace<\'_>|std::str::SplitTerminator<.*>|std::string::Drain<\'_>|std::char::(ToUppercase|ToLowercase|EscapeUnicode|EscapeDebug|EscapeDefault)) as std::iter::(Iterator|DoubleEndedIterator)>::(next|next_back)$')
def m_chars_next(ex, n, a, f):
    it = get_iter(ex, a[0])
    rt = ret_ty(f)
    if it.pos < it.end:
        if n.endswith('next_back'):
            it.end -= 1
            return some(ex, rt, it.cells[it.end].v)
        c = it.cells[it.pos]
        it.pos += 1
        return some(ex, rt, c.v)
    return none(ex, rt)


@model(r'^std::str::Chars::<\'_>::as_str$')
def m_chars_as_str(ex, n, a, f):
    it = get_iter(ex, a[0])
    return StrRef([c.v for c in it.cells[it.pos:it.end]])


@model(r'^<(std::str::Chars<\'_>|std::str::CharIndices<\'_>|std::str::Bytes<\'_>|std::str::Lines<\'_>|std::str::Split<.*>) as std::iter::Iterator>::(count|size_hint|last|all|any|position|find|fold|for_each|nth|rev|find_map)(::<.*)?$')
def m_chars_other(ex, n, a, f):
    name = re.search(r'Iterator>::(\w+)', n).group(1)
    fake = n.replace(n.split(' as ')[0][1:], "std::slice::Iter<'_, char>")
    for pat, fn in models.REGISTRY:
        if pat.search(fake):
            return fn(ex, fake, a, f)
    raise Unsupported(f"iterator method {name} on str iterator")


@model(r'^<(&)?str as nom::Offset>::offset$', r'^<(&)?str as nom::traits::Offset>::offset$')
def m_nom_offset(ex, n, a, f):
    x = ex.deref(a[0])
    y = ex.deref(a[1])
    if not (isinstance(x, StrRef) and isinstance(y, StrRef)):
        raise Unsupported("nom Offset on non-&str")
    if x is y:
        return 0
    if x.base is None or x.base is not y.base:
        if not x.chars and not y.chars:
            return 0
        raise Unsupported("nom Offset between unrelated strings")
    return norm(y.off - x.off, 64, False)


@model(r'^(std|core)::str::<impl str>::(match_indices|rmatch_indices)::<')
def m_str_match_indices(ex, n, a, f):
    chars = as_str(ex, a[0])
    pk, _ = pattern_kind(ex, f)
    pat = norm_pat(ex, a[1])
    src = ex.deref(a[0])
    cells = []
    i = 0
    while i < len(chars):
        cond, ln = match_at(ex, chars, i, pat, pk)
        if ln and ex.branch(cond, 'match_indices'):
            sub = src.sub(i, i + ln) if isinstance(src, StrRef) else StrRef(chars[i:i + ln])
            cells.append(Cell(Tup([byte_off(chars, i), sub])))
            i += ln
        else:
            i += 1
    return IterV(cells, by_value=True)


@model(r'^<std::str::(MatchIndices|RMatchIndices|Matches)<.*> as std::iter::(Iterator|DoubleEndedIterator)>::(next|next_back)$')
def m_match_indices_next(ex, n, a, f):
    return m_chars_next(ex, n, a, f)


@model(r'^<std::str::(MatchIndices|RMatchIndices|Matches)<.*> as std::iter::Iterator>::(count|last)$')
def m_match_indices_count(ex, n, a, f):
    it = ex.force(a[0])
    if n.endswith('count'):
        return it.end - it.pos
    rt = ret_ty(f)
    return some(ex, rt, it.cells[it.end - 1].v) if it.pos < it.end else none(ex, rt)


@model(r'^<std::str::(MatchIndices|RMatchIndices|Matches)<.*> as std::clone::Clone>::clone$')
def m_match_indices_clone(ex, n, a, f):
    it = ex.deref(a[0])
    c = IterV(it.cells, it.by_value)
    c.pos, c.end = it.pos, it.end
    return c


models.REGISTRY.insert(0, models.REGISTRY.pop())
