"""check <id> [--tier quick|thorough]  - single entry point registered in MANIFEST.json"""
import sys, os, json, time, importlib, multiprocessing, hashlib, traceback, argparse
from . import frontend

VERIF = frontend.VERIF
# evidence / replays go to /verif unless a seed regression (seedreg.sh) redirects them
OUT = os.environ.get('VERIF_OUT') or VERIF
PROPS = ['C%02d' % i for i in range(1, 21)]


def all_roots():
    roots = set()
    for pid in PROPS:
        try:
            m = importlib.import_module(f'harnesses.{pid}')
        except ModuleNotFoundError:
            continue
        roots |= set(getattr(m, 'ROOTS', []))
    return sorted(roots)


def _run_job(arg):
    pid, jobname, tier, seed, dump_path = arg
    t0 = time.time()
    try:
        m = importlib.import_module(f'harnesses.{pid}')
        from .harness import program
        from . import bridge
        bridge.REJECT_IS_VIOLATION = (tier == 'quick')
        prog = program(dump_path)
        res = m.run_job(prog, jobname, tier, seed)
        d = res.to_dict()
    except BaseException as e:   # noqa
        d = {'name': jobname, 'crash': traceback.format_exc()[-3000:], 'paths': 0, 'kinds': {}, 'steps': 0, 'feas_queries': 0, 'obligations': 0,
             'discharged': 0, 'solver_s': 0.0, 'violations': [], 'inconclusive': [f'job crashed: {type(e).__name__}: {e}'], 'witnesses': {}, 'samples': [],
             'encoded': [], 'models': [], 'withheld': {}, 'diff_ok': 0, 'diff_fail': [], 'smt_dumps': [], 'bounds': {}, 'notes': []}
    d['wall'] = time.time() - t0
    covdir = os.environ.get('VERIF_COV')
    if covdir:
        from . import core
        if core.COV:
            os.makedirs(covdir, exist_ok=True)
            json.dump({k: sorted(v) for k, v in core.COV.items()},
                      open(os.path.join(covdir, f'{pid}-{jobname}-{os.getpid()}-{int(time.time()*1000)}.json'.replace('/', '_')), 'w'))
            core.COV.clear()
    return d


def load_findings():
    p = os.path.join(VERIF, 'known_findings.json')
    if not os.path.exists(p):
        return {'findings': [], 'fixed': []}
    return json.load(open(p))


def match_finding(findings, pid, sig):
    import re
    for f in findings:
        if f['property'] != pid:
            continue
        if 'sig' in f and f['sig'] == sig:
            return f
        if 'sig_regex' in f and re.fullmatch(f['sig_regex'], sig):
            return f
    return None


def generic_replay(path):
    """re-runs the stored counterexample input through the natively compiled compiler and prints what it produces"""
    from . import native
    d = json.load(open(path))
    rp = d.get('replay', {})
    print(f"property {d.get('property')}  [{d.get('sig')}]")
    print(f"claimed: {d.get('what')}")
    text = rp.get('text')
    if not text:
        print('no textual input recorded for this counterexample:', json.dumps(rp)[:2000])
        return 1
    r = native.Runner()
    try:
        for backend in ('rasn',):
            out = r.compile(text, backend=backend, config=rp.get('config'))
            print('--- input'); print(text)
            if out.get('ok'):
                print('--- generated'); print(out['generated'])
                for w in out.get('warnings', []):
                    print('--- warning:', w.get('display'))
            else:
                print('--- result:', json.dumps(out)[:3000])
    finally:
        r.close()
    return 1


def main(argv=None):
    ap = argparse.ArgumentParser()
    ap.add_argument('pid')
    ap.add_argument('--tier', default=os.environ.get('VERIF_TIER', 'quick'))
    ap.add_argument('--jobs', type=int, default=int(os.environ.get('VERIF_JOBS', '16')))
    ap.add_argument('--only', default=None)
    ap.add_argument('--replay', default=None)
    a = ap.parse_args(argv)
    pid, tier = a.pid, a.tier
    seed = int(os.environ.get('VERIF_SEED', '0') or 0)
    t0 = time.time()
    sys.path.insert(0, VERIF)
    m = importlib.import_module(f'harnesses.{pid}')
    if a.replay:
        if hasattr(m, 'replay_file'):
            return m.replay_file(a.replay)
        return generic_replay(a.replay)
    dump_path = frontend.dump(all_roots(), tag='main')
    from . import native
    native.build()
    if hasattr(m, 'prepare'):
        m.prepare()
    jobs = m.jobs(tier, seed)
    if a.only and a.only.startswith('='):      # explicit job names (development: jobs that are in no tier yet)
        jobs = a.only[1:].split(',')
    elif a.only:
        jobs = [j for j in jobs if a.only in j]
    args = [(pid, j, tier, seed, dump_path) for j in jobs]
    if a.jobs <= 1 or len(args) <= 1:
        results = [_run_job(x) for x in args]
    else:
        with multiprocessing.Pool(min(a.jobs, len(args))) as pool:
            results = pool.map(_run_job, args, chunksize=1)
    # ---- aggregate
    tot = {k: 0 for k in ('paths', 'steps', 'feas_queries', 'obligations', 'discharged', 'diff_ok')}
    solver_s = 0.0
    kinds, witnesses, withheld = {}, {}, {}
    violations, inconclusive, samples, encoded, models, notes, diff_fail, dumps = [], [], [], set(), set(), [], [], []
    bounds = {}
    for r in results:
        for k in tot:
            tot[k] += r.get(k, 0)
        solver_s += r.get('solver_s', 0.0)
        for k, v in r['kinds'].items():
            kinds[k] = kinds.get(k, 0) + v
        for k, v in r['witnesses'].items():
            witnesses[k] = witnesses.get(k, False) or v
        for k, v in r['withheld'].items():
            withheld[k] = withheld.get(k, 0) + v
        for v in r['violations']:
            v['job'] = r['name']
            violations.append(v)
        inconclusive += [f"{r['name']}: {x}" for x in r['inconclusive']]
        if r.get('crash'):
            sys.stderr.write(r['crash'] + '\n')
        samples += r['samples'][:3]
        encoded |= set(r['encoded'])
        models |= set(r['models'])
        notes += r.get('notes', [])
        diff_fail += r.get('diff_fail', [])
        dumps += r.get('smt_dumps', [])
        bounds.update(r.get('bounds', {}))
    # ---- cross-solver on a few dumped queries (seed selects which)
    from .harness import cross_check
    cross = []
    if dumps:
        import random
        rnd = random.Random(seed)
        pick = rnd.sample(dumps, min(len(dumps), 4 if tier == 'quick' else 12))
        for qclass, text, expected in pick:
            for solver, ans in cross_check(text, expected):
                cross.append({'class': qclass, 'solver': solver, 'answer': ans, 'z3': expected})
                if ans in ('sat', 'unsat') and expected in ('sat', 'unsat') and ans != expected:
                    inconclusive.append(f"solver disagreement on {qclass}: z3={expected} {solver}={ans}")
    missing_w = [k for k, v in witnesses.items() if not v]
    for k in missing_w:
        inconclusive.append(f"vacuity witness not reached: {k}")
    for d in diff_fail:
        inconclusive.append(f"differential validation failed: {d}")
    # ---- replay + findings
    kf = load_findings()
    out_lines = []
    new_viol = 0
    known_hit = {}
    os.makedirs(os.path.join(OUT, 'replays'), exist_ok=True)
    for v in violations:
        f = match_finding(kf['findings'], pid, v['sig'])
        if f is not None:
            known_hit.setdefault(f.get('id', f.get('sig', f.get('sig_regex'))), (f, []))[1].append(v)
            continue
        h = hashlib.sha256((pid + v['sig']).encode()).hexdigest()[:12]
        path = os.path.join(OUT, 'replays', f'{pid}-{h}.json')
        json.dump({'property': pid, 'sig': v['sig'], 'what': v['what'], 'replay': v['replay'],
                   'rerun': f"./check {pid} --replay {path}"}, open(path, 'w'), indent=1)
        out_lines.append(f"VIOLATION property={pid} replay={path}")
        sys.stderr.write(f"  violation [{v['sig']}]: {v['what']}\n")
        new_viol += 1
    for key, (f, vs) in known_hit.items():
        print(f"KNOWN-FINDING: property={pid} {f['what']} ({len(vs)} violating path class(es), e.g. {vs[0]['sig']})")
    for line in out_lines:
        print(line)
    wall = time.time() - t0
    ev = {
        'property_id': pid, 'tier': tier, 'seed': seed, 'level': 'model_checking',
        'coverage': {
            'states': max(tot['paths'], 1) if tot['paths'] else 0, 'transitions': tot['steps'],
            'traces_validated_against_impl': tot['diff_ok'],
            'samples': samples[:12] or ['(no samples)'],
            'path_kinds': kinds, 'feasibility_queries': tot['feas_queries'], 'obligations': tot['obligations'], 'discharged': tot['discharged'],
            'solver_time_s': round(solver_s, 2), 'functions_encoded': sorted(encoded)[:400], 'functions_encoded_count': len(encoded),
            'models_trusted': sorted(models), 'bounds': bounds, 'withheld_by_bounds': withheld, 'vacuity_witnesses': witnesses,
            'cross_solver': cross, 'jobs': len(results), 'known_findings_hit': sorted(known_hit.keys()), 'inconclusive': inconclusive[:40],
            'notes': notes[:20], 'repo_tree_hash': frontend.repo_hash()[:16], 'mir_dump': os.path.basename(dump_path),
            'explanation': 'states = symbolic paths (path classes) fully executed through the real MIR; transitions = MIR basic blocks executed; '
                           'obligations = property queries (path condition AND NOT property) decided by z3, discharged = unsat',
        },
        'assumptions': getattr(m, 'ASSUMPTIONS', []),
        'wall_s': round(wall, 2), 'violations': new_viol,
    }
    os.makedirs(os.path.join(OUT, 'evidence'), exist_ok=True)
    json.dump(ev, open(os.path.join(OUT, 'evidence', f'{pid}.json'), 'w'), indent=1, default=str)
    sys.stderr.write(f"[{pid} {tier}] paths={tot['paths']} {kinds} steps={tot['steps']} obligations={tot['obligations']} discharged={tot['discharged']} "
                     f"violations={len(violations)} (new {new_viol}) inconclusive={len(inconclusive)} wall={wall:.1f}s\n")
    if new_viol:
        return 1
    if inconclusive:
        for x in inconclusive[:15]:
            sys.stderr.write(f"  INCONCLUSIVE: {x}\n")
        return 2
    return 0


if __name__ == '__main__':
    sys.exit(main())
