"""Models of nom's non-generic leaf impls for &str (no MIR is available for non-generic functions of dependencies).
nom's generic combinators (tag, alt, delimited, many0, ...) and the repository's own Input impl run from real MIR."""
import re, z3
from .core import *
from .models import model, as_str, ret_ty, some, none, UNIT, bool_and, bool_or, bool_not, val_eq, IterV, str_bytelen, utf8len
from .strmodels import char_index_of_byte, byte_off, find_first, pattern_kind, match_at, norm_pat
from . import models


def _src(ex, v):
    s = ex.deref(v)
    if isinstance(s, StringV):
        return StrRef(s.chars)
    if not isinstance(s, StrRef):
        raise Unsupported(f"nom &str model on {s!r}"[:100])
    return s


@model(r"^<&str as nom::(traits::)?Input>::input_len$")
def m_nom_input_len(ex, n, a, f):
    return str_bytelen(_src(ex, a[0]).chars)


@model(r"^<&str as nom::(traits::)?Input>::(take|take_from)$")
def m_nom_take(ex, n, a, f):
    s = _src(ex, a[0])
    i = char_index_of_byte(ex, s.chars, a[1], 'nom take')
    return s.sub(0, i) if n.endswith('::take') else s.sub(i, len(s.chars))


@model(r"^<&str as nom::(traits::)?Input>::take_split$")
def m_nom_take_split(ex, n, a, f):
    s = _src(ex, a[0])
    i = char_index_of_byte(ex, s.chars, a[1], 'nom take_split')
    return Tup([s.sub(i, len(s.chars)), s.sub(0, i)])


@model(r"^<&str as nom::(traits::)?Input>::iter_elements$")
def m_nom_iter_elements(ex, n, a, f):
    return IterV([Cell(c) for c in _src(ex, a[0]).chars], by_value=True)


@model(r"^<&str as nom::(traits::)?Input>::iter_indices$")
def m_nom_iter_indices(ex, n, a, f):
    chars = _src(ex, a[0]).chars
    cells = []
    o = 0
    for c in chars:
        cells.append(Cell(Tup([o, c])))
        o += utf8len(c)
    return IterV(cells, by_value=True)


@model(r"^<&str as nom::(traits::)?Input>::position::<")
def m_nom_position(ex, n, a, f):
    chars = _src(ex, a[0]).chars
    rt = ret_ty(f)
    for i, c in enumerate(chars):
        # a symbolic character: the predicate (a pure closure over one char) is summarised into one term, see summarize_bool
        v = ex.call_value(a[1], [c]) if isinstance(c, int) else ex.summarize_bool(lambda c=c: ex.call_value(a[1], [c]))
        if ex.branch(v, 'nom-position'):
            return some(ex, rt, byte_off(chars, i))
    return none(ex, rt)


@model(r"^<&str as nom::(traits::)?Input>::slice_index$")
def m_nom_slice_index(ex, n, a, f):
    chars = _src(ex, a[0]).chars
    rt = ret_ty(f)
    cnt = a[1] if isinstance(a[1], int) else ex.concretize(a[1], range(len(chars) + 2), 'slice_index')
    if cnt <= len(chars):
        return Adt(rt, ex.p.variant_index(rt, 'Ok'), [byte_off(chars, cnt)])
    return Adt(rt, ex.p.variant_index(rt, 'Err'), [Opaque('Needed')])


def _compare(ex, rt, schars, tchars, nocase=False):
    from .strmodels import ascii_lower
    k = min(len(schars), len(tchars))
    for i in range(k):
        x, y = schars[i], tchars[i]
        if nocase:
            x, y = ascii_lower(x), ascii_lower(y)
        if not ex.branch(val_eq(x, y), 'nom-compare'):
            return Adt(rt, ex.p.variant_index(rt, 'Error'), [])
    if len(schars) >= len(tchars):
        return Adt(rt, ex.p.variant_index(rt, 'Ok'), [])
    return Adt(rt, ex.p.variant_index(rt, 'Incomplete'), [])


@model(r"^<&str as nom::(traits::)?Compare<&str>>::(compare|compare_no_case)$")
def m_nom_compare(ex, n, a, f):
    s = _src(ex, a[0]).chars
    t = _src(ex, a[1]).chars
    if not (is_conc_chars(t)) or any(c >= 128 for c in t if isinstance(c, int)):
        pass
    # byte-wise comparison == char-wise comparison for valid UTF-8 prefixes of equal characters
    return _compare(ex, ret_ty(f), s, t, n.endswith('no_case'))


@model(r"^<&str as nom::(traits::)?FindSubstring<&str>>::find_substring$")
def m_nom_find_substring(ex, n, a, f):
    chars = _src(ex, a[0]).chars
    pat = _src(ex, a[1])
    rt = ret_ty(f)
    i, _ = find_first(ex, chars, pat, ('str',), 0, 'find_substring')
    return none(ex, rt) if i is None else some(ex, rt, byte_off(chars, i))


@model(r"^<&str as nom::(traits::)?FindToken<char>>::find_token$", r"^<&str as nom::(traits::)?FindToken<&?u8>>::find_token$")
def m_nom_find_token(ex, n, a, f):
    chars = _src(ex, a[0]).chars
    tok = ex.deref(a[1]) if isinstance(a[1], Ref) else a[1]
    r = False
    for c in chars:
        r = bool_or(r, val_eq(c, tok))
        if r is True:
            return True
    return r


@model(r"^<char as nom::(traits::)?AsChar>::(as_char|len)$")
def m_nom_as_char(ex, n, a, f):
    c = ex.deref(a[0]) if isinstance(a[0], Ref) else a[0]
    return c if n.endswith('as_char') else utf8len(c)


@model(r"^<(&)?char as nom::(traits::)?AsChar>::(is_alpha|is_alphanum|is_dec_digit|is_hex_digit|is_oct_digit|is_bin_digit|is_space|is_newline)$")
def m_nom_char_pred(ex, n, a, f):
    from .strmodels import char_pred, in_range
    c = ex.deref(a[0]) if isinstance(a[0], Ref) else a[0]
    w = n.rsplit('::', 1)[1]
    if w == 'is_alpha':
        return char_pred('is_ascii_alphabetic', c)
    if w == 'is_alphanum':
        return char_pred('is_ascii_alphanumeric', c)
    if w == 'is_dec_digit':
        return char_pred('is_ascii_digit', c)
    if w == 'is_hex_digit':
        return char_pred('is_ascii_hexdigit', c)
    if w == 'is_oct_digit':
        return in_range(c, 48, 55)
    if w == 'is_bin_digit':
        return in_range(c, 48, 49)
    if w == 'is_space':
        return bool_or(val_eq(c, 32), val_eq(c, 9))
    return val_eq(c, 10)


@model(r"^<&str as nom::(traits::)?Offset>::offset$", r"^<str as nom::(traits::)?Offset>::offset$")
def m_nom_offset2(ex, n, a, f):
    from .strmodels import m_nom_offset
    return m_nom_offset(ex, n, a, f)


@model(r"^<&str as nom::(traits::)?ExtendInto>::(new_builder|extend_into)$")
def m_nom_extend_into(ex, n, a, f):
    if n.endswith('new_builder'):
        return StringV(())
    ex.deref(a[1]).chars.extend(_src(ex, a[0]).chars)
    return UNIT


@model(r"^nom::Needed::new$", r"^nom::internal::Needed::new$")
def m_nom_needed_new(ex, n, a, f):
    rt = ret_ty(f)
    return Adt(rt, ex.p.variant_index(rt, 'Unknown'), [])


# ---- &[u8] tags (nom::number::complete::double / recognize_float compare the text with byte-string keywords)
def _bytes_of(ex, v):
    s = ex.deref(v) if isinstance(v, Ref) else v
    if isinstance(s, SliceRef):
        return [c.v for c in s.cells]
    if isinstance(s, Arr):
        return [c.v if isinstance(c, Cell) else c for c in s.cells]
    if isinstance(s, (StrRef, StringV)):
        return list(s.chars)
    raise Unsupported(f"nom &[u8] model on {s!r}"[:100])


@model(r"^<&\[u8\] as nom::(traits::)?Input>::input_len$")
def m_nom_bytes_input_len(ex, n, a, f):
    return len(_bytes_of(ex, a[0]))


@model(r"^<&str as nom::(traits::)?Compare<&\[u8\]>>::(compare|compare_no_case)$")
def m_nom_compare_bytes(ex, n, a, f):
    s = _src(ex, a[0]).chars
    t = _bytes_of(ex, a[1])
    if any(isinstance(c, int) and c >= 128 for c in t):
        raise Unsupported('non-ASCII byte tag')
    return _compare(ex, ret_ty(f), s, t, n.endswith('no_case'))
