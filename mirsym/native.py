"""Native runner client: the real compiler, natively compiled from /repo's current tree (stable toolchain)."""
import json, os, subprocess, sys, threading, time, shutil
from . import frontend

RUNNER_DIR = os.path.join(frontend.VERIF, 'runner')
TARGET = os.path.join(frontend.CACHE, 'runner-target')


def build(release=False):
    out = os.path.join(TARGET, 'release' if release else 'debug', 'verif_runner')
    # built once per check run (by the main process, from /repo's current tree); the job processes inherit the marker
    if os.environ.get('VERIF_RUNNER_BUILT') == out and os.path.exists(out):
        return out
    rdir = RUNNER_DIR
    if frontend.REPO != '/repo':
        # checks pointed at a scratch copy of the repository (VERIF_REPO, seed regressions): the runner is built from a copy
        # of its crate whose path dependency names that copy
        rdir = os.path.join(frontend.CACHE, 'runner-src')
        shutil.rmtree(rdir, ignore_errors=True)
        shutil.copytree(RUNNER_DIR, rdir, ignore=shutil.ignore_patterns('target'))
        t = open(os.path.join(rdir, 'Cargo.toml')).read().replace('/repo/rasn-compiler', os.path.join(frontend.REPO, 'rasn-compiler'))
        open(os.path.join(rdir, 'Cargo.toml'), 'w').write(t)
    shutil.copyfile(os.path.join(frontend.REPO, 'Cargo.lock'), os.path.join(rdir, 'Cargo.lock'))
    cmd = ['cargo', 'build', '--offline'] + (['--release'] if release else [])
    r = frontend.sh(cmd, cwd=rdir, env={'CARGO_TARGET_DIR': TARGET, 'RUSTUP_TOOLCHAIN': 'stable'})
    if r.returncode != 0:
        sys.stderr.write(r.stdout[-4000:])
        raise SystemExit(2)
    os.environ['VERIF_RUNNER_BUILT'] = out
    return out


class Runner:
    def __init__(self, release=False, timeout=20):
        self.bin = build(release)
        self.timeout = timeout
        self.proc = None
        self.calls = 0

    def _start(self):
        self.proc = subprocess.Popen([self.bin], stdin=subprocess.PIPE, stdout=subprocess.PIPE, stderr=subprocess.DEVNULL, text=True, bufsize=1)

    def call(self, cmd):
        """returns the JSON answer; {'hang': True} on timeout, {'crash': rc} if the process died (stack overflow / abort)"""
        if self.proc is None or self.proc.poll() is not None:
            self._start()
        self.calls += 1
        res = {}

        def work():
            try:
                self.proc.stdin.write(json.dumps(cmd) + '\n')
                self.proc.stdin.flush()
                line = self.proc.stdout.readline()
                res['line'] = line
            except Exception as e:
                res['exc'] = str(e)
        t = threading.Thread(target=work, daemon=True)
        t.start()
        t.join(self.timeout)
        if t.is_alive():
            self.proc.kill()
            self.proc.wait()
            self.proc = None
            return {'hang': True}
        line = res.get('line')
        if not line:
            rc = self.proc.poll()
            if rc is None:
                time.sleep(0.2)
                rc = self.proc.poll()
            self.proc = None
            return {'crash': rc if rc is not None else -1}
        return json.loads(line)

    def compile(self, sources, backend='rasn', config=None, project=False):
        if isinstance(sources, str):
            sources = [sources]
        return self.call({'cmd': 'compile', 'backend': backend, 'sources': sources, 'config': config or {}, 'project': project})

    def close(self):
        if self.proc is not None and self.proc.poll() is None:
            try:
                self.proc.stdin.close()
                self.proc.wait(2)
            except Exception:
                self.proc.kill()
        self.proc = None
