"""Harness support: job results, obligations (property queries), counterexample extraction, cross-solver dumps."""
import time, json, os, hashlib, subprocess, tempfile
import z3
from .core import *
from . import models, tokens, strmodels, nommodels  # noqa: F401  (registers the models)

_PROG = {}


def program(path):
    p = _PROG.get(path)
    if p is None:
        p = Program(path)
        _PROG[path] = p
    return p


class JobResult:
    def __init__(self, name):
        self.name = name
        self.paths = 0
        self.kinds = {}
        self.steps = 0
        self.feas_queries = 0
        self.obligations = 0
        self.discharged = 0
        self.solver_s = 0.0
        self.violations = []      # dicts: sig, what, model, replay
        self.inconclusive = []    # strings
        self.witnesses = {}       # name -> reached?
        self.samples = []
        self.encoded = set()
        self.models = set()
        self.withheld = {}
        self.diff_ok = 0
        self.diff_fail = []
        self.smt_dumps = []       # (class, smt2 text, expected)
        self.bounds = {}
        self.wall = 0.0
        self.notes = []

    def to_dict(self):
        d = dict(self.__dict__)
        d['encoded'] = sorted(self.encoded)
        d['models'] = sorted(self.models)
        return d


class Checker:
    """wraps an Exec + JobResult: explores, then discharges obligations on every completed path"""

    def __init__(self, prog, name, qtimeout_ms=30000):
        self.p = prog
        self.ex = Exec(prog)
        self.res = JobResult(name)
        self.qtimeout = qtimeout_ms
        self.osolver = z3.Solver()
        self.osolver.set('timeout', qtimeout_ms)
        self._classes = set()
        self.allow_panic = None    # callable(PathResult)->bool : panics that are acceptable (e.g. documented)
        self.allow_truncated = False
        self.max_dumps = 3

    def explore(self, run_one, **kw):
        t0 = time.time()
        rs = self.ex.explore(run_one, **kw)
        r = self.res
        r.paths += len(rs)
        for x in rs:
            r.kinds[x.kind] = r.kinds.get(x.kind, 0) + 1
            if x.kind == 'unsupported':
                if len(r.inconclusive) < 20 and ('unsupported: ' + x.value) not in r.inconclusive:
                    r.inconclusive.append('unsupported: ' + x.value)
            elif x.kind == 'truncated' and not self.allow_truncated:
                if len(r.inconclusive) < 20 and ('truncated: ' + x.value) not in r.inconclusive:
                    r.inconclusive.append('truncated: ' + x.value)
        if getattr(self.ex, 'truncated_exploration', False):
            r.inconclusive.append('exploration budget exhausted (paths/time)')
        r.steps = self.ex.steps
        r.feas_queries = self.ex.queries
        r.solver_s += self.ex.solver_time
        self.ex.solver_time = 0.0
        r.encoded |= self.ex.encoded
        r.models |= self.ex.models_used
        for k, v in self.ex.withheld.items():
            r.withheld[k] = r.withheld.get(k, 0) + v
        r.wall += time.time() - t0
        return rs

    def holds(self, pc, prop, qclass='q'):
        """obligation: pc ==> prop.  Returns None if it holds, a z3 model otherwise.  unknown -> inconclusive"""
        r = self.res
        r.obligations += 1
        if isinstance(prop, bool):
            if prop:
                r.discharged += 1
                return None
            neg = z3.BoolVal(True)
        else:
            neg = z3.Not(prop)
        t = time.time()
        s = self.osolver
        s.push()
        try:
            for c in pc:
                s.add(c)
            s.add(neg)
            res = s.check()
            dt = time.time() - t
            r.solver_s += dt
            if dt > 5:
                r.notes.append(f'slow obligation {qclass}: {dt:.1f}s ({res})')
            if qclass not in self._classes and len(r.smt_dumps) < self.max_dumps:
                self._classes.add(qclass)
                r.smt_dumps.append((qclass, s.to_smt2(), str(res)))
            if res == z3.unsat:
                r.discharged += 1
                return None
            if res == z3.sat:
                return s.model()
            # timeout / unknown: second opinion from the external solvers on the dumped query (longer budget)
            ans = external_decide(s.to_smt2(), 300)
            if ans == 'unsat':
                r.discharged += 1
                r.notes.append(f'obligation {qclass} decided by an external solver after z3 timeout')
                return None
            if ans == 'sat':
                s.set('timeout', 600000)
                res = s.check()
                s.set('timeout', self.qtimeout)
                if res == z3.sat:
                    return s.model()
            r.inconclusive.append(f'solver unknown/timeout on obligation {qclass}')
            return False
        finally:
            s.pop()

    def reachable(self, pc, cond=True):
        s = self.osolver
        s.push()
        try:
            for c in pc:
                s.add(c)
            if not isinstance(cond, bool):
                s.add(cond)
            elif not cond:
                return False
            return s.check() == z3.sat
        finally:
            s.pop()

    def model_of(self, pc):
        """some model of the path condition (None if unsatisfiable / unknown)"""
        s = self.osolver
        s.push()
        try:
            for c in pc:
                s.add(c)
            return s.model() if s.check() == z3.sat else None
        finally:
            s.pop()

    def witness(self, name, reached=True):
        if reached:
            self.res.witnesses[name] = True
        else:
            self.res.witnesses.setdefault(name, False)

    def violation(self, sig, what, replay, model=None):
        r = self.res
        for v in r.violations:
            if v['sig'] == sig:
                v['count'] = v.get('count', 1) + 1
                return
        r.violations.append({'sig': sig, 'what': what, 'replay': replay, 'count': 1})

    def sample(self, s, limit=6):
        if len(self.res.samples) < limit:
            self.res.samples.append(s)


def model_int(m, term, signed=True):
    """integer value of a term under a model (python int); concrete python ints pass through"""
    if isinstance(term, bool):
        return term
    if isinstance(term, int):
        return term
    v = m.eval(term, model_completion=True)
    if z3.is_bv_value(v):
        return v.as_signed_long() if signed else v.as_long()
    if z3.is_true(v):
        return True
    if z3.is_false(v):
        return False
    raise Unsupported(f"cannot evaluate {term}")


def external_decide(smt2_text, timeout):
    """first definite answer of z3-new / cvc5 run in parallel on the query"""
    import threading
    with tempfile.NamedTemporaryFile('w', suffix='.smt2', delete=False, dir='/var/tmp') as f:
        if '(set-logic' not in smt2_text:
            f.write('(set-logic ALL)\n')
        f.write(smt2_text)
        if '(check-sat)' not in smt2_text:
            f.write('\n(check-sat)\n')
        path = f.name
    procs = []
    try:
        for cmd in (['z3-new', path], ['cvc5', '--lang', 'smt2', path], ['z3', 'sat.euf=false', 'tactic.default_tactic=smt', path]):
            try:
                procs.append(subprocess.Popen(cmd, stdout=subprocess.PIPE, stderr=subprocess.DEVNULL, text=True))
            except FileNotFoundError:
                pass
        t0 = time.time()
        while time.time() - t0 < timeout and procs:
            for p in list(procs):
                rc = p.poll()
                if rc is not None:
                    out = p.stdout.read()
                    procs.remove(p)
                    for l in out.split('\n'):
                        if l.strip() in ('sat', 'unsat') and '(error' not in out:
                            return l.strip()
            time.sleep(0.2)
        return 'unknown'
    finally:
        for p in procs:
            try:
                p.kill()
            except Exception:
                pass
        os.unlink(path)


def cross_check(smt2_text, expected, timeout=60):
    """re-decide one query with cvc5 and z3-new; returns list of (solver, answer)"""
    out = []
    with tempfile.NamedTemporaryFile('w', suffix='.smt2', delete=False, dir='/var/tmp') as f:
        if '(set-logic' not in smt2_text:
            f.write('(set-logic ALL)\n')
        f.write(smt2_text)
        if '(check-sat)' not in smt2_text:
            f.write('\n(check-sat)\n')
        path = f.name
    try:
        for solver, cmd in (('cvc5', ['cvc5', '--lang', 'smt2', path]), ('z3-new', ['z3-new', path])):
            try:
                r = subprocess.run(cmd, stdout=subprocess.PIPE, stderr=subprocess.STDOUT, text=True, timeout=timeout)
                lines = [l.strip() for l in r.stdout.strip().split('\n') if l.strip()]
                ans = next((l for l in lines if l in ('sat', 'unsat', 'unknown')), 'error: ' + r.stdout.strip()[:200])
                if '(error' in r.stdout:
                    ans = 'error: ' + r.stdout.strip()[:200]
            except subprocess.TimeoutExpired:
                ans = 'timeout'
            except FileNotFoundError:
                ans = 'missing'
            out.append((solver, ans))
    finally:
        os.unlink(path)
    return out
