"""Models of std / third-party leaf functions (the trusted base of mirsym).
Every model is registered with a name pattern; everything not matched is executed from its real MIR."""
import re, z3
from .core import *
from . import core

REGISTRY = []   # (compiled regex | callable, fn)


def model(*patterns):
    def deco(fn):
        for p in patterns:
            REGISTRY.append((re.compile(p), fn))
        return fn
    return deco


def lookup(name, f):
    for pat, fn in REGISTRY:
        if pat.search(name):
            return fn
    return None


# --------------------------------------------------------------------------- hooks used by core
def deep_extra(v, deep):
    if isinstance(v, IterV):
        n = IterV(v.cells, v.by_value)
        n.pos = v.pos
        n.end = v.end
        return n
    return v


def sym_string(ex, name):
    return Opaque('String:' + name)


def sym_adt_hook(ex, tid, an, name, depth):
    return None


def field_of(ex, container, i):
    if isinstance(container, BoxV) and i == 0:
        return container
    if isinstance(container, BorrowV):
        # cell::Ref { value: NonNull<T>, borrow: BorrowRef } / RefMut: the value pointer is the borrowed cell
        return Ref(container.cell) if i == 0 else Opaque('borrow-flag')
    return NotImplemented


def set_field_of(ex, container, i, val):
    return False


def deref_of(ex, v):
    return NotImplemented


def decode_adt_hook(ex, by, off, tid, ptrs):
    t = ex.p.ty(tid)
    an = t['adt']['name']
    if an in ('std::string::String', 'alloc::string::String'):
        return StringV(())
    if an in ('std::vec::Vec', 'alloc::vec::Vec'):
        return VecV([], t['adt']['targs'][0])
    # a constant BTreeMap / BTreeSet can only be the empty one (BTreeMap::new() is the only const constructor)
    if an.endswith('::BTreeMap') or an.endswith('::BTreeSet'):
        return BTreeMapV()
    if an.endswith('cell::RefCell'):
        flds = t['adt']['variants'][0]['fields']
        offs = t['layout']['fields']['Arbitrary']['offsets']
        i = [fl['name'] for fl in flds].index('value')
        inner = ex.decode(by, off + offs[i]['num_bits'] // 8, t['adt']['targs'][0], ptrs)
        return mk_refcell(ex, tid, inner)
    return NotImplemented


def static_hook(ex, st):
    return NotImplemented


def ptr_binop(ex, op, a, b):
    if isinstance(a, Ref) and isinstance(b, Ref):
        same = a.cell is b.cell and a.path == b.path
        if op == 'Eq':
            return same
        if op == 'Ne':
            return not same
    raise Unsupported(f"pointer binop {op} {a!r} {b!r}"[:160])


def discriminant_of(ex, v, dest_ty):
    return NotImplemented


def raw_ptr_aggregate(ex, vals, dest_ty):
    # *const [T] from (data ptr, len)
    return vals[0]


def ptr_offset(ex, p, n, ty):
    raise Unsupported("pointer offset")


def ptr_metadata(ex, v):
    if isinstance(v, (SliceRef,)):
        return len(v.cells)
    if isinstance(v, StrRef):
        return str_bytelen(v.chars)
    if isinstance(v, Ref):
        tgt = ex.load_path(v.cell, v.path)
        if isinstance(tgt, (VecV, Arr, SliceRef)):
            return len(tgt.cells)
        return UNIT
    raise Unsupported(f"PtrMetadata of {v!r}"[:120])


def cast(ex, kind, v, src, dst):
    ks = ex.p.kind(src)
    kd = ex.p.kind(dst)
    if isinstance(kind, dict) and 'PointerCoercion' in kind:
        pc = kind['PointerCoercion']
        if pc == 'Unsize':
            # &[T;N] -> &[T], Box<T> -> Box<dyn>, &T -> &dyn
            if isinstance(v, Ref):
                tgt = ex.load_path(v.cell, v.path)
                if isinstance(tgt, Arr):
                    return SliceRef(tgt.cells)
            return v
        if isinstance(pc, str) and pc in ('ReifyFnPointer', 'UnsafeFnPointer', 'MutToConstPointer', 'ArrayToPointer'):
            return v
        if isinstance(pc, dict) and ('ClosureFnPointer' in pc or 'ReifyFnPointer' in pc):
            return v
        return v
    if kind in ('PtrToPtr', 'Transmute', 'FnPtrToPtr', 'Subtype'):
        if kd[0] == 'int' and isinstance(v, (Ref, BoxV, SliceRef, StrRef, FnPtrV, FnDefV)):
            return Opaque('addr')
        return v
    if kind in ('PointerExposeAddress', 'PointerExposeProvenance'):
        if isinstance(v, AddrPtr):
            return v.term          # the (arbitrary) address of a modelled allocation as a usize
        return Opaque('addr')
    if kind in ('IntToFloat', 'FloatToInt', 'FloatToFloat'):
        return Opaque('float')
    raise Unsupported(f"cast {kind}")


def nullary(ex, x, dest_ty):
    op = x[0]
    if op in ('SizeOf', 'AlignOf'):
        tid = x[1]
        lay = ex.p.ty(tid).get('layout')
        if lay:
            return lay['size']['num_bits'] // 8 if op == 'SizeOf' else lay['abi_align']
        k = ex.p.kind(tid)
        if k[0] == 'int':
            return k[1] // 8
    if op == 'UbChecks' or op == 'ContractChecks' or (isinstance(op, dict) and 'RuntimeChecks' in op) or op == 'RuntimeChecks':
        return False
    if isinstance(op, str) and 'Checks' in op:
        return False
    raise Unsupported(f"nullary {x}")


def shallow_init_box(ex, v, ty):
    return BoxV(Cell(None))


def call_value_hook(ex, c, args):
    return NotImplemented


def stmt_intrinsic(ex, frame, intr):
    if 'Assume' in intr:
        return
    raise Unsupported(f"statement intrinsic {list(intr.keys())}")


def drop_hook(ex, frame, d):
    return


# --------------------------------------------------------------------------- helpers
def some(ex, opt_ty, v):
    return Adt(opt_ty, ex.p.variant_index(opt_ty, 'Some'), [v])


def none(ex, opt_ty):
    return Adt(opt_ty, ex.p.variant_index(opt_ty, 'None'), [])


def ret_ty(f):
    return f['abi_ret'] if 'abi_ret' in f else f['locals'][0]


def as_cells(ex, v):
    v = ex.deref(v)
    if isinstance(v, (VecV, SliceRef, Arr)):
        return v.cells
    raise Unsupported(f"as_cells {v!r}"[:160])


def utf8len(c):
    if isinstance(c, int):
        return 1 if c < 0x80 else 2 if c < 0x800 else 3 if c < 0x10000 else 4
    return 1  # symbolic chars are constrained to ASCII by the harness (sym_ascii_char)


def str_bytelen(chars):
    n = 0
    for c in chars:
        if isinstance(c, Frag):
            raise Unsupported("byte length of a string with opaque fragments")
        n += utf8len(c)
    return n


def as_str(ex, v):
    """chars tuple of a &str / &String / String value"""
    v = ex.deref(v)
    if isinstance(v, (StrRef, StringV)):
        return v.chars
    raise Unsupported(f"as_str {v!r}"[:160])


def bool_and(a, b):
    if isinstance(a, bool):
        return b if a else False
    if isinstance(b, bool):
        return a if b else False
    return z3.And(a, b)


def bool_or(a, b):
    if isinstance(a, bool):
        return True if a else b
    if isinstance(b, bool):
        return True if b else a
    return z3.Or(a, b)


def bool_not(a):
    return (not a) if isinstance(a, bool) else z3.Not(a)


def val_eq(a, b, bits=32):
    if isinstance(a, int) and isinstance(b, int):
        return a == b
    return to_bv(a, bits) == to_bv(b, bits)


class IterV:
    """slice::Iter / vec::IntoIter / Chars ...: cursor over a list of cells"""
    __slots__ = ('cells', 'pos', 'end', 'by_value')

    def __init__(self, cells, by_value=False):
        self.cells = cells
        self.pos = 0
        self.end = len(cells)
        self.by_value = by_value

    def __repr__(self):
        return f"Iter({self.pos}/{self.end})"

    def item(self, c):
        return c.v if self.by_value else Ref(c)


def get_iter(ex, v):
    it = ex.deref(v)
    if not isinstance(it, IterV):
        raise Unsupported(f"iterator expected, got {it!r}"[:160])
    return it


# --------------------------------------------------------------------------- panics
@model(r'^(core|std)::panicking::panic(_fmt|_nounwind|_nounwind_fmt|_const::.*)?$', r'^std::rt::begin_panic', r'^(core|std)::panicking::panic_display',
       r'^(core|std)::option::unwrap_failed$', r'^(core|std)::result::unwrap_failed$', r'^(core|std)::option::expect_failed$',
       r'^(core|std)::panicking::(panic_bounds_check|assert_failed|unreachable_display|panic_explicit|panic_str)',
       r'^(core|std)::slice::index::slice_(index_fail|start_index_len_fail|end_index_len_fail|index_order_fail)',
       r'^(core|std)::str::slice_error_fail', r'^std::alloc::handle_alloc_error$', r'^(alloc|std)::raw_vec::(handle_error|capacity_overflow)',
       r'^(core|std)::cell::panic_already', r'^(core|std)::str::traits::str_index_overflow_fail', r'^std::intrinsics::abort$')
def m_panic(ex, n, a, f):
    msg = n.split('::')[-1]
    for x in a:
        try:
            x = ex.deref(x)
        except Exception:
            pass
        if isinstance(x, StrRef):
            msg += ': ' + chars_repr(x.chars)
        elif isinstance(x, FmtArgs):
            msg += ': ' + x.describe()
    raise Panic(msg)


@model(r'^std::thread::LocalKey::<.*>::(try_with|with)::<')
def m_localkey_with(ex, n, a, f):
    """thread_local!: the key's accessor (real code: lazy / eager storage over a #[thread_local] static, modelled as a plain
    static of the single modelled thread) yields the slot, the closure runs on it"""
    key = ex.deref(a[0])
    while isinstance(key, Ref):
        key = ex.deref(key)
    inner = ex.force(key.fields[0]) if isinstance(key, Adt) else key
    if not isinstance(inner, FnPtrV):
        raise Unsupported(f"LocalKey accessor {inner!r}"[:120])
    fi = ex.p.inst[inner.inst]
    opt_ty = fi['locals'][fi['arg_count']]
    k = ex.p.kind(opt_ty)
    if k[0] == 'tuple':          # FnOnce::call_once shim of a capture-less closure: (self, (arg,))
        slot = ex.call_value(inner, [Tup([none(ex, k[1][0])])])
    else:
        slot = ex.call_value(inner, [none(ex, opt_ty)])
    if not isinstance(slot, Ref):
        raise Unsupported(f"LocalKey accessor returned {slot!r}"[:120])
    # the accessor hands out UnsafeCell::get() of the storage slot: step through the (transparent) UnsafeCell
    tgt = ex.load_path(slot.cell, slot.path)
    while isinstance(tgt, Adt) and ex.p.ty(tgt.ty)['adt']['name'].endswith('cell::UnsafeCell'):
        slot = Ref(slot.cell, slot.path + (('f', 0),))
        tgt = tgt.fields[0]
    r = ex.call_value(a[1], [slot])
    if '::try_with::<' in n:
        rt = ret_ty(f)
        return Adt(rt, ex.p.variant_index(rt, 'Ok'), [r])
    return r


@model(r'^std::sys::thread_local::destructors::(\w+::)*register$', r'^std::sys::thread_local::guard::(\w+::)*enable$')
def m_tls_register_dtor(ex, n, a, f):
    """registration of a thread-local destructor: thread exit is outside the model"""
    return UNIT


# --------------------------------------------------------------------------- hints / mem
@model(r'^std::hint::must_use', r'^std::hint::black_box', r'^std::convert::identity')
def m_identity(ex, n, a, f):
    return a[0]


@model(r'^std::hint::assert_unchecked$', r'^std::intrinsics::(assume|assert_inhabited|assert_zero_valid|assert_mem_uninitialized_valid)', r'^std::hint::spin_loop',
       r'^std::mem::forget::<')
def m_unit(ex, n, a, f):
    return UNIT


@model(r'^std::mem::replace::<', r'^core::mem::replace::<')
def m_mem_replace(ex, n, a, f):
    r = a[0]
    old = ex.load_raw(r.cell, r.path)
    ex.store_path(r.cell, r.path, a[1])
    return old


# atomics of the single modelled thread: plain loads and stores (orderings are irrelevant without a second thread)
@model(r'^std::intrinsics::atomic_(load|store|xchg|xadd|xsub|and|or|xor|fence|singlethreadfence|cxchg|cxchgweak)(::<.*)?$')
def m_atomic(ex, n, a, f):
    op = re.search(r'atomic_(\w+?)(::<|$)', n).group(1)
    if op in ('fence', 'singlethreadfence'):
        return UNIT
    r = a[0]
    old = ex.load_raw(r.cell, r.path)
    if op == 'load':
        return old
    if op == 'store':
        ex.store_path(r.cell, r.path, a[1])
        return UNIT
    if op == 'xchg':
        ex.store_path(r.cell, r.path, a[1])
        return old
    if op in ('cxchg', 'cxchgweak'):
        eq = ex.branch(old == a[1], 'atomic-cxchg') if not (isinstance(old, (int, bool)) and isinstance(a[1], (int, bool))) else old == a[1]
        if eq:
            ex.store_path(r.cell, r.path, a[2])
        return Tup([old, bool(eq)])
    k = ex.p.kind(ex.p.inst_ret(f)) if hasattr(ex.p, 'inst_ret') else None
    bits = k[1] if k and k[0] == 'int' else 64
    if isinstance(old, int) and isinstance(a[1], int):
        mask = (1 << bits) - 1
        new = {'xadd': old + a[1], 'xsub': old - a[1], 'and': old & a[1], 'or': old | a[1], 'xor': old ^ a[1]}[op] & mask
    else:
        x, y = to_bv(old, bits), to_bv(a[1], bits)
        new = {'xadd': x + y, 'xsub': x - y, 'and': x & y, 'or': x | y, 'xor': x ^ y}[op]
    ex.store_path(r.cell, r.path, new)
    return old


@model(r'^std::mem::swap::<', r'^core::mem::swap::<')
def m_mem_swap(ex, n, a, f):
    x, y = a
    vx = ex.load_raw(x.cell, x.path)
    vy = ex.load_raw(y.cell, y.path)
    ex.store_path(x.cell, x.path, vy)
    ex.store_path(y.cell, y.path, vx)
    return UNIT


@model(r'^std::mem::drop::<', r'^core::mem::drop::<', r'^std::ptr::drop_in_place::<', r'^<std::boxed::Box<.*> as std::ops::Drop>::drop$')   # the last: the box a value was moved out of (`*b`) is freed
def m_drop(ex, n, a, f):
    return UNIT


@model(r'^(std|core)::hint::select_unpredictable::<')
def m_select_unpredictable(ex, n, a, f):
    c = a[0]
    if not isinstance(c, bool):
        c = ex.branch(c if z3.is_bool(c) else (c != 0), 'select-unpredictable')
    return a[1] if c else a[2]


@model(r'^std::intrinsics::(cold_path|unlikely|likely)')
def m_likely(ex, n, a, f):
    return a[0] if a else UNIT


# --------------------------------------------------------------------------- Box
@model(r'^std::boxed::Box::<.*>::new$', r'^alloc::boxed::Box::<.*>::new$')
def m_box_new(ex, n, a, f):
    return BoxV(Cell(a[0]))


@model(r'^std::boxed::Box::<.*>::new_uninit$')
def m_box_new_uninit(ex, n, a, f):
    return BoxV(Cell(MaybeUninitV()))


@model(r'^std::boxed::box_assume_init_into_vec_unsafe::<')
def m_box_into_vec(ex, n, a, f):
    arr = ex.force(a[0]).cell.v
    return VecV(list(arr.cells))


@model(r'^std::slice::<impl \[.*\]>::into_vec', r'^alloc::slice::<impl \[.*\]>::into_vec')
def m_slice_into_vec(ex, n, a, f):
    b = ex.force(a[0])
    v = b.cell.v if isinstance(b, BoxV) else b
    return VecV(list(v.cells))


@model(r'^<std::boxed::Box<.*> as std::ops::Deref(Mut)?>::deref(_mut)?$', r'^<std::boxed::Box<.*> as std::convert::As(Ref|Mut)<.*>>::as_(ref|mut)$',
       r'^<std::boxed::Box<.*> as std::borrow::Borrow(Mut)?<.*>>::borrow(_mut)?$')
def m_box_deref(ex, n, a, f):
    b = ex.deref(a[0]) if isinstance(a[0], Ref) and not isinstance(ex.load_path(a[0].cell, a[0].path), BoxV) else ex.load_path(a[0].cell, a[0].path)
    if not isinstance(b, BoxV):
        raise Unsupported(f"box deref of {b!r}"[:120])
    return Ref(b.cell)


# --------------------------------------------------------------------------- Clone
@model(r' as std::clone::Clone>::clone$')
def m_clone(ex, n, a, f):
    v = a[0]
    if isinstance(v, Ref):
        v = ex.load_raw(v.cell, v.path)
    if isinstance(v, (StrRef, SliceRef)):
        return v
    return deep(v)


@model(r'^<.* as std::borrow::ToOwned>::to_owned$', r'^std::slice::<impl \[.*\]>::to_vec', r'^alloc::slice::<impl \[.*\]>::to_vec')
def m_to_owned(ex, n, a, f):
    v = a[0]
    if isinstance(v, StrRef):
        return StringV(v.chars)
    if isinstance(v, SliceRef):
        return VecV([Cell(deep(c.v)) for c in v.cells])
    if isinstance(v, Ref):
        t = ex.load_raw(v.cell, v.path)
        if isinstance(t, StringV):
            return StringV(t.chars)
        if isinstance(t, (VecV, Arr)):
            return VecV([Cell(deep(c.v)) for c in t.cells])
        return deep(t)
    raise Unsupported(f"to_owned {v!r}"[:120])


# --------------------------------------------------------------------------- integers
def _minmax(ex, a, is_min, signed, bits):
    x, y = a
    if isinstance(x, int) and isinstance(y, int):
        return min(x, y) if is_min else max(x, y)
    x = to_bv(x, bits)
    y = to_bv(y, bits)
    le = (x <= y) if signed else z3.ULE(x, y)
    return z3.If(le, x, y) if is_min else z3.If(le, y, x)


INT_T = {'i8': (8, True), 'i16': (16, True), 'i32': (32, True), 'i64': (64, True), 'i128': (128, True), 'isize': (64, True),
         'u8': (8, False), 'u16': (16, False), 'u32': (32, False), 'u64': (64, False), 'u128': (128, False), 'usize': (64, False),
         'char': (32, False)}


@model(r'^<([iu](8|16|32|64|128|size)) as std::cmp::Ord>::(min|max)$', r'^std::cmp::(min|max)::<([iu](8|16|32|64|128|size))>$',
       r'^core::cmp::impls::<impl std::cmp::Ord for ([iu](8|16|32|64|128|size))>::(min|max)$')
def m_int_minmax(ex, n, a, f):
    m = re.search(r'([iu](?:8|16|32|64|128|size))', n)
    bits, signed = INT_T[m.group(1)]
    return _minmax(ex, a, '::min' in n or 'min::<' in n, signed, bits)


@model(r'^<([iu]\d+|[iu]size|char|bool) as std::convert::(Into|From)<([iu]\d+|[iu]size|char|bool)>>::(into|from)$',
       r'^core::convert::num::<impl std::convert::From<([iu]\d+|[iu]size|char|bool)> for ([iu]\d+|[iu]size)>::from$',
       r'^core::char::convert::<impl std::convert::From<(u8|char)> for (char|u32|u64|u128)>::from$')
def m_int_from(ex, n, a, f):
    src = f['abi_args'][0]
    dst = f['abi_ret']
    return ex.cast_int(a[0], src, dst)


# --------------------------------------------------------------------------- slices and vectors
@model(r'^core::slice::<impl \[.*\]>::iter(_mut)?$')
def m_slice_iter(ex, n, a, f):
    return IterV(as_cells(ex, a[0]))


@model(r'^core::slice::<impl \[.*\]>::len$', r'^std::vec::Vec::<.*>::len$', r'^alloc::vec::Vec::<.*>::len$')
def m_len(ex, n, a, f):
    return len(as_cells(ex, a[0]))


@model(r'^core::slice::<impl \[.*\]>::is_empty$', r'^std::vec::Vec::<.*>::is_empty$')
def m_is_empty(ex, n, a, f):
    return len(as_cells(ex, a[0])) == 0


@model(r'^core::slice::<impl \[.*\]>::(first|last)(_mut)?$')
def m_first_last(ex, n, a, f):
    cells = as_cells(ex, a[0])
    rt = ret_ty(f)
    if not cells:
        return none(ex, rt)
    return some(ex, rt, Ref(cells[0] if '::first' in n else cells[-1]))


@model(r'^core::slice::<impl \[.*\]>::get(_mut)?::<usize>$', r'^core::slice::<impl \[.*\]>::get::<usize>$')
def m_slice_get(ex, n, a, f):
    cells = as_cells(ex, a[0])
    i = a[1]
    if not isinstance(i, int):
        i = ex.concretize(i, range(len(cells) + 1), 'slice.get')
    rt = ret_ty(f)
    return some(ex, rt, Ref(cells[i])) if 0 <= i < len(cells) else none(ex, rt)


@model(r'^<std::vec::Vec<.*> as std::ops::Deref(Mut)?>::deref(_mut)?$', r'^std::vec::Vec::<.*>::as_(mut_)?slice$',
       r'^<std::vec::Vec<.*> as std::convert::AsRef<\[.*\]>>::as_ref$', r'^<std::vec::Vec<.*> as std::borrow::Borrow<\[.*\]>>::borrow$')
def m_vec_deref(ex, n, a, f):
    v = ex.deref(a[0])
    if not isinstance(v, VecV):
        raise Unsupported(f"vec deref of {v!r}"[:120])
    return SliceRef(v.cells)


@model(r'^std::vec::Vec::<.*>::new$', r'^std::vec::Vec::<.*>::with_capacity$', r'^alloc::vec::Vec::<.*>::new$')
def m_vec_new(ex, n, a, f):
    return VecV([], ex.p.ty(ret_ty(f))['adt']['targs'][0])


@model(r'^std::vec::Vec::<.*>::push$', r'^std::vec::Vec::<.*>::push_mut$')
def m_vec_push(ex, n, a, f):
    v = ex.deref(a[0])
    c = Cell(a[1])
    v.cells.append(c)
    return Ref(c) if n.endswith('push_mut') else UNIT


@model(r'^std::vec::Vec::<.*>::pop$')
def m_vec_pop(ex, n, a, f):
    v = ex.deref(a[0])
    rt = ret_ty(f)
    if not v.cells:
        return none(ex, rt)
    return some(ex, rt, v.cells.pop().v)


@model(r'^std::vec::Vec::<.*>::insert$')
def m_vec_insert(ex, n, a, f):
    v = ex.deref(a[0])
    i = a[1]
    if not isinstance(i, int):
        i = ex.concretize(i, range(len(v.cells) + 2), 'vec.insert')
    if i > len(v.cells):
        raise Panic('Vec::insert index out of bounds')
    v.cells.insert(i, Cell(a[2]))
    return UNIT


@model(r'^std::vec::Vec::<.*>::remove$')
def m_vec_remove(ex, n, a, f):
    v = ex.deref(a[0])
    i = a[1]
    if not isinstance(i, int):
        i = ex.concretize(i, range(len(v.cells) + 1), 'vec.remove')
    if i >= len(v.cells):
        raise Panic('Vec::remove index out of bounds')
    return v.cells.pop(i).v


@model(r'^std::vec::Vec::<.*>::clear$')
def m_vec_clear(ex, n, a, f):
    ex.deref(a[0]).cells.clear()
    return UNIT


@model(r'^std::vec::Vec::<.*>::truncate$')
def m_vec_truncate(ex, n, a, f):
    v = ex.deref(a[0])
    k = a[1]
    if not isinstance(k, int):
        k = ex.concretize(k, range(len(v.cells) + 1), 'vec.truncate')
    del v.cells[k:]
    return UNIT


@model(r'^(core|std)::slice::<impl \[.*\]>::reverse$')
def m_slice_reverse(ex, n, a, f):
    cells = as_cells(ex, a[0])
    vals = [c.v for c in cells][::-1]
    for c, v in zip(cells, vals):
        c.v = v
    return UNIT


@model(r'^std::vec::Vec::<.*>::resize$')
def m_vec_resize(ex, n, a, f):
    v = ex.deref(a[0])
    k = a[1]
    if not isinstance(k, int):
        raise Unsupported('Vec::resize with a symbolic length')
    if k <= len(v.cells):
        del v.cells[k:]
    else:
        for _ in range(k - len(v.cells)):
            v.cells.append(Cell(deep(a[2])))
    return UNIT


@model(r'^(core|std)::slice::<impl \[.*\]>::chunks_mut$')
def m_slice_chunks_mut(ex, n, a, f):
    cells = as_cells(ex, a[0])
    k = a[1]
    if not isinstance(k, int) or k <= 0:
        raise Unsupported('chunks_mut with a symbolic or zero chunk size')
    return IterV([Cell(SliceRef(cells[i:i + k])) for i in range(0, len(cells), k)], by_value=True)


@model(r'^std::vec::Vec::<.*>::append$')
def m_vec_append(ex, n, a, f):
    v = ex.deref(a[0])
    o = ex.deref(a[1])
    v.cells.extend(o.cells)
    o.cells = []
    return UNIT


@model(r'^std::vec::Vec::<.*>::extend_from_slice$')
def m_vec_extend_from_slice(ex, n, a, f):
    v = ex.deref(a[0])
    for c in as_cells(ex, a[1]):
        v.cells.append(Cell(deep(c.v)))
    return UNIT


@model(r'^std::vec::Vec::<.*>::reserve', r'^std::vec::Vec::<.*>::shrink_to_fit')
def m_vec_reserve(ex, n, a, f):
    return UNIT


@model(r'^<std::vec::Vec<.*> as std::iter::IntoIterator>::into_iter$')
def m_vec_into_iter(ex, n, a, f):
    v = ex.force(a[0])
    return IterV(list(v.cells), by_value=True)


@model(r'^std::vec::Vec::<.*>::drain::<std::ops::RangeFull>$')
def m_vec_drain_full(ex, n, a, f):
    # v.drain(..): every element is moved into the iterator, the vector is left empty
    v = ex.force(ex.deref(a[0]))
    if not isinstance(v, VecV):
        raise Unsupported(f"drain of {v!r}"[:100])
    cells = list(v.cells)
    del v.cells[:]
    return IterV(cells, by_value=True)


@model(r'^<&(mut )?std::vec::Vec<.*> as std::iter::IntoIterator>::into_iter$', r'^<&(mut )?\[.*\] as std::iter::IntoIterator>::into_iter$')
def m_vecref_into_iter(ex, n, a, f):
    return IterV(as_cells(ex, a[0]))


@model(r'^<std::vec::Vec<.*> as std::ops::Index(Mut)?<usize>>::index(_mut)?$', r'^core::slice::index::<impl std::ops::Index(Mut)?<usize> for \[.*\]>::index(_mut)?$')
def m_index_usize(ex, n, a, f):
    cells = as_cells(ex, a[0])
    i = a[1]
    if not isinstance(i, int):
        if ex.branch(z3.UGE(i, z3.BitVecVal(len(cells), 64)), 'index-oob'):
            raise Panic('index out of bounds')
        i = ex.concretize(i, range(len(cells)), 'index')
    if i >= len(cells):
        raise Panic('index out of bounds')
    return Ref(cells[i])


def _range_bounds(ex, r, n, rname):
    """(lo, hi) of a Range*/RangeFrom/RangeTo/RangeFull/RangeInclusive value against length n"""
    p = ex.p
    nm = p.ty(r.ty)['adt']['name'].split('::')[-1] if isinstance(r, Adt) else rname
    def cz(v, lab):
        return v if isinstance(v, int) else ex.concretize(v, range(n + 2), lab)
    if nm == 'RangeFull':
        return 0, n
    if nm == 'Range':
        return cz(r.fields[0], 'range.lo'), cz(r.fields[1], 'range.hi')
    if nm == 'RangeFrom':
        return cz(r.fields[0], 'range.lo'), n
    if nm == 'RangeTo':
        return 0, cz(r.fields[0], 'range.hi')
    if nm == 'RangeInclusive':
        return cz(r.fields[0], 'range.lo'), cz(r.fields[1], 'range.hi') + 1
    if nm == 'RangeToInclusive':
        return 0, cz(r.fields[0], 'range.hi') + 1
    raise Unsupported(f"range kind {nm}")


@model(r'^(<std::vec::Vec<.*> as std::ops::Index(Mut)?<std::ops::Range.*>>::index(_mut)?|core::slice::index::<impl std::ops::Index(Mut)?<std::ops::Range.*> for \[.*\]>::index(_mut)?)$')
def m_index_range(ex, n, a, f):
    cells = as_cells(ex, a[0])
    lo, hi = _range_bounds(ex, a[1], len(cells), n)
    if lo > hi or hi > len(cells):
        raise Panic(f'slice index out of range {lo}..{hi} of {len(cells)}')
    return SliceRef(cells[lo:hi])


@model(r'^core::slice::<impl \[.*\]>::split_at(_mut)?$')
def m_split_at(ex, n, a, f):
    cells = as_cells(ex, a[0])
    i = a[1] if isinstance(a[1], int) else ex.concretize(a[1], range(len(cells) + 2), 'split_at')
    if i > len(cells):
        raise Panic('split_at out of bounds')
    return Tup([SliceRef(cells[:i]), SliceRef(cells[i:])])


@model(r'^core::slice::<impl \[.*\]>::contains$')
def m_slice_contains(ex, n, a, f):
    cells = as_cells(ex, a[0])
    x = ex.deref(a[1])
    eqi = f.get('aux', {}).get('PartialEq::eq')
    for c in cells:
        v = ex.force_cell(c)
        if isinstance(v, (int, bool)) or is_sym(v):
            r = val_eq(v, x, v.size() if is_sym(v) and not z3.is_bool(v) else (x.size() if is_sym(x) and not z3.is_bool(x) else 64))
        elif isinstance(v, (StrRef, StringV)):
            r = str_eq(ex, v.chars, x.chars)
        elif eqi:
            r = ex.call(eqi, [Ref(c), a[1]])
        else:
            raise Unsupported("slice::contains on non-scalar")
        if ex.branch(r, 'contains'):
            return True
    return False


# ---- generic iterator methods over IterV (slice::Iter, vec::IntoIter)
ITER_PAT = r'^<(std::slice::Iter(Mut)?<.*>|std::vec::IntoIter<.*>|std::array::IntoIter<.*>|std::collections::btree_(map|set)::(Iter|IterMut|IntoIter|Keys|Values|ValuesMut|IntoKeys|IntoValues)<.*>|std::collections::hash_(map|set)::(Iter|IterMut|IntoIter|Keys|Values|ValuesMut|IntoKeys|IntoValues)<.*>|std::vec::Drain<.*>|std::slice::ChunksMut<.*>) as std::iter::(Iterator|DoubleEndedIterator|ExactSizeIterator)>::'


@model(ITER_PAT + r'next$')
def m_iter_next(ex, n, a, f):
    it = get_iter(ex, a[0])
    rt = ret_ty(f)
    if it.pos < it.end:
        c = it.cells[it.pos]
        it.pos += 1
        return some(ex, rt, it.item(c))
    return none(ex, rt)


@model(ITER_PAT + r'next_back$')
def m_iter_next_back(ex, n, a, f):
    it = get_iter(ex, a[0])
    rt = ret_ty(f)
    if it.pos < it.end:
        it.end -= 1
        return some(ex, rt, it.item(it.cells[it.end]))
    return none(ex, rt)


@model(ITER_PAT + r'(len|count)$')
def m_iter_len(ex, n, a, f):
    it = ex.deref(a[0]) if isinstance(a[0], Ref) else a[0]
    return it.end - it.pos


@model(ITER_PAT + r'size_hint$')
def m_iter_size_hint(ex, n, a, f):
    it = get_iter(ex, a[0])
    k = it.end - it.pos
    rt = ret_ty(f)
    opt = ex.p.kind(rt)[1][1]
    return Tup([k, some(ex, opt, k)])


@model(ITER_PAT + r'(find|rfind)::<')
def m_iter_find(ex, n, a, f):
    it = get_iter(ex, a[0])
    rt = ret_ty(f)
    while it.pos < it.end:
        c = it.cells[it.pos]
        it.pos += 1
        item = it.item(c)
        r = ex.call_value(a[1], [Ref(Cell(item))])
        if ex.branch(r, 'find-pred'):
            return some(ex, rt, item)
    return none(ex, rt)


@model(ITER_PAT + r'find_map::<')
def m_iter_find_map(ex, n, a, f):
    it = get_iter(ex, a[0])
    rt = ret_ty(f)
    while it.pos < it.end:
        c = it.cells[it.pos]
        it.pos += 1
        r = ex.force(ex.call_value(a[1], [it.item(c)]))
        if ex.p.variant_name(r) == 'Some':
            return r
    return none(ex, rt)


@model(ITER_PAT + r'(any|all)::<')
def m_iter_any_all(ex, n, a, f):
    it = get_iter(ex, a[0])
    is_any = '>::any::<' in n
    while it.pos < it.end:
        c = it.cells[it.pos]
        it.pos += 1
        r = ex.call_value(a[1], [it.item(c)])
        if ex.branch(r, 'any-all-pred'):
            if is_any:
                return True
        elif not is_any:
            return False
    return not is_any


@model(ITER_PAT + r'(position|rposition)::<')
def m_iter_position(ex, n, a, f):
    it = get_iter(ex, a[0])
    rt = ret_ty(f)
    i = 0
    while it.pos < it.end:
        c = it.cells[it.pos]
        it.pos += 1
        r = ex.call_value(a[1], [it.item(c)])
        if ex.branch(r, 'position-pred'):
            return some(ex, rt, i)
        i += 1
    return none(ex, rt)


@model(ITER_PAT + r'fold::<')
def m_iter_fold(ex, n, a, f):
    it = ex.force(a[0])
    acc = a[1]
    while it.pos < it.end:
        c = it.cells[it.pos]
        it.pos += 1
        acc = ex.call_value(a[2], [acc, it.item(c)])
    return acc


@model(ITER_PAT + r'for_each::<')
def m_iter_for_each(ex, n, a, f):
    it = ex.force(a[0])
    while it.pos < it.end:
        c = it.cells[it.pos]
        it.pos += 1
        ex.call_value(a[1], [it.item(c)])
    return UNIT


@model(ITER_PAT + r'(nth|advance_by)$')
def m_iter_nth(ex, n, a, f):
    it = get_iter(ex, a[0])
    k = a[1] if isinstance(a[1], int) else ex.concretize(a[1], range(it.end - it.pos + 2), 'nth')
    rt = ret_ty(f)
    if n.endswith('advance_by'):
        raise Unsupported('advance_by')
    it.pos = min(it.end, it.pos + k)
    if it.pos < it.end:
        c = it.cells[it.pos]
        it.pos += 1
        return some(ex, rt, it.item(c))
    return none(ex, rt)


@model(ITER_PAT + r'last$')
def m_iter_last(ex, n, a, f):
    it = ex.force(a[0])
    rt = ret_ty(f)
    if it.pos < it.end:
        return some(ex, rt, it.item(it.cells[it.end - 1]))
    return none(ex, rt)


@model(r'^std::slice::Iter::<.*>::as_slice$', r'^std::vec::IntoIter::<.*>::as_slice$')
def m_iter_as_slice(ex, n, a, f):
    it = get_iter(ex, a[0])
    return SliceRef(it.cells[it.pos:it.end])


# ---- collecting: needs the iterator's `next` instance (driver aux)
def drain(ex, f, itv, key='Iterator::next'):
    """yield the items of an arbitrary iterator value by calling its real `next`"""
    if isinstance(itv, IterV):
        while itv.pos < itv.end:
            c = itv.cells[itv.pos]
            itv.pos += 1
            yield itv.item(c)
        return
    if isinstance(itv, (Arr, VecV)):
        for c in list(itv.cells):
            yield c.v
        return
    if isinstance(itv, Ref):
        tgt = ex.deref(itv)
        if isinstance(tgt, (Arr, VecV, SliceRef)):
            for c in list(tgt.cells):
                yield Ref(c)
            return
    if isinstance(itv, SliceRef):
        for c in list(itv.cells):
            yield Ref(c)
        return
    nxt = f.get('aux', {}).get(key)
    if not nxt:
        raise Unsupported(f"no aux {key} for {f['name']}")
    cell = Cell(itv)
    while True:
        r = ex.force(ex.call(nxt, [Ref(cell)]))
        if ex.p.variant_name(r) == 'None':
            return
        yield r.fields[0]


@model(r'^<std::vec::Vec<.*> as std::iter::FromIterator<.*>>::from_iter::<', r'^<std::vec::Vec<.*> as std::iter::traits::collect::FromIterator<.*>>::from_iter::<')
def m_vec_from_iter(ex, n, a, f):
    it = ex.force(a[0])
    if isinstance(it, VecV):
        return it
    return VecV([Cell(x) for x in drain(ex, f, it)], ex.p.ty(ret_ty(f))['adt']['targs'][0])


@model(r'^<std::vec::Vec<.*> as std::iter::Extend<.*>>::extend::<')
def m_vec_extend(ex, n, a, f):
    v = ex.deref(a[0])
    it = ex.force(a[1])
    if isinstance(it, VecV):
        it = IterV(list(it.cells), by_value=True)
    for x in drain(ex, f, it):
        if isinstance(x, Ref) and 'Extend<&' in n:
            x = deep(ex.load_raw(x.cell, x.path))
        v.cells.append(Cell(x))
    return UNIT


# --------------------------------------------------------------------------- fmt
class FmtArg:
    __slots__ = ('kind', 'ref', 'ty', 'fmt_inst')

    def __init__(self, kind, ref, ty, fmt_inst):
        self.kind = kind
        self.ref = ref
        self.ty = ty
        self.fmt_inst = fmt_inst


class FmtArgs:
    __slots__ = ('pieces',)   # list of str | ('arg', index, FmtArg)

    def __init__(self, pieces):
        self.pieces = pieces

    def describe(self):
        return ''.join(p if isinstance(p, str) else '{}' for p in self.pieces)


class FormatterV:
    __slots__ = ('out', 'alternate')

    def __init__(self):
        self.out = []
        self.alternate = False


@model(r'^core::fmt::rt::Argument::<\'_>::new_(display|debug|lower_hex|upper_hex|octal|binary|lower_exp|upper_exp|pointer)::<')
def m_fmt_argument(ex, n, a, f):
    kind = re.search(r'new_(\w+)::<', n).group(1)
    ts = [t for t in f.get('targs', []) if t is not None]
    T = ts[0] if ts else None
    fi = None
    aux = f.get('aux', {})
    fi = aux.get('fmt')
    return FmtArg(kind, a[0], T, fi)


@model(r'^core::fmt::rt::<impl std::fmt::Arguments<\'_>>::new_(const|v1|v1_formatted)', r'^std::fmt::Arguments::<\'_>::new_(const|v1)')
def m_fmt_arguments_old(ex, n, a, f):
    pieces = [pystr(ex.force_cell(c)) for c in as_cells(ex, a[0])]
    args = [ex.force_cell(c) for c in as_cells(ex, a[1])] if len(a) > 1 else []
    out = []
    for i, p in enumerate(pieces):
        if p:
            out.append(p)
        if i < len(args):
            out.append(('arg', i, args[i]))
    return FmtArgs(out)


@model(r'^std::fmt::Arguments::<\'_>::from_str$', r'^std::fmt::Arguments::<\'_>::from_str_nonconst$')
def m_fmt_from_str(ex, n, a, f):
    return FmtArgs([pystr(a[0])])


@model(r'^std::fmt::Arguments::<\'_>::new::<')
def m_fmt_arguments_new(ex, n, a, f):
    tmpl = [ex.force_cell(c) for c in as_cells(ex, a[0])]
    args = [ex.force_cell(c) for c in as_cells(ex, a[1])]
    out = []
    i = 0
    nxt = 0
    while True:
        b = tmpl[i]
        i += 1
        if b == 0:
            break
        if b < 0x80:
            out.append(bytes(tmpl[i:i + b]).decode('utf-8'))
            i += b
        elif b == 0x80:
            ln = tmpl[i] | (tmpl[i + 1] << 8)
            i += 2
            out.append(bytes(tmpl[i:i + ln]).decode('utf-8'))
            i += ln
        elif b & 0xC0 == 0xC0:
            flags = None
            if b & 1:
                flags = int.from_bytes(bytes(tmpl[i:i + 4]), 'little')
                i += 4
            if b & 2:
                i += 2
            if b & 4:
                i += 2
            idx = nxt
            if b & 8:
                idx = tmpl[i] | (tmpl[i + 1] << 8)
                i += 2
            nxt = idx + 1
            out.append(('arg', idx, args[idx], flags))
        else:
            raise Unsupported(f"fmt template byte {b:#x}")
    return FmtArgs(out)


def render_scalar_display(ex, v, tid):
    """Display of a scalar / string value -> list of chars/Frags, or None"""
    k = ex.p.kind(tid)
    if k[0] == 'int':
        if isinstance(v, int):
            return [ord(c) for c in str(v)]
        return [Frag('int', (v, k[1], k[2]))]
    if k[0] == 'bool':
        if isinstance(v, bool):
            return [ord(c) for c in ('true' if v else 'false')]
        return [Frag('bool', v)]
    if k[0] == 'char':
        return [v]
    return None


def render_arg(ex, arg, out, flags=None):
    """append the rendering of one FmtArg to out (list of chars / Frags)"""
    tid = arg.ty
    ref = arg.ref
    # peel references: Display/Debug of &T = that of T
    while True:
        k = ex.p.kind(tid)
        if k[0] == 'ref':
            tid = k[1]
            ref = ex.load_path(ref.cell, ref.path) if isinstance(ref, Ref) else ref
            continue
        break
    k = ex.p.kind(tid)
    if k[0] == 'str' or isinstance(ref, StrRef):
        chars = ref.chars if isinstance(ref, StrRef) else as_str(ex, ref)
        if arg.kind == 'debug':
            out.append(ord('"'))
            out.extend(chars)
            out.append(ord('"'))
        else:
            out.extend(chars)
        return
    v = ex.deref(ref) if isinstance(ref, Ref) else ref
    if isinstance(v, StringV):
        if arg.kind == 'debug':
            out.append(ord('"'))
            out.extend(v.chars)
            out.append(ord('"'))
        else:
            out.extend(v.chars)
        return
    if arg.kind in ('display', 'debug'):
        r = render_scalar_display(ex, v, tid)
        if r is not None:
            if arg.kind == 'debug' and k[0] == 'char':
                r = [ord("'")] + r + [ord("'")]
            out.extend(r)
            return
    if arg.kind in ('upper_hex', 'lower_hex') and k[0] in ('int', 'char') and isinstance(v, int):
        s = ('%X' if arg.kind == 'upper_hex' else '%x') % (v & ((1 << (k[1] if k[0] == 'int' else 32)) - 1))
        out.extend(ord(c) for c in s)
        return
    if arg.kind == 'debug':
        hook = DEBUG_HOOK[0]
        if hook is not None:
            r = hook(ex, v, tid)
            if r is not None:
                out.extend(r)
                return
        out.append(Frag('debug', (ex.p.ty(tid)['str'], v)))
        return
    if arg.kind == 'display':
        # run the real Display impl against a collecting formatter
        fi = arg.fmt_inst
        if fi is not None:
            fm = FormatterV()
            # the Display instance belongs to the argument's own type (possibly &T): hand it the unpeeled reference
            r0 = arg.ref
            r = ex.call(fi, [r0 if isinstance(r0, Ref) else Ref(Cell(r0)), Ref(Cell(fm))])
            out.extend(fm.out)
            return
        out.append(Frag('display', (ex.p.ty(tid)['str'], v)))
        return
    out.append(Frag(arg.kind, v))


DEBUG_HOOK = [None]


def render(ex, fa):
    out = []
    for p in fa.pieces:
        if isinstance(p, str):
            out.extend(ord(c) for c in p)
        else:
            render_arg(ex, p[2], out, p[3] if len(p) > 3 else None)
    return out


@model(r'^(std|alloc)::fmt::format$', r'^std::fmt::format::format_inner$')
def m_fmt_format(ex, n, a, f):
    return StringV(render(ex, a[0]))


@model(r'^std::fmt::Formatter::<\'_>::write_str$', r'^<std::fmt::Formatter<\'_> as std::fmt::Write>::write_str$')
def m_formatter_write_str(ex, n, a, f):
    fm = ex.deref(a[0])
    fm.out.extend(as_str(ex, a[1]))
    return Adt(ret_ty(f), ex.p.variant_index(ret_ty(f), 'Ok'), [UNIT])


@model(r'^std::fmt::Formatter::<\'_>::write_fmt$', r'^<std::fmt::Formatter<\'_> as std::fmt::Write>::write_fmt$', r'^std::fmt::write$')
def m_formatter_write_fmt(ex, n, a, f):
    fm = ex.deref(a[0])
    if isinstance(fm, FormatterV):
        fm.out.extend(render(ex, a[-1]))
    elif isinstance(fm, StringV):
        fm.chars.extend(render(ex, a[-1]))
    else:
        raise Unsupported(f"write_fmt into {fm!r}"[:100])
    return Adt(ret_ty(f), ex.p.variant_index(ret_ty(f), 'Ok'), [UNIT])


@model(r'^std::fmt::Formatter::<\'_>::(pad|write_char)$')
def m_formatter_pad(ex, n, a, f):
    fm = ex.deref(a[0])
    if n.endswith('write_char'):
        fm.out.append(a[1])
    else:
        fm.out.extend(as_str(ex, a[1]))
    return Adt(ret_ty(f), ex.p.variant_index(ret_ty(f), 'Ok'), [UNIT])


@model(r'^std::fmt::Formatter::<\'_>::new$', r'^core::fmt::Formatter::<\'_>::new$')
def m_formatter_new(ex, n, a, f):
    """Formatter over a String buffer (ToString::to_string): output goes straight into the String's characters"""
    buf = ex.deref(a[0])
    if not isinstance(buf, StringV):
        raise Unsupported(f"Formatter::new over {buf!r}"[:100])
    fm = FormatterV()
    fm.out = buf.chars
    return fm


@model(r'^std::fmt::Formatter::<\'_>::alternate$')
def m_formatter_alternate(ex, n, a, f):
    return False


@model(r'^<.* as std::fmt::Debug>::fmt$', r'^std::fmt::Formatter::<\'_>::debug_')
def m_debug_fmt(ex, n, a, f):
    fm = ex.deref(a[0]) if '::debug_' in n else ex.deref(a[1])
    if isinstance(fm, FormatterV):
        fm.out.append(Frag('debug', n))
    return Adt(ret_ty(f), ex.p.variant_index(ret_ty(f), 'Ok'), [UNIT])


@model(r'^<(str|char|bool|[iu]\d+|[iu]size|std::string::String) as std::fmt::Display>::fmt$', r'^core::fmt::num::imp::<impl std::fmt::Display for ([iu]\d+|[iu]size)>::fmt$',
       r'^<&(str|char|std::string::String) as std::fmt::Display>::fmt$')
def m_scalar_display(ex, n, a, f):
    fm = ex.deref(a[1])
    tid = ex.p.kind(f['abi_args'][0])[1]
    render_arg(ex, FmtArg('display', a[0], tid, None), fm.out)
    return Adt(ret_ty(f), ex.p.variant_index(ret_ty(f), 'Ok'), [UNIT])


@model(r'^std::io::_e?print$', r'^std::io::stdio::_e?print$')
def m_print(ex, n, a, f):
    ex.io_trace.append(('print', n.split('::')[-1], StringV(render(ex, a[0])) if isinstance(a[0], FmtArgs) else a[0]))
    return UNIT


# --------------------------------------------------------------------------- strings (first part: what IR-level kernels need)
def str_eq(ex, a, b):
    if len(a) != len(b):
        # byte lengths differ unless multi-byte symbolic chars (excluded: symbolic chars are ASCII)
        if is_conc_chars(a) and is_conc_chars(b):
            return False
        if str_bytelen_safe(a) != str_bytelen_safe(b):
            return False
    if any(isinstance(c, Frag) for c in a) or any(isinstance(c, Frag) for c in b):
        raise Unsupported("string comparison with opaque fragments")
    if len(a) != len(b):
        return False
    r = True
    for x, y in zip(a, b):
        r = bool_and(r, val_eq(x, y))
        if r is False:
            return False
    return r


def str_bytelen_safe(chars):
    try:
        return str_bytelen(chars)
    except Unsupported:
        return -1


@model(r'^<std::string::String as std::ops::Deref(Mut)?>::deref(_mut)?$', r'^std::string::String::as_(mut_)?str$', r'^<std::string::String as std::convert::AsRef<str>>::as_ref$',
       r'^<std::string::String as std::borrow::Borrow<str>>::borrow$')
def m_string_deref(ex, n, a, f):
    s = ex.deref(a[0])
    if isinstance(s, Opaque):
        return s
    return StrRef(s.chars)


@model(r'^std::string::String::new$')
def m_string_new(ex, n, a, f):
    return StringV(())


@model(r'^<std::string::String as std::convert::From<&(mut )?str>>::from$', r'^<str as std::string::ToString>::to_string$', r'^<str as std::borrow::ToOwned>::to_owned$',
       r'^std::str::<impl str>::to_owned$', r'^<&str as std::string::ToString>::to_string$', r'^alloc::str::<impl str>::to_string$',
       r'^<std::string::String as std::convert::From<&std::string::String>>::from$', r'^<str as std::string::SpecToString>::spec_to_string$',
       r'^<std::string::String as std::string::ToString>::to_string$', r'^<str as alloc::string::SpecToString>::spec_to_string$',
       r'^std::str::<impl str>::to_string$', r'^alloc::str::<impl str>::to_owned$', r'^<&str as std::convert::Into<std::string::String>>::into$',
       r'^std::string::String::from_str$', r'^(std|alloc)::str::<impl std::borrow::ToOwned for str>::to_owned$')
def m_string_from_str(ex, n, a, f):
    return StringV(as_str(ex, a[0]))


@model(r'^<std::string::String as std::cmp::PartialEq(<(str|&str|std::string::String)>)?>::(eq|ne)$', r'^<str as std::cmp::PartialEq>::(eq|ne)$',
       r'^<&str as std::cmp::PartialEq<std::string::String>>::(eq|ne)$', r'^<str as std::cmp::PartialEq<std::string::String>>::(eq|ne)$',
       r'^core::str::traits::<impl std::cmp::PartialEq for str>::(eq|ne)$', r'^<&str as std::cmp::PartialEq>::(eq|ne)$',
       r'^<std::string::String as std::cmp::PartialEq<&str>>::(eq|ne)$', r'^<&std::string::String as std::cmp::PartialEq>::(eq|ne)$',
       r'^<&&str as std::cmp::PartialEq>::(eq|ne)$', r'^alloc::string::<impl std::cmp::PartialEq<(&str|str|std::string::String)> for (std::string::String|&str|str)>::(eq|ne)$')
def m_str_eq(ex, n, a, f):
    x = ex.deref(a[0])
    y = ex.deref(a[1])
    if isinstance(x, Opaque) or isinstance(y, Opaque):
        r = opaque_str_eq(ex, x, y)
    else:
        r = str_eq(ex, x.chars, y.chars)
    return bool_not(r) if n.endswith('::ne') else r


def _cow_chars(ex, v):
    v = ex.deref(v) if isinstance(v, Ref) else v
    while isinstance(v, Ref):
        v = ex.deref(v)
    if isinstance(v, Adt):          # Cow::Borrowed(&str) | Cow::Owned(String)
        v = ex.force(v.fields[0])
        while isinstance(v, Ref):
            v = ex.deref(v)
    if isinstance(v, (StrRef, StringV)):
        return v.chars
    raise Unsupported(f"Cow<str> comparison on {v!r}"[:120])


@model(r"^(std|alloc)::string::<impl std::cmp::PartialEq<(&(\'\w+ )?str|str|std::string::String)> for std::borrow::Cow<'_, str>>::(eq|ne)$",
       r"^(std|alloc)::string::<impl std::cmp::PartialEq<std::borrow::Cow<'_, str>> for (&(\'\w+ )?str|str|std::string::String)>::(eq|ne)$",
       r"^<std::borrow::Cow<'_, str> as std::cmp::PartialEq<(&str|str|std::string::String)>>::(eq|ne)$",
       r"^<(&str|str|std::string::String) as std::cmp::PartialEq<std::borrow::Cow<'_, str>>>::(eq|ne)$")
def m_cow_str_eq(ex, n, a, f):
    r = str_eq(ex, _cow_chars(ex, a[0]), _cow_chars(ex, a[1]))
    return bool_not(r) if n.endswith('::ne') else r


def opaque_str_eq(ex, x, y):
    """equality of opaque symbolic strings: an uninterpreted-sort comparison"""
    tx = opaque_str_term(ex, x)
    ty = opaque_str_term(ex, y)
    return tx == ty


STR_SORT = z3.DeclareSort('OpaqueStr')


def opaque_str_term(ex, v):
    if isinstance(v, Opaque):
        return z3.Const('str!' + v.what, STR_SORT)
    return z3.Const('strlit!' + chars_repr(v.chars), STR_SORT)


@model(r'^std::string::String::len$', r'^core::str::<impl str>::len$')
def m_str_len(ex, n, a, f):
    return str_bytelen(as_str(ex, a[0]))


@model(r'^std::string::String::is_empty$', r'^core::str::<impl str>::is_empty$')
def m_str_is_empty(ex, n, a, f):
    return len(as_str(ex, a[0])) == 0


@model(r'^std::string::String::push_str$', r'^<std::string::String as std::ops::AddAssign<&str>>::add_assign$', r'^<std::string::String as std::fmt::Write>::write_str$')
def m_string_push_str(ex, n, a, f):
    s = ex.deref(a[0])
    s.chars.extend(as_str(ex, a[1]))
    if n.endswith('write_str'):
        return Adt(ret_ty(f), ex.p.variant_index(ret_ty(f), 'Ok'), [UNIT])
    return UNIT


@model(r'^std::string::String::push$', r'^<std::string::String as std::fmt::Write>::write_char$')
def m_string_push(ex, n, a, f):
    s = ex.deref(a[0])
    s.chars.append(a[1])
    if n.endswith('write_char'):
        return Adt(ret_ty(f), ex.p.variant_index(ret_ty(f), 'Ok'), [UNIT])
    return UNIT


@model(r'^<std::string::String as std::ops::Add<&str>>::add$')
def m_string_add(ex, n, a, f):
    s = ex.force(a[0])
    return StringV(list(s.chars) + list(as_str(ex, a[1])))


@model(r'^<([iu]\d+|[iu]size|char|bool) as std::string::ToString>::to_string$', r'^<([iu]\d+|[iu]size|char|bool) as (alloc|std)::string::SpecToString>::spec_to_string$')
def m_scalar_to_string(ex, n, a, f):
    tid = ex.p.kind(f['abi_args'][0])[1]
    out = []
    render_arg(ex, FmtArg('display', a[0], tid, None), out)
    return StringV(out)


@model(r"^<std::borrow::Cow<'_, str> as (alloc|std)::string::SpecToString>::spec_to_string$", r"^<std::borrow::Cow<'_, str> as std::string::ToString>::to_string$")
def m_cow_to_string(ex, n, a, f):
    return StringV(list(_cow_chars(ex, a[0])))


@model(r'^<.* as (alloc|std)::string::SpecToString>::spec_to_string$')
def m_generic_to_string(ex, n, a, f):
    """ToString through the type's real Display impl (the body builds a Formatter over a String by raw aggregates)"""
    for c in f.get('callees', {}).values():
        if c['name'].endswith('std::fmt::Display>::fmt'):
            fm = FormatterV()
            ex.call(c['inst'], [a[0], Ref(Cell(fm))])
            return StringV(list(fm.out))
    raise Unsupported('spec_to_string without Display callee: ' + n[:80])


# --------------------------------------------------------------------------- Rc / RefCell
class RcV:
    __slots__ = ('cell',)

    def __init__(self, cell):
        self.cell = cell

    def __repr__(self):
        return f"Rc({self.cell.v!r})"


class RefCellV:
    __slots__ = ('cell',)

    def __init__(self, cell):
        self.cell = cell

    def __repr__(self):
        return f"RefCell({self.cell.v!r})"


class BorrowV:
    """cell::Ref / cell::RefMut"""
    __slots__ = ('cell',)

    def __init__(self, cell):
        self.cell = cell


def mk_rc(ex, v):
    return RcV(Cell(v))


def mk_refcell(ex, tid, v):
    return RefCellV(Cell(v))


def deref_of(ex, v):
    if isinstance(v, (RcV, BorrowV)):
        return (v.cell, ())
    return NotImplemented




@model(r'^<std::rc::Rc<.*> as std::clone::Clone>::clone$')
def m_rc_clone(ex, n, a, f):
    return ex.deref(a[0]) if not isinstance(a[0], RcV) else a[0]


REGISTRY.insert(0, REGISTRY.pop())   # before the generic Clone model


@model(r'^<std::rc::Rc<.*> as std::ops::Deref>::deref$', r'^<std::rc::Rc<.*> as std::convert::AsRef<.*>>::as_ref$', r'^<std::rc::Rc<.*> as std::borrow::Borrow<.*>>::borrow$')
def m_rc_deref(ex, n, a, f):
    r = ex.deref(a[0])
    return Ref(r.cell)


class AddrPtr:
    """raw pointer to a modelled heap allocation: only its ADDRESS can be observed - an arbitrary non-zero 64-bit value, the same
    for the same allocation and different for different ones (nothing else is known about where an allocator places things)"""
    __slots__ = ('term', 'cell')

    def __init__(self, term, cell):
        self.term, self.cell = term, cell


@model(r'^std::rc::Rc::<.*>::as_ptr$')
def m_rc_as_ptr(ex, n, a, f):
    rc = a[0] if isinstance(a[0], RcV) else ex.deref(a[0])
    if not isinstance(rc, RcV):
        raise Unsupported(f"Rc::as_ptr of {rc!r}"[:100])
    tab = ex.ghost.setdefault('alloc_addr', {})
    ent = tab.get(id(rc.cell))
    if ent is None:
        t = z3.BitVec(f"addr{len(tab)}", 64)
        ex.assume(t != 0)
        for other, _ in tab.values():
            ex.assume(t != other)
        ent = tab[id(rc.cell)] = (t, rc.cell)     # the cell is kept alive so that its id is not reused
    return AddrPtr(ent[0], rc.cell)


@model(r'^std::rc::Rc::<.*>::new$')
def m_rc_new(ex, n, a, f):
    return RcV(Cell(a[0]))


@model(r'^std::cell::RefCell::<.*>::new$')
def m_refcell_new(ex, n, a, f):
    return RefCellV(Cell(a[0]))


@model(r'^std::cell::RefCell::<.*>::(borrow|borrow_mut|try_borrow|try_borrow_mut)$')
def m_refcell_borrow(ex, n, a, f):
    rc = ex.deref(a[0])
    if not isinstance(rc, RefCellV):
        raise Unsupported(f"borrow of {rc!r}"[:100])
    b = BorrowV(rc.cell)
    if '::try_' in n:
        rt = ret_ty(f)
        return Adt(rt, ex.p.variant_index(rt, 'Ok'), [b])
    return b


@model(r'^<std::cell::Ref(Mut)?<\'_, .*> as std::ops::Deref(Mut)?>::deref(_mut)?$')
def m_borrow_deref(ex, n, a, f):
    b = ex.deref(a[0])
    return Ref(b.cell)


@model(r'^std::cell::RefCell::<.*>::into_inner$')
def m_refcell_into_inner(ex, n, a, f):
    return ex.force(a[0]).cell.v


@model(r'^<([iu]\d+|[iu]size) as num::FromPrimitive>::from_([iu]\d+|[iu]size)$', r'^<([iu]\d+|[iu]size) as num_traits::FromPrimitive>::from_([iu]\d+|[iu]size)$')
def m_from_primitive(ex, n, a, f):
    src = f['abi_args'][0]
    rt = ret_ty(f)
    dst = ex.p.ty(rt)['adt']['targs'][0]
    sb, ss = ex.int_info(src)
    db, ds = ex.int_info(dst)
    v = a[0]
    lo, hi = (-(1 << (db - 1)), (1 << (db - 1)) - 1) if ds else (0, (1 << db) - 1)
    if isinstance(v, int):
        return some(ex, rt, v) if lo <= v <= hi else none(ex, rt)
    # fits?
    wide = max(sb, db) + 1
    x = z3.SignExt(wide - sb, v) if ss else z3.ZeroExt(wide - sb, v)
    ok = z3.And(x >= z3.BitVecVal(lo, wide), x <= z3.BitVecVal(hi, wide))
    if ex.branch(ok, 'from_primitive'):
        return some(ex, rt, ex.cast_int(v, src, dst))
    return none(ex, rt)


@model(ITER_PAT + r'(try_fold|try_rfold)::<')
def m_iter_try_fold(ex, n, a, f):
    it = get_iter(ex, a[0])
    aux = f.get('aux', {})
    br, fo, fr = aux.get('Try::branch'), aux.get('Try::from_output'), aux.get('FromResidual::from_residual')
    if not (br and fo and fr):
        raise Unsupported(f"try_fold without Try aux: {n[:100]}")
    acc = a[1]
    back = 'try_rfold' in n
    while it.pos < it.end:
        if back:
            it.end -= 1
            c = it.cells[it.end]
        else:
            c = it.cells[it.pos]
            it.pos += 1
        r = ex.call_value(a[2], [acc, it.item(c)])
        cf = ex.force(ex.call(br, [r]))
        if ex.p.variant_name(cf) == 'Continue':
            acc = cf.fields[0]
        else:
            return ex.call(fr, [cf.fields[0]])
    return ex.call(fo, [acc])


@model(r'^std::array::iter::<impl std::iter::IntoIterator for \[.*\]>::into_iter$', r'^core::array::iter::<impl std::iter::IntoIterator for \[.*\]>::into_iter$')
def m_array_into_iter(ex, n, a, f):
    arr = ex.force(a[0])
    return IterV(list(arr.cells), by_value=True)


@model(r'^core::slice::iter::<impl std::iter::IntoIterator for &(mut )?\[.*\]>::into_iter$', r'^core::array::<impl std::iter::IntoIterator for &(mut )?\[.*\]>::into_iter$',
       r'^std::array::<impl std::iter::IntoIterator for &(mut )?\[.*\]>::into_iter$')
def m_sliceref_into_iter(ex, n, a, f):
    return IterV(as_cells(ex, a[0]))


@model(r' as std::slice::<impl \[T\]>::to_vec_in::ConvertVec>::to_vec::<')
def m_convert_vec(ex, n, a, f):
    return VecV([Cell(deep(ex.force_cell(c) if False else c.v)) for c in as_cells(ex, a[0])])


@model(r'^std::slice::<impl \[.*\]>::to_vec(_in)?(::<.*>)?$', r'^alloc::slice::<impl \[.*\]>::to_vec(_in)?(::<.*>)?$')
def m_slice_to_vec(ex, n, a, f):
    return VecV([Cell(deep(c.v)) for c in as_cells(ex, a[0])])


# --------------------------------------------------------------------------- BTreeMap / BTreeSet (concrete keys)
class BTreeMapV:
    __slots__ = ('entries',)   # sorted list of [sortkey, keyvalue, Cell(value)]

    def __init__(self, entries=()):
        self.entries = list(entries)

    def __repr__(self):
        return f"BTreeMap({len(self.entries)} entries)"


class HashMapV(BTreeMapV):
    """HashMap / HashSet: same abstract container; the ITERATION ORDER is arbitrary (std seeds SipHash with per-thread
    random keys): every iteration picks one of the n! orders by a nondeterministic choice of the executor"""
    __slots__ = ()

    def __repr__(self):
        return f"HashMap({len(self.entries)} entries)"


class SymOrd:
    """a symbolic ADDRESS inside the sort key of an ordered container: every comparison python makes while it keeps the container
    sorted is a decision of the executor (the path forks into the possible orders)"""
    __slots__ = ('ex', 'term')

    def __init__(self, ex, term):
        self.ex, self.term = ex, term

    def _o(self, o):
        return o.term if isinstance(o, SymOrd) else z3.BitVecVal(o, self.term.size())

    def __eq__(self, o):
        return self.ex.branch(self.term == self._o(o), 'ordered-container-address-eq')

    def __ne__(self, o):
        return not self.__eq__(o)

    def __lt__(self, o):
        return self.ex.branch(z3.ULT(self.term, self._o(o)), 'ordered-container-address-lt')

    def __gt__(self, o):
        return self.ex.branch(z3.UGT(self.term, self._o(o)), 'ordered-container-address-gt')

    def __le__(self, o):
        return not self.__gt__(o)

    def __ge__(self, o):
        return not self.__lt__(o)

    __hash__ = None


def sort_key(ex, k):
    k = ex.deref(k) if isinstance(k, Ref) else k
    if isinstance(k, bool):
        return (0, int(k))
    if isinstance(k, int):
        return (0, k)
    if z3.is_bv(k) and 'addr' in str(k):
        return (0, SymOrd(ex, k))
    if isinstance(k, (StringV, StrRef)):
        return (1, ''.join(map(chr, k.chars)).encode()) if is_conc_chars(k.chars) else _symkey()
    if isinstance(k, Tup):
        return (2, tuple(sort_key(ex, x) for x in k.fields))
    _symkey()


def _symkey():
    raise Unsupported("BTreeMap/BTreeSet with a symbolic or structured key")


def mk_btreemap(ex, pairs):
    m = BTreeMapV()
    for k, v in pairs:
        bt_insert(ex, m, k, v)
    return m


def bt_find(m, sk):
    import bisect
    keys = [e[0] for e in m.entries]
    i = bisect.bisect_left(keys, sk)
    return i, (i < len(keys) and keys[i] == sk)


def bt_insert(ex, m, k, v):
    kk = ex.deref(k) if isinstance(k, Ref) else k
    if isinstance(kk, (StringV, StrRef)) and not is_conc_chars(kk.chars):
        # symbolic string key: decided by equality with the existing keys (fork); the position of a new key in the
        # order is unknown - the map may afterwards only be used for membership / length (iteration is refused)
        for e in m.entries:
            ek = e[1]
            if isinstance(ek, (StringV, StrRef)) and ex.branch(str_eq(ex, ek.chars, kk.chars), 'btree-symbolic-key-eq'):
                old = e[2].v
                e[2].v = v
                return old
        m.entries.append([('sym', len(m.entries)), kk, Cell(v)])
        return None
    sk = sort_key(ex, k)
    i, found = bt_find(m, sk)
    if found:
        old = m.entries[i][2].v
        m.entries[i][2].v = v
        return old
    m.entries.insert(i, [sk, k, Cell(v)])
    return None


_old_deep_extra2 = deep_extra


def deep_extra(v, deep):
    if isinstance(v, BTreeMapV):
        return type(v)([[e[0], e[1], Cell(deep(e[2].v))] for e in v.entries])
    if isinstance(v, RcV):
        return v
    return _old_deep_extra2(v, deep)


@model(r'^std::collections::BTree(Map|Set)::<.*>::new$', r'^<std::collections::BTree(Map|Set)<.*> as std::default::Default>::default$')
def m_bt_new(ex, n, a, f):
    return BTreeMapV()


@model(r'^std::collections::BTreeMap::<.*>::insert$')
def m_bt_insert(ex, n, a, f):
    m = ex.deref(a[0])
    old = bt_insert(ex, m, a[1], a[2])
    rt = ret_ty(f)
    return none(ex, rt) if old is None else some(ex, rt, old)


@model(r'^std::collections::BTreeSet::<.*>::insert$')
def m_bts_insert(ex, n, a, f):
    m = ex.deref(a[0])
    sk = sort_key(ex, a[1])
    i, found = bt_find(m, sk)
    if found:
        return False
    m.entries.insert(i, [sk, a[1], Cell(UNIT)])
    return True


# HashSet: membership / insertion only (iteration order is randomised in the real type and refused here)
@model(r'^std::collections::HashSet::<.*>::new$', r'^<std::collections::HashSet<.*> as std::default::Default>::default$')
def m_hs_new(ex, n, a, f):
    return HashMapV()


@model(r'^std::collections::HashSet::<.*>::insert$')
def m_hs_insert(ex, n, a, f):
    return m_bts_insert(ex, n, a, f)


@model(r'^std::collections::HashSet::<.*>::contains::<')
def m_hs_contains(ex, n, a, f):
    m = ex.deref(a[0])
    return bt_find(m, sort_key(ex, a[1]))[1]


@model(r'^std::collections::BTreeMap::<.*>::(get|get_mut)::<', r'^std::collections::BTreeMap::<.*>::get_key_value::<')
def m_bt_get(ex, n, a, f):
    m = ex.deref(a[0])
    i, found = bt_find(m, sort_key(ex, a[1]))
    rt = ret_ty(f)
    if not found:
        return none(ex, rt)
    if 'get_key_value' in n:
        return some(ex, rt, Tup([Ref(Cell(m.entries[i][1])), Ref(m.entries[i][2])]))
    return some(ex, rt, Ref(m.entries[i][2]))


@model(r'^std::collections::BTree(Map|Set)::<.*>::(contains_key|contains)::<')
def m_bt_contains(ex, n, a, f):
    m = ex.deref(a[0])
    return bt_find(m, sort_key(ex, a[1]))[1]


@model(r'^std::collections::BTreeMap::<.*>::remove::<')
def m_bt_remove(ex, n, a, f):
    m = ex.deref(a[0])
    i, found = bt_find(m, sort_key(ex, a[1]))
    rt = ret_ty(f)
    if not found:
        return none(ex, rt)
    return some(ex, rt, m.entries.pop(i)[2].v)


@model(r'^std::collections::BTreeMap::<.*>::remove_entry::<')
def m_bt_remove_entry(ex, n, a, f):
    m = ex.deref(a[0])
    i, found = bt_find(m, sort_key(ex, a[1]))
    rt = ret_ty(f)
    if not found:
        return none(ex, rt)
    e = m.entries.pop(i)
    return some(ex, rt, Tup([e[1], e[2].v]))


@model(r'^std::collections::BTree(Map|Set)::<.*>::contains(_key)?::<')
def m_bt_contains(ex, n, a, f):
    return bt_find(ex.deref(a[0]), sort_key(ex, a[1]))[1]


@model(r'^std::collections::BTree(Map|Set)::<.*>::len$')
def m_bt_len(ex, n, a, f):
    return len(ex.deref(a[0]).entries)


@model(r'^std::collections::BTree(Map|Set)::<.*>::is_empty$')
def m_bt_is_empty(ex, n, a, f):
    return len(ex.deref(a[0]).entries) == 0


@model(r'^std::collections::BTree(Map|Set)::<.*>::append$')
def m_bt_append(ex, n, a, f):
    m = ex.deref(a[0])
    o = ex.deref(a[1])
    for sk, k, c in o.entries:
        i, found = bt_find(m, sk)
        if found:
            m.entries[i] = [sk, k, c]
        else:
            m.entries.insert(i, [sk, k, c])
    o.entries = []
    return UNIT


@model(r'^std::collections::BTree(Map|Set)::<.*>::clear$')
def m_bt_clear(ex, n, a, f):
    ex.deref(a[0]).entries = []
    return UNIT


def hash_order(ex, m):
    """entries of a HashMapV in a nondeterministically chosen order"""
    rest = list(m.entries)
    out = []
    while len(rest) > 1:
        out.append(rest.pop(ex.choose(len(rest), 'hash-iteration-order')))
    ex.ghost['hash_iterations'] = ex.ghost.get('hash_iterations', 0) + 1
    return out + rest


def bt_iter(ex, m, mode):
    if isinstance(m, HashMapV):
        m = BTreeMapV(hash_order(ex, m))
    if mode == 'map':
        return IterV([Cell(Tup([Ref(Cell(e[1])), Ref(e[2])])) for e in m.entries], by_value=True)
    if mode == 'keys':
        return IterV([Cell(Ref(Cell(e[1]))) for e in m.entries], by_value=True)
    if mode == 'values':
        return IterV([Cell(Ref(e[2])) for e in m.entries], by_value=True)
    if mode == 'into_map':
        return IterV([Cell(Tup([e[1], e[2].v])) for e in m.entries], by_value=True)
    if mode == 'into_keys':
        return IterV([Cell(e[1]) for e in m.entries], by_value=True)
    if mode == 'into_values':
        return IterV([Cell(e[2].v) for e in m.entries], by_value=True)


@model(r'^std::collections::BTreeMap::<.*>::(iter|iter_mut)$', r'^<&(mut )?std::collections::BTreeMap<.*> as std::iter::IntoIterator>::into_iter$')
def m_bt_iter(ex, n, a, f):
    return bt_iter(ex, ex.deref(a[0]), 'map')


@model(r'^std::collections::BTreeMap::<.*>::keys$', r'^std::collections::BTreeSet::<.*>::iter$', r'^<&std::collections::BTreeSet<.*> as std::iter::IntoIterator>::into_iter$')
def m_bt_keys(ex, n, a, f):
    return bt_iter(ex, ex.deref(a[0]), 'keys')


@model(r'^std::collections::BTreeMap::<.*>::values(_mut)?$')
def m_bt_values(ex, n, a, f):
    return bt_iter(ex, ex.deref(a[0]), 'values')


@model(r'^<std::collections::BTreeMap<.*> as std::iter::IntoIterator>::into_iter$')
def m_bt_into_iter(ex, n, a, f):
    return bt_iter(ex, ex.force(a[0]), 'into_map')


@model(r'^std::collections::BTreeMap::<.*>::into_values$')
def m_bt_into_values(ex, n, a, f):
    return bt_iter(ex, ex.force(a[0]), 'into_values')


@model(r'^std::collections::BTreeMap::<.*>::into_keys$', r'^<std::collections::BTreeSet<.*> as std::iter::IntoIterator>::into_iter$')
def m_bt_into_keys(ex, n, a, f):
    return bt_iter(ex, ex.force(a[0]), 'into_keys')


@model(r'^std::collections::BTreeMap::<.*>::(first|last)_key_value$', r'^std::collections::BTreeSet::<.*>::(first|last)$')
def m_bt_first_last(ex, n, a, f):
    m = ex.deref(a[0])
    rt = ret_ty(f)
    if not m.entries:
        return none(ex, rt)
    e = m.entries[0] if '::first' in n else m.entries[-1]
    if 'BTreeSet' in n:
        return some(ex, rt, Ref(Cell(e[1])))
    return some(ex, rt, Tup([Ref(Cell(e[1])), Ref(e[2])]))


@model(r'^<std::collections::BTreeMap<.*> as std::iter::FromIterator<.*>>::from_iter::<')
def m_bt_from_iter(ex, n, a, f):
    m = BTreeMapV()
    it = ex.force(a[0])
    if isinstance(it, VecV):
        it = IterV(list(it.cells), by_value=True)
    for x in drain(ex, f, it):
        bt_insert(ex, m, x.fields[0], x.fields[1])
    return m


@model(r'^<std::collections::BTreeSet<.*> as std::iter::FromIterator<.*>>::from_iter::<')
def m_bts_from_iter(ex, n, a, f):
    m = BTreeMapV()
    it = ex.force(a[0])
    if isinstance(it, VecV):
        it = IterV(list(it.cells), by_value=True)
    for x in drain(ex, f, it):
        sk = sort_key(ex, x)
        i, found = bt_find(m, sk)
        if not found:
            m.entries.insert(i, [sk, x, Cell(UNIT)])
    return m


@model(r'^<std::collections::BTreeMap<.*> as std::iter::Extend<.*>>::extend::<')
def m_bt_extend(ex, n, a, f):
    m = ex.deref(a[0])
    it = ex.force(a[1])
    if isinstance(it, VecV):
        it = IterV(list(it.cells), by_value=True)
    for x in drain(ex, f, it):
        bt_insert(ex, m, x.fields[0], x.fields[1])
    return UNIT


class EntryV:
    __slots__ = ('map', 'key')

    def __init__(self, map_, key):
        self.map = map_
        self.key = key


@model(r'^std::collections::BTreeMap::<.*>::entry$')
def m_bt_entry(ex, n, a, f):
    m = ex.deref(a[0])
    rt = ret_ty(f)
    found = bt_find(m, sort_key(ex, a[1]))[1]
    return Adt(rt, ex.p.variant_index(rt, 'Occupied' if found else 'Vacant'), [EntryV(m, a[1])])


def _entry(ex, v):
    e = ex.force(v)
    while isinstance(e, Ref):
        e = ex.deref(e)
    return e.fields[0] if isinstance(e, Adt) else e


@model(r'^std::collections::btree_map::VacantEntry::<.*>::insert(_entry)?$')
def m_bt_vacant_insert(ex, n, a, f):
    e = _entry(ex, a[0])
    sk = sort_key(ex, e.key)
    i, found = bt_find(e.map, sk)
    e.map.entries.insert(i, [sk, e.key, Cell(a[1])])
    return Ref(e.map.entries[i][2])


@model(r'^std::collections::btree_map::OccupiedEntry::<.*>::(get|get_mut|into_mut)$')
def m_bt_occupied_get(ex, n, a, f):
    e = _entry(ex, a[0])
    i, found = bt_find(e.map, sort_key(ex, e.key))
    return Ref(e.map.entries[i][2])


@model(r'^std::collections::btree_map::OccupiedEntry::<.*>::insert$')
def m_bt_occupied_insert(ex, n, a, f):
    e = _entry(ex, a[0])
    i, found = bt_find(e.map, sort_key(ex, e.key))
    old = e.map.entries[i][2].v
    e.map.entries[i][2].v = a[1]
    return old


@model(r'^std::collections::btree_map::(Occupied|Vacant)Entry::<.*>::key$')
def m_bt_entry_key(ex, n, a, f):
    return Ref(Cell(_entry(ex, a[0]).key))


@model(r'^std::collections::btree_map::Entry::<.*>::and_modify::<')
def m_bt_entry_and_modify(ex, n, a, f):
    e = _entry(ex, a[0])
    i, found = bt_find(e.map, sort_key(ex, e.key))
    if found:
        ex.call_value(a[1], [Ref(e.map.entries[i][2])])
    return a[0]


@model(r'^std::collections::btree_map::Entry::<.*>::(or_insert|or_insert_with|or_default)(::<.*)?$')
def m_bt_entry_or_insert(ex, n, a, f):
    e = _entry(ex, a[0])
    i, found = bt_find(e.map, sort_key(ex, e.key))
    if not found:
        if '::or_insert_with' in n:
            v = ex.call_value(a[1], [])
        elif '::or_default' in n:
            d = f.get('aux', {}).get('Default::default')
            if not d:
                raise Unsupported('Entry::or_default without Default aux')
            v = ex.call(d, [])
        else:
            v = a[1]
        e.map.entries.insert(i, [sort_key(ex, e.key), e.key, Cell(v)])
    return Ref(e.map.entries[i][2])


# HashMap / HashSet: the BTreeMap models on a HashMapV (membership by key; iteration order arbitrary, see hash_order)
@model(r'^std::collections::HashMap::<.*>::(new|with_capacity)$', r'^<std::collections::HashMap<.*> as std::default::Default>::default$',
       r'^std::collections::HashSet::<.*>::with_capacity$')
def m_hm_new(ex, n, a, f):
    return HashMapV()


@model(r'^std::collections::HashMap::<.*>::insert$')
def m_hm_insert(ex, n, a, f):
    return m_bt_insert(ex, n, a, f)


@model(r'^std::collections::HashMap::<.*>::(get|get_mut)::<', r'^std::collections::HashMap::<.*>::get_key_value::<')
def m_hm_get(ex, n, a, f):
    return m_bt_get(ex, n, a, f)


@model(r'^std::collections::HashMap::<.*>::contains_key::<')
def m_hm_contains(ex, n, a, f):
    return bt_find(ex.deref(a[0]), sort_key(ex, a[1]))[1]


@model(r'^std::collections::HashMap::<.*>::remove::<')
def m_hm_remove(ex, n, a, f):
    return m_bt_remove(ex, n, a, f)


@model(r'^std::collections::Hash(Map|Set)::<.*>::len$')
def m_hm_len(ex, n, a, f):
    return len(ex.deref(a[0]).entries)


@model(r'^std::collections::Hash(Map|Set)::<.*>::is_empty$')
def m_hm_is_empty(ex, n, a, f):
    return len(ex.deref(a[0]).entries) == 0


@model(r'^std::collections::HashMap::<.*>::(iter|iter_mut)$', r'^<&(mut )?std::collections::HashMap<.*> as std::iter::IntoIterator>::into_iter$')
def m_hm_iter(ex, n, a, f):
    return bt_iter(ex, ex.deref(a[0]), 'map')


@model(r'^std::collections::HashMap::<.*>::keys$', r'^std::collections::HashSet::<.*>::iter$', r'^<&std::collections::HashSet<.*> as std::iter::IntoIterator>::into_iter$')
def m_hm_keys(ex, n, a, f):
    return bt_iter(ex, ex.deref(a[0]), 'keys')


@model(r'^std::collections::HashMap::<.*>::values(_mut)?$')
def m_hm_values(ex, n, a, f):
    return bt_iter(ex, ex.deref(a[0]), 'values')


@model(r'^<std::collections::HashMap<.*> as std::iter::IntoIterator>::into_iter$')
def m_hm_into_iter(ex, n, a, f):
    return bt_iter(ex, ex.force(a[0]), 'into_map')


@model(r'^std::collections::HashMap::<.*>::into_values$')
def m_hm_into_values(ex, n, a, f):
    return bt_iter(ex, ex.force(a[0]), 'into_values')


@model(r'^std::collections::HashMap::<.*>::into_keys$', r'^<std::collections::HashSet<.*> as std::iter::IntoIterator>::into_iter$')
def m_hm_into_keys(ex, n, a, f):
    return bt_iter(ex, ex.force(a[0]), 'into_keys')


@model(r'^<std::collections::HashMap<.*> as std::iter::FromIterator<.*>>::from_iter::<')
def m_hm_from_iter(ex, n, a, f):
    m = HashMapV()
    it = ex.force(a[0])
    if isinstance(it, VecV):
        it = IterV(list(it.cells), by_value=True)
    for x in drain(ex, f, it):
        bt_insert(ex, m, x.fields[0], x.fields[1])
    return m


@model(r'^<std::collections::HashSet<.*> as std::iter::FromIterator<.*>>::from_iter::<')
def m_hset_from_iter(ex, n, a, f):
    m = HashMapV()
    it = ex.force(a[0])
    if isinstance(it, VecV):
        it = IterV(list(it.cells), by_value=True)
    for x in drain(ex, f, it):
        sk = sort_key(ex, x)
        i, found = bt_find(m, sk)
        if not found:
            m.entries.insert(i, [sk, x, Cell(UNIT)])
    return m


@model(r'^<std::collections::HashMap<.*> as std::iter::Extend<.*>>::extend::<')
def m_hm_extend(ex, n, a, f):
    return m_bt_extend(ex, n, a, f)


@model(r'^<std::collections::BTreeMap<.*> as std::ops::Index<.*>>::index$')
def m_bt_index(ex, n, a, f):
    mp = ex.deref(a[0])
    i, found = bt_find(mp, sort_key(ex, a[1]))
    if not found:
        raise Panic('BTreeMap index: no entry found for key')
    return Ref(mp.entries[i][2])


# --------------------------------------------------------------------------- LazyLock statics
class LazyLockV:
    __slots__ = ('init', 'cell')

    def __init__(self, init):
        self.init = init
        self.cell = None


GLOBAL_STATICS = {}


def static_hook(ex, st):
    ty = ex.p.ty(st['ty'])['str']
    if ty.startswith('std::sync::LazyLock<'):
        init = st['init']
        fn = None
        for off, aid in init['provenance']['ptrs']:
            al = ex.p.allocs.get(str(aid), {})
            if isinstance(al, dict) and 'Function' in al:
                fn = al['Function']
        if fn is None:
            raise Unsupported(f"LazyLock static {st['name']} without init fn")
        key = (ex.p.path, st['name'])
        ll = GLOBAL_STATICS.get(key)
        if ll is None:
            ll = LazyLockV(fn)
            GLOBAL_STATICS[key] = ll
        return ll
    return NotImplemented


@model(r'^<std::sync::LazyLock<.*> as std::ops::Deref>::deref$', r'^std::sync::LazyLock::<.*>::force$')
def m_lazylock_deref(ex, n, a, f):
    ll = ex.deref(a[0])
    if not isinstance(ll, LazyLockV):
        raise Unsupported(f"LazyLock deref of {ll!r}"[:100])
    if ll.cell is None:
        fi = ex.p.inst[ll.init]
        args = []
        if fi.get('arg_count', 0) == 2:
            args = [ex.zst(fi['locals'][1]), Tup([])]
        elif fi.get('arg_count', 0) == 1:
            args = [ex.zst(fi['locals'][1])]
        ll.cell = Cell(ex.call(ll.init, args))
    return Ref(ll.cell)


@model(r'^<std::vec::Vec<.*> as std::default::Default>::default$')
def m_vec_default(ex, n, a, f):
    return VecV([], ex.p.ty(ret_ty(f))['adt']['targs'][0])


@model(r'^<std::string::String as std::default::Default>::default$')
def m_string_default(ex, n, a, f):
    return StringV(())


# --------------------------------------------------------------------------- integer intrinsics
@model(r'^std::intrinsics::(saturating_add|saturating_sub|wrapping_add|wrapping_sub|wrapping_mul|unchecked_add|unchecked_sub|unchecked_mul|add_with_overflow|sub_with_overflow|mul_with_overflow|three_way_compare)::<')
def m_int_intrinsic(ex, n, a, f):
    op = re.search(r'intrinsics::(\w+)::<', n).group(1)
    tid = f['abi_args'][0]
    bits, signed = ex.int_info(tid)
    x, y = a
    if op.startswith('wrapping_') or op.startswith('unchecked_'):
        return ex.binop({'add': 'Add', 'sub': 'Sub', 'mul': 'Mul'}[op.split('_')[1]], x, y, tid)
    if op.endswith('_with_overflow'):
        return ex.checked({'add': 'Add', 'sub': 'Sub', 'mul': 'Mul'}[op.split('_')[0]], x, y, tid)
    if op in ('saturating_add', 'saturating_sub'):
        t = ex.checked('Add' if op.endswith('add') else 'Sub', x, y, tid)
        res, ovf = t.fields
        lo, hi = (-(1 << (bits - 1)), (1 << (bits - 1)) - 1) if signed else (0, (1 << bits) - 1)
        if isinstance(ovf, bool):
            if not ovf:
                return res
            # direction of saturation
            if not signed:
                return hi if op.endswith('add') else lo
            yy = y if isinstance(y, int) else None
            neg = (yy < 0) if op.endswith('add') else (yy > 0)
            return lo if neg else hi
        if not signed:
            sat = z3.BitVecVal(hi if op.endswith('add') else lo, bits)
        else:
            yb = to_bv(y, bits)
            neg = (yb < 0) if op.endswith('add') else (yb > 0)
            sat = z3.If(neg, z3.BitVecVal(lo, bits), z3.BitVecVal(hi, bits))
        return z3.If(ovf, sat, to_bv(res, bits))
    raise Unsupported(f"intrinsic {op}")


@model(r'^std::intrinsics::(ctpop|ctlz|cttz|ctlz_nonzero|cttz_nonzero|bswap|bitreverse)::<')
def m_bit_intrinsic(ex, n, a, f):
    op = re.search(r'intrinsics::(\w+)::<', n).group(1)
    bits, signed = ex.int_info(f['abi_args'][0])
    v = a[0]
    if not isinstance(v, int):
        raise Unsupported(f"bit intrinsic {op} on a symbolic value")
    u = v & ((1 << bits) - 1)
    if op == 'ctpop':
        return bin(u).count('1')
    if op.startswith('ctlz'):
        return bits - u.bit_length()
    if op.startswith('cttz'):
        return bits if u == 0 else (u & -u).bit_length() - 1
    if op == 'bswap':
        return norm(int.from_bytes(u.to_bytes(bits // 8, 'little'), 'big'), bits, signed)
    if op == 'bitreverse':
        return norm(int(bin(u)[2:].zfill(bits)[::-1], 2), bits, signed)
    raise Unsupported(op)


@model(r'^std::intrinsics::(rotate_left|rotate_right|exact_div|unchecked_div|unchecked_rem|unchecked_shl|unchecked_shr)::<')
def m_misc_intrinsic(ex, n, a, f):
    op = re.search(r'intrinsics::(\w+)::<', n).group(1)
    tid = f['abi_args'][0]
    if op in ('exact_div', 'unchecked_div'):
        return ex.binop('Div', a[0], a[1], tid)
    if op == 'unchecked_rem':
        return ex.binop('Rem', a[0], a[1], tid)
    if op == 'unchecked_shl':
        return ex.binop('Shl', a[0], a[1], tid, f['abi_args'][1])
    if op == 'unchecked_shr':
        return ex.binop('Shr', a[0], a[1], tid, f['abi_args'][1])
    raise Unsupported(op)


# --------------------------------------------------------------------------- sorting (stable insertion sort calling the real comparator)
def _ordering_name(ex, o):
    o = ex.force(o)
    return ex.p.variant_name(o)


@model(r'^(std|core|alloc)::slice::<impl \[.*\]>::(sort_by|sort_unstable_by)::<', r'^std::slice::stable_sort::<', r'^alloc::slice::stable_sort::<')
def m_sort_by(ex, n, a, f):
    cells = as_cells(ex, a[0])
    vals = [c.v for c in cells]
    out = []
    for v in vals:
        i = len(out)
        while i > 0:
            o = ex.call_value(a[1], [Ref(Cell(out[i - 1])), Ref(Cell(v))])
            if isinstance(o, (bool,)) or is_sym(o):
                # stable_sort passes an is_less closure
                less = ex.branch(ex.call_value(a[1], [Ref(Cell(v)), Ref(Cell(out[i - 1]))]), 'sort-less')
                if not less:
                    break
            elif _ordering_name(ex, o) != 'Greater':
                break
            i -= 1
        out.insert(i, v)
    for c, v in zip(cells, out):
        c.v = v
    return UNIT


@model(r'^(std|core|alloc)::slice::<impl \[.*\]>::(sort_by_key|sort_unstable_by_key|sort_by_cached_key)::<')
def m_sort_by_key(ex, n, a, f):
    cells = as_cells(ex, a[0])
    keyed = []
    for c in cells:
        k = ex.call_value(a[1], [Ref(c)])
        keyed.append((sort_key(ex, k), c.v))
    keyed.sort(key=lambda t: t[0])
    for c, (_, v) in zip(cells, keyed):
        c.v = v
    return UNIT


@model(r'^(std|core|alloc)::slice::<impl \[.*\]>::(sort|sort_unstable)$')
def m_sort(ex, n, a, f):
    cells = as_cells(ex, a[0])
    try:
        keyed = [(sort_key(ex, c.v), c.v) for c in cells]
    except Unsupported:
        # symbolic integers: insertion sort whose comparisons are decisions of the executor (signedness from the element type)
        vals = [c.v for c in cells]
        if not all(isinstance(v, int) or z3.is_bv(v) for v in vals):
            raise
        m = re.search(r'impl \[(i|u)(\d+|size)\]', n)
        signed = bool(m and m.group(1) == 'i')
        bits = max((v.size() for v in vals if z3.is_bv(v)), default=64)
        out = []
        for v in vals:
            i = len(out)
            while i > 0:
                x, y = to_bv(out[i - 1], bits), to_bv(v, bits)
                gt = (x > y) if signed else z3.UGT(x, y)
                if ex.branch(gt, 'sort-compare'):
                    i -= 1
                else:
                    break
            out.insert(i, v)
        for c, v in zip(cells, out):
            c.v = v
        return UNIT
    keyed.sort(key=lambda t: t[0])
    for c, (_, v) in zip(cells, keyed):
        c.v = v
    return UNIT


@model(r'^std::vec::Vec::<.*>::dedup$')
def m_vec_dedup(ex, n, a, f):
    v = ex.deref(a[0])
    try:
        keys = [sort_key(ex, c.v) for c in v.cells]
    except Unsupported:
        # elements without a concrete scalar key (structs, enums): the real body (dedup_by with the type's PartialEq)
        return NotImplemented
    out = []
    last = None
    for c, k in zip(v.cells, keys):
        if out and last == k:
            continue
        out.append(c)
        last = k
    v.cells[:] = out
    return UNIT


@model(r'^core::num::<impl (u\d+|usize)>::(checked_ilog10|ilog10)$')
def m_ilog10(ex, n, a, f):
    v = a[0]
    checked = 'checked_' in n
    rt = ret_ty(f)
    bits = int(re.search(r'impl u(\d+|size)', n).group(1).replace('size', '64'))
    if isinstance(v, int):
        if v == 0:
            if checked:
                return none(ex, rt)
            raise Panic('ilog10 of zero')
        r = len(str(v)) - 1
        return some(ex, rt, r) if checked else r
    if ex.branch(v == 0, 'ilog10-zero'):
        if checked:
            return none(ex, rt)
        raise Panic('ilog10 of zero')
    d = 0
    p = 10
    while p < (1 << bits):
        if ex.branch(z3.ULT(v, z3.BitVecVal(p, bits)), 'ilog10'):
            break
        d += 1
        p *= 10
    return some(ex, rt, d) if checked else d


# --------------------------------------------------------------------------- VecDeque (as VecV)
@model(r'^<std::collections::VecDeque<.*> as std::convert::From<std::vec::Vec<.*>>>::from$')
def m_vecdeque_from_vec(ex, n, a, f):
    v = ex.force(a[0])
    return VecV(list(v.cells), v.elem)


@model(r'^<std::vec::Vec<.*> as std::convert::From<std::collections::VecDeque<.*>>>::from$')
def m_vec_from_vecdeque(ex, n, a, f):
    v = ex.force(a[0])
    return VecV(list(v.cells), v.elem)


@model(r'^std::collections::VecDeque::<.*>::(new|with_capacity)$', r'^<std::collections::VecDeque<.*> as std::default::Default>::default$')
def m_vecdeque_new(ex, n, a, f):
    return VecV([])


def _vd_cap(v):
    """capacity of a VecDeque modelled after RawVec's amortised growth (elements of <= 1024 bytes: minimum 4)"""
    c = getattr(v, 'cap', None)
    return len(v.cells) if c is None else max(c, len(v.cells))


def _vd_grow(v, additional):
    c = _vd_cap(v)
    need = len(v.cells) + additional
    if need > c:
        c = max(c * 2, need, 4)
    v.cap = c


@model(r'^std::collections::VecDeque::<.*>::capacity$')
def m_vecdeque_capacity(ex, n, a, f):
    return _vd_cap(ex.deref(a[0]))


@model(r'^<std::collections::VecDeque<.*> as std::iter::Extend<.*>>::extend::<std::collections::VecDeque<')
def m_vecdeque_extend(ex, n, a, f):
    v = ex.deref(a[0])
    o = ex.force(a[1])
    _vd_grow(v, len(o.cells))
    v.cells.extend(Cell(c.v) for c in o.cells)
    return UNIT


@model(r'^std::collections::VecDeque::<.*>::push_back$')
def m_vecdeque_push_back(ex, n, a, f):
    v = ex.deref(a[0])
    _vd_grow(v, 1)
    v.cells.append(Cell(a[1]))
    return UNIT


@model(r'^std::collections::VecDeque::<.*>::push_front$')
def m_vecdeque_push_front(ex, n, a, f):
    ex.deref(a[0]).cells.insert(0, Cell(a[1]))
    return UNIT


@model(r'^std::collections::VecDeque::<.*>::(pop_front|pop_back)$')
def m_vecdeque_pop(ex, n, a, f):
    v = ex.deref(a[0])
    rt = ret_ty(f)
    if not v.cells:
        return none(ex, rt)
    return some(ex, rt, (v.cells.pop(0) if n.endswith('pop_front') else v.cells.pop()).v)


@model(r'^std::collections::VecDeque::<.*>::(front|back)(_mut)?$')
def m_vecdeque_front_back(ex, n, a, f):
    v = ex.deref(a[0])
    rt = ret_ty(f)
    if not v.cells:
        return none(ex, rt)
    return some(ex, rt, Ref(v.cells[0] if '::front' in n else v.cells[-1]))


@model(r'^std::collections::VecDeque::<.*>::(len|is_empty)$')
def m_vecdeque_len(ex, n, a, f):
    v = ex.deref(a[0])
    return len(v.cells) if n.endswith('len') else len(v.cells) == 0


@model(r'^std::collections::VecDeque::<.*>::(iter|iter_mut)$', r'^<&(mut )?std::collections::VecDeque<.*> as std::iter::IntoIterator>::into_iter$')
def m_vecdeque_iter(ex, n, a, f):
    return IterV(ex.deref(a[0]).cells)


@model(r'^<std::collections::VecDeque<.*> as std::iter::IntoIterator>::into_iter$')
def m_vecdeque_into_iter(ex, n, a, f):
    return IterV(list(ex.force(a[0]).cells), by_value=True)


@model(r'^<std::collections::vec_deque::(Iter|IterMut|IntoIter)<.*> as std::iter::(Iterator|DoubleEndedIterator)>::(next|next_back)$')
def m_vecdeque_iter_next(ex, n, a, f):
    return m_iter_next(ex, n, a, f) if n.endswith('::next') else m_iter_next_back(ex, n, a, f)


@model(r'^std::vec::Vec::<.*>::dedup_by_key::<')
def m_vec_dedup_by_key(ex, n, a, f):
    v = ex.deref(a[0])
    out = []
    prev = None
    for c in v.cells:
        k = ex.call_value(a[1], [Ref(c)])
        if out:
            same = val_eq(k, prev) if not isinstance(k, (StringV, StrRef)) else str_eq(ex, k.chars, prev.chars)
            if ex.branch(same, 'dedup_by_key'):
                continue
        out.append(c)
        prev = k
    v.cells[:] = out
    return UNIT


@model(r'^std::vec::Vec::<.*>::dedup_by::<')
def m_vec_dedup_by(ex, n, a, f):
    v = ex.deref(a[0])
    out = []
    for c in v.cells:
        if out and ex.branch(ex.call_value(a[1], [Ref(c), Ref(out[-1])]), 'dedup_by'):
            continue
        out.append(c)
    v.cells[:] = out
    return UNIT


@model(r'^std::vec::Vec::<.*>::retain::<', r'^std::vec::Vec::<.*>::retain_mut::<')
def m_vec_retain(ex, n, a, f):
    v = ex.deref(a[0])
    out = []
    for c in v.cells:
        if ex.branch(ex.call_value(a[1], [Ref(c)]), 'retain'):
            out.append(c)
    v.cells[:] = out
    return UNIT
