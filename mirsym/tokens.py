"""Token model: proc_macro2 (fallback implementation) and quote::__private as a python token tree whose leaves
may be symbolic.  `quote!` expansions themselves run from real MIR down to these leaf calls."""
import re, z3
from .core import *
from .models import model, as_str, ret_ty, some, none, UNIT, FmtArg, render_arg, str_eq, bool_and, bool_not, val_eq, drain, get_iter, IterV
from . import models


class TIdent:
    __slots__ = ('chars', 'raw')

    def __init__(self, chars, raw=False):
        self.chars = tuple(chars)
        self.raw = raw

    def __repr__(self):
        return "Ident(%s)" % chars_repr(self.chars)


class TPunct:
    __slots__ = ('ch', 'joint')

    def __init__(self, ch, joint=False):
        self.ch = ch
        self.joint = joint

    def __repr__(self):
        return "Punct(%s%s)" % (self.ch, '+' if self.joint else '')


class TLit:
    """kind 'int': payload (value, suffix) with value python int >= 0 or z3 term (may denote a negative number: symbolic)
       kind 'str': payload chars (unescaped content)
       kind 'raw': payload python str (verbatim repr, from the tokenizer)"""
    __slots__ = ('kind', 'payload')

    def __init__(self, kind, payload):
        self.kind = kind
        self.payload = payload

    def __repr__(self):
        return "Lit(%s,%r)" % (self.kind, self.payload if self.kind != 'str' else chars_repr(self.payload))


class TGroup:
    __slots__ = ('delim', 'ts')

    def __init__(self, delim, ts):
        self.delim = delim   # '(' '{' '[' ''
        self.ts = ts

    def __repr__(self):
        return "Group%s%r" % (self.delim, self.ts.toks)


class TS:
    __slots__ = ('toks',)

    def __init__(self, toks=()):
        self.toks = list(toks)

    def __repr__(self):
        return "TS%r" % (self.toks,)

    def copy(self):
        return TS(self.toks)


class LexErrorV:
    pass


_old_deep_extra = models.deep_extra


def deep_extra(v, deep):
    if isinstance(v, TS):
        return TS(v.toks)
    return _old_deep_extra(v, deep)


models.deep_extra = deep_extra


# --------------------------------------------------------------------------- printing (proc_macro2 fallback Display)
def escape_debug_char(c):
    ch = chr(c)
    if ch == '\t':
        return '\\t'
    if ch == '\r':
        return '\\r'
    if ch == '\n':
        return '\\n'
    if ch == '\\':
        return '\\\\'
    if ch == '"':
        return '\\"'
    if ch == "'":
        return "\\'"
    if c < 0x20 or c == 0x7f or (not ch.isprintable() and c > 0x7f):
        return '\\u{%x}' % c
    return ch


def lit_string_repr(chars):
    out = ['"']
    cs = list(chars)
    for i, c in enumerate(cs):
        if not isinstance(c, int):
            out.append('{?}')
            continue
        if c == 0:
            nxt = cs[i + 1] if i + 1 < len(cs) else None
            out.append('\\x00' if isinstance(nxt, int) and ord('0') <= nxt <= ord('7') else '\\0')
        elif c == ord("'"):
            out.append("'")
        else:
            out.append(escape_debug_char(c))
    out.append('"')
    return ''.join(out)


def tok_str(t):
    if isinstance(t, TIdent):
        return ('r#' if t.raw else '') + chars_repr(t.chars)
    if isinstance(t, TPunct):
        return t.ch
    if isinstance(t, TLit):
        if t.kind == 'int':
            v, suf = t.payload
            return (str(v) if isinstance(v, int) else '{int}') + (suf or '')
        if t.kind == 'str':
            return lit_string_repr(t.payload)
        return t.payload
    if isinstance(t, TGroup):
        o, c = {'(': ('(', ')'), '{': ('{ ', '}'), '[': ('[', ']'), '': ('', '')}[t.delim]
        inner = ts_str(t.ts)
        return o + inner + (' ' if t.delim == '{' and t.ts.toks else '') + c
    raise Unsupported(f"token {t!r}")


def ts_str(ts):
    out = []
    joint = False
    for i, t in enumerate(ts.toks):
        if i != 0 and not joint:
            out.append(' ')
        joint = isinstance(t, TPunct) and t.joint
        out.append(tok_str(t))
    return ''.join(out)


def ts_is_concrete(ts):
    for t in ts.toks:
        if isinstance(t, TIdent) and not is_conc_chars(t.chars):
            return False
        if isinstance(t, TLit):
            if t.kind == 'int' and not isinstance(t.payload[0], int):
                return False
            if t.kind == 'str' and not is_conc_chars(t.payload):
                return False
        if isinstance(t, TGroup) and not ts_is_concrete(t.ts):
            return False
    return True


def ts_chars(ts):
    """Display of a token stream as a char list; symbolic leaves become Frags"""
    if ts_is_concrete(ts):
        return [ord(c) for c in ts_str(ts)]
    out = []
    joint = False
    for i, t in enumerate(ts.toks):
        if i != 0 and not joint:
            out.append(32)
        joint = isinstance(t, TPunct) and t.joint
        if isinstance(t, TIdent):
            if t.raw:
                out.extend([ord('r'), ord('#')])
            out.extend(t.chars)
        elif isinstance(t, TGroup):
            o, c = {'(': ('(', ')'), '{': ('{ ', '}'), '[': ('[', ']'), '': ('', '')}[t.delim]
            out.extend(ord(x) for x in o)
            out.extend(ts_chars(t.ts))
            if t.delim == '{' and t.ts.toks:
                out.append(32)
            out.extend(ord(x) for x in c)
        elif isinstance(t, TLit) and t.kind == 'int' and not isinstance(t.payload[0], int):
            out.append(Frag('intlit', t.payload))
        elif isinstance(t, TLit) and t.kind == 'str' and not is_conc_chars(t.payload):
            out.append(Frag('strlit', tuple(t.payload)))
        else:
            out.extend(ord(x) for x in tok_str(t))
    return out


# --------------------------------------------------------------------------- tokenizer (TokenStream::from_str on concrete text)
PUNCT_CHARS = set("~!@#$%^&*-=+|;:,<.>/?'")
CLOSE = {'(': ')', '[': ']', '{': '}'}


class LexFail(Exception):
    pass


def is_xid_start(ch):
    return ch == '_' or ch.isidentifier()


def is_xid_continue(ch):
    return ('a' + ch).isidentifier()


def tokenize(src):
    pos = 0
    n = len(src)
    stack = [([], None)]
    while True:
        # whitespace and comments
        while pos < n:
            if src[pos].isspace():
                pos += 1
            elif src.startswith('//', pos) and not src.startswith('///', pos) and not src.startswith('//!', pos):
                e = src.find('\n', pos)
                pos = n if e < 0 else e
            elif src.startswith('/*', pos) and not src.startswith('/**', pos) and not src.startswith('/*!', pos):
                depth = 0
                while pos < n:
                    if src.startswith('/*', pos):
                        depth += 1
                        pos += 2
                    elif src.startswith('*/', pos):
                        depth -= 1
                        pos += 2
                        if depth == 0:
                            break
                    else:
                        pos += 1
                if depth:
                    raise LexFail()
            else:
                break
        if pos >= n:
            break
        c = src[pos]
        cur = stack[-1][0]
        if c in '([{':
            stack.append(([], c))
            pos += 1
            continue
        if c in ')]}':
            toks, op = stack.pop()
            if op is None or CLOSE[op] != c:
                raise LexFail()
            stack[-1][0].append(TGroup(op, TS(toks)))
            pos += 1
            continue
        if src.startswith('///', pos) or src.startswith('//!', pos) or src.startswith('/**', pos) or src.startswith('/*!', pos):
            raise Unsupported("doc comment in from_str input")
        if c == '"':
            j = pos + 1
            out = []
            while True:
                if j >= n:
                    raise LexFail()
                if src[j] == '"':
                    break
                if src[j] == '\\':
                    j += 2
                else:
                    j += 1
            cur.append(TLit('raw', src[pos:j + 1]))
            pos = j + 1
            continue
        if c == "'":
            # char literal or lifetime
            m = re.match(r"'(\\.[^']*|[^\\'])'", src[pos:])
            if m:
                cur.append(TLit('raw', m.group(0)))
                pos += m.end()
                continue
            if pos + 1 < n and is_xid_start(src[pos + 1]):
                j = pos + 2
                while j < n and is_xid_continue(src[j]):
                    j += 1
                cur.append(TPunct("'", True))
                cur.append(TIdent([ord(x) for x in src[pos + 1:j]]))
                pos = j
                continue
            raise LexFail()
        if c.isdigit():
            m = re.match(r'(0x[0-9a-fA-F_]+|0o[0-7_]+|0b[01_]+|[0-9][0-9_]*(\.[0-9][0-9_]*)?([eE][+-]?[0-9_]+)?)([A-Za-z_][A-Za-z0-9_]*)?', src[pos:])
            txt = m.group(0)
            # "1." followed by non-ident, non-dot is a float as well; rare in generated text
            cur.append(TLit('raw', txt))
            pos += len(txt)
            continue
        if is_xid_start(c):
            if src.startswith('r#', pos) and pos + 2 < n and is_xid_start(src[pos + 2]):
                j = pos + 3
                while j < n and is_xid_continue(src[j]):
                    j += 1
                cur.append(TIdent([ord(x) for x in src[pos + 2:j]], raw=True))
                pos = j
                continue
            if (src.startswith('r"', pos) or src.startswith('r#"', pos) or src.startswith('b"', pos) or src.startswith("b'", pos) or src.startswith('br', pos) and src[pos + 2:pos + 3] in '"#'
                    or src.startswith('c"', pos)):
                raise Unsupported("raw/byte string literal in from_str input")
            j = pos + 1
            while j < n and is_xid_continue(src[j]):
                j += 1
            word = src[pos:j]
            if word == '_':
                cur.append(TIdent([ord('_')]))
            else:
                cur.append(TIdent([ord(x) for x in word]))
            pos = j
            continue
        if c in PUNCT_CHARS:
            nxt = src[pos + 1] if pos + 1 < n else ''
            joint = nxt in PUNCT_CHARS and nxt != "'" or False
            if nxt == "'":
                joint = False
            # '/' followed by comment start is not joint; ignore (rare)
            cur.append(TPunct(c, nxt in PUNCT_CHARS))
            pos += 1
            continue
        raise LexFail()
    if len(stack) != 1:
        raise LexFail()
    return TS(stack[0][0])


def valid_ident_py(s):
    if not s:
        return "Ident is not allowed to be empty; use Option<Ident>"
    if all('0' <= ch <= '9' for ch in s):
        return "Ident cannot be a number; use Literal instead"
    if not is_xid_start(s[0]) or not all(is_xid_continue(ch) for ch in s[1:]):
        return f"{s!r} is not a valid Ident"
    return None


def ascii_ident_ok_formula(chars):
    """validity of an identifier made of symbolic ASCII chars (proc_macro2::Ident::new does not panic)"""
    if not chars:
        return False

    def alpha(c):
        if isinstance(c, int):
            return chr(c).isalpha() and c < 128 or c == 95
        return z3.Or(z3.And(z3.UGE(c, 65), z3.ULE(c, 90)), z3.And(z3.UGE(c, 97), z3.ULE(c, 122)), c == 95)

    def digit(c):
        if isinstance(c, int):
            return 48 <= c <= 57
        return z3.And(z3.UGE(c, 48), z3.ULE(c, 57))
    ok = alpha(chars[0])
    alld = digit(chars[0])
    for c in chars[1:]:
        ok = bool_and(ok, models.bool_or(alpha(c), digit(c)))
        alld = bool_and(alld, digit(c))
    # all-digits already excluded by alpha(first)
    return ok


def mk_ident(ex, chars, raw=False):
    chars = tuple(chars)
    if any(isinstance(c, Frag) for c in chars):
        raise Unsupported("identifier from a string with opaque fragments")
    if is_conc_chars(chars):
        s = ''.join(map(chr, chars))
        if s.startswith('r#') and not raw:
            return mk_ident(ex, chars[2:], True)
        err = valid_ident_py(s)
        if err:
            raise Panic('proc_macro2::Ident::new: ' + err)
        if raw and s in ('_', 'super', 'self', 'Self', 'crate'):
            raise Panic(f'`r#{s}` cannot be a raw identifier')
        return TIdent(chars, raw)
    ok = ascii_ident_ok_formula(chars)
    if not ex.branch(ok, 'ident-valid'):
        raise Panic('proc_macro2::Ident::new: not a valid Ident (symbolic)')
    return TIdent(chars, raw)


def push_tok(ts, t):
    ts.toks.append(t)


def int_literal_tokens(v, suffix):
    """tokens for Literal::<int>_(un)suffixed(v) as pushed into a stream (negative literals are split)"""
    if isinstance(v, int):
        if v < 0:
            return [TPunct('-', False), TLit('int', (-v, suffix))]
        return [TLit('int', (v, suffix))]
    return [TLit('int', (v, suffix))]


class LitV:
    """a proc_macro2::Literal value before it is pushed"""
    __slots__ = ('toks',)

    def __init__(self, toks):
        self.toks = toks


def to_tokens_value(ex, v, ts):
    """ToTokens of a model value into ts"""
    if isinstance(v, Ref):
        v = ex.deref(v)
    if isinstance(v, TS):
        ts.toks.extend(v.toks)
    elif isinstance(v, TIdent):
        ts.toks.append(v)
    elif isinstance(v, LitV):
        ts.toks.extend(v.toks)
    elif isinstance(v, (TPunct, TGroup, TLit)):
        ts.toks.append(v)
    elif isinstance(v, (StrRef, StringV)):
        ts.toks.append(TLit('str', tuple(v.chars)))
    elif isinstance(v, bool):
        ts.toks.append(TIdent([ord(c) for c in ('true' if v else 'false')]))
    else:
        raise Unsupported(f"to_tokens of {v!r}"[:120])


# --------------------------------------------------------------------------- models
@model(r'^proc_macro2::TokenStream::new$', r'^<proc_macro2::TokenStream as std::default::Default>::default$')
def m_ts_new(ex, n, a, f):
    return TS()


@model(r'^proc_macro2::TokenStream::is_empty$')
def m_ts_is_empty(ex, n, a, f):
    return len(ex.deref(a[0]).toks) == 0


@model(r'^<proc_macro2::TokenStream as std::clone::Clone>::clone$', r'^<proc_macro2::TokenStream as quote::ToTokens>::(to|into)_token_stream$')
def m_ts_clone(ex, n, a, f):
    return TS(ex.deref(a[0]).toks)


@model(r'^<proc_macro2::(Ident|Literal) as std::clone::Clone>::clone$')
def m_tok_clone(ex, n, a, f):
    return ex.deref(a[0])


@model(r'^proc_macro2::Span::(call_site|mixed_site)$')
def m_span(ex, n, a, f):
    return Opaque('span')


@model(r'^proc_macro2::Ident::new$', r'^quote::__private::mk_ident$', r'^proc_macro2::Ident::new_raw$')
def m_ident_new(ex, n, a, f):
    return mk_ident(ex, as_str(ex, a[0]), raw=n.endswith('new_raw'))


@model(r'^proc_macro2::Punct::new$')
def m_punct_new(ex, n, a, f):
    ch = a[0]
    if not isinstance(ch, int):
        raise Unsupported("symbolic Punct char")
    sp = ex.force(a[1])
    return TPunct(chr(ch), ex.p.variant_name(sp) == 'Joint')


@model(r'^proc_macro2::Literal::([iu](8|16|32|64|128|size))_(un)?suffixed$')
def m_lit_int(ex, n, a, f):
    m = re.search(r'Literal::([iu]\w+?)_(un)?suffixed$', n)
    suffix = None if m.group(2) else m.group(1)
    return LitV(int_literal_tokens(a[0], suffix))


@model(r'^proc_macro2::Literal::string$')
def m_lit_string(ex, n, a, f):
    return LitV([TLit('str', tuple(as_str(ex, a[0])))])


@model(r'^proc_macro2::Literal::character$')
def m_lit_char(ex, n, a, f):
    c = a[0]
    if not isinstance(c, int):
        return LitV([TLit('char', c)])
    rep = chr(c) if c == 34 else escape_debug_char(c)
    return LitV([TLit('raw', "'" + rep + "'")])


@model(r'^<(&)*proc_macro2::(TokenStream|Ident|Literal|Punct|Group) as quote::ToTokens>::to_tokens$', r'^<(&)*(str|std::string::String|bool) as quote::ToTokens>::to_tokens$',
       r'^<quote::__private::RepInterp<.*> as quote::ToTokens>::to_tokens$')
def m_to_tokens(ex, n, a, f):
    ts = ex.deref(a[1])
    v = a[0]
    while isinstance(v, Ref):
        v = ex.load_path(v.cell, v.path)
    if isinstance(v, Adt):   # RepInterp(T)
        v = v.fields[0]
        while isinstance(v, Ref):
            v = ex.load_path(v.cell, v.path)
    if isinstance(v, Adt) or isinstance(v, (int,)) and not isinstance(v, bool) or is_sym(v):
        raise Unsupported(f"to_tokens model on {n}")
    to_tokens_value(ex, v, ts)
    return UNIT


@model(r'^<(&)*([iu](8|16|32|64|128|size)) as quote::ToTokens>::to_tokens$')
def m_int_to_tokens(ex, n, a, f):
    ts = ex.deref(a[1])
    v = ex.deref(a[0])
    suffix = re.search(r'([iu](?:8|16|32|64|128|size)) as quote', n).group(1)
    ts.toks.extend(int_literal_tokens(v, suffix))
    return UNIT


@model(r'^<(&)*([iu](8|16|32|64|128|size)) as quote::ToTokens>::(to|into)_token_stream$')
def m_int_to_token_stream(ex, n, a, f):
    v = ex.deref(a[0]) if isinstance(a[0], Ref) else a[0]
    suffix = re.search(r'([iu](?:8|16|32|64|128|size)) as quote', n).group(1)
    return TS(int_literal_tokens(v, suffix))


@model(r'^<(&)*(proc_macro2::Ident|proc_macro2::Literal|str|std::string::String|bool) as quote::ToTokens>::(to|into)_token_stream$')
def m_to_token_stream(ex, n, a, f):
    ts = TS()
    v = a[0]
    while isinstance(v, Ref):
        v = ex.load_path(v.cell, v.path)
    to_tokens_value(ex, v, ts)
    return ts


@model(r'^<f(32|64) as quote::ToTokens>::(to|into)_token_stream$', r'^<f(32|64) as quote::ToTokens>::to_tokens$')
def m_float_tokens(ex, n, a, f):
    if n.endswith('to_tokens'):
        ex.deref(a[1]).toks.append(TLit('raw', '{float}'))
        return UNIT
    return TS([TLit('raw', '{float}')])


@model(r'^<proc_macro2::TokenStream as quote::TokenStreamExt>::append::<')
def m_ts_append(ex, n, a, f):
    ts = ex.deref(a[0])
    to_tokens_value(ex, a[1], ts)
    return UNIT


@model(r'^<proc_macro2::TokenStream as quote::TokenStreamExt>::append_all::<', r'^<proc_macro2::TokenStream as std::iter::Extend<proc_macro2::Token(Stream|Tree)>>::extend::<')
def m_ts_append_all(ex, n, a, f):
    ts = ex.deref(a[0])
    it = ex.force(a[1])
    if isinstance(it, Ref):
        it = ex.deref(it)
    if isinstance(it, TS):
        ts.toks.extend(it.toks)
        return UNIT
    if isinstance(it, (VecV, SliceRef, Arr)):
        items = [c.v for c in it.cells]
    else:
        aux = f.get('aux', {})
        if not isinstance(it, IterV) and aux.get('IntoIterator::into_iter') and not aux.get('Iterator::next_is_self'):
            pass
        items = list(drain(ex, f, it))
    for x in items:
        to_tokens_value(ex, x, ts)
    return UNIT


@model(r'^<proc_macro2::TokenStream as std::iter::FromIterator<proc_macro2::Token(Stream|Tree)>>::from_iter::<')
def m_ts_from_iter(ex, n, a, f):
    ts = TS()
    it = ex.force(a[0])
    if isinstance(it, VecV):
        items = [c.v for c in it.cells]
    else:
        items = list(drain(ex, f, it))
    for x in items:
        to_tokens_value(ex, x, ts)
    return ts


@model(r'^<proc_macro2::TokenStream as std::str::FromStr>::from_str$')
def m_ts_from_str(ex, n, a, f):
    chars = as_str(ex, a[0])
    rt = ret_ty(f)
    if not is_conc_chars(chars):
        # structured parse of strings with opaque fragments: only the shapes the generator produces
        r = parse_fragmented(ex, chars)
        return Adt(rt, ex.p.variant_index(rt, 'Ok'), [r])
    try:
        ts = tokenize(''.join(map(chr, chars)))
    except LexFail:
        return Adt(rt, ex.p.variant_index(rt, 'Err'), [Opaque('LexError')])
    return Adt(rt, ex.p.variant_index(rt, 'Ok'), [ts])


def parse_fragmented(ex, chars):
    """tokenise a char list that contains symbolic chars / Frags: concrete runs are tokenised, maximal runs of
    symbolic identifier characters become one symbolic identifier, Frags become literal tokens"""
    toks = []
    i = 0
    n = len(chars)
    buf = []

    def flush():
        if buf:
            toks.extend(tokenize(''.join(map(chr, buf))).toks)
            buf.clear()
    while i < n:
        c = chars[i]
        if isinstance(c, int):
            buf.append(c)
            i += 1
            continue
        if isinstance(c, Frag):
            flush()
            if c.kind == 'int':
                toks.append(TLit('int', (c.payload[0], None)))
            elif c.kind in ('intlit',):
                toks.append(TLit('int', c.payload))
            elif c.kind == 'strlit':
                toks.append(TLit('str', c.payload))
            else:
                raise Unsupported(f"from_str with fragment {c.kind}")
            i += 1
            continue
        # symbolic char: must be part of an identifier (harness restricts symbolic chars to identifier chars)
        # take the trailing identifier characters of buf as its prefix
        k = len(buf)
        while k > 0 and (chr(buf[k - 1]).isalnum() or buf[k - 1] == 95):
            k -= 1
        pre = buf[k:]
        del buf[k:]
        flush()
        run = list(pre)
        while i < n and not isinstance(chars[i], Frag) and (not isinstance(chars[i], int) or chr(chars[i]).isalnum() or chars[i] == 95):
            run.append(chars[i])
            i += 1
        toks.append(mk_ident(ex, run))
    flush()
    return TS(toks)


@model(r'^quote::__private::parse$')
def m_quote_parse(ex, n, a, f):
    ts = ex.deref(a[0])
    s = pystr(StrRef(as_str(ex, a[1])))
    try:
        ts.toks.extend(tokenize(s).toks)
    except LexFail:
        raise Panic('invalid token stream')
    return UNIT


@model(r'^quote::__private::push_ident$')
def m_push_ident(ex, n, a, f):
    ex.deref(a[0]).toks.append(mk_ident(ex, as_str(ex, a[1])))
    return UNIT


@model(r'^quote::__private::push_lifetime$')
def m_push_lifetime(ex, n, a, f):
    ts = ex.deref(a[0])
    chars = as_str(ex, a[1])
    ts.toks.append(TPunct("'", True))
    ts.toks.append(mk_ident(ex, chars[1:]))
    return UNIT


@model(r'^quote::__private::push_group$')
def m_push_group(ex, n, a, f):
    ts = ex.deref(a[0])
    d = ex.p.variant_name(ex.force(a[1]))
    ts.toks.append(TGroup({'Parenthesis': '(', 'Brace': '{', 'Bracket': '[', 'None': ''}[d], a[2]))
    return UNIT


PUSH = {'add': '+', 'add_eq': '+=', 'and': '&', 'and_and': '&&', 'and_eq': '&=', 'at': '@', 'bang': '!', 'caret': '^', 'caret_eq': '^=',
        'colon': ':', 'colon2': '::', 'comma': ',', 'div': '/', 'div_eq': '/=', 'dot': '.', 'dot2': '..', 'dot3': '...', 'dot_dot_eq': '..=',
        'eq': '=', 'eq_eq': '==', 'ge': '>=', 'gt': '>', 'le': '<=', 'lt': '<', 'mul_eq': '*=', 'ne': '!=', 'or': '|', 'or_eq': '|=', 'or_or': '||',
        'pound': '#', 'question': '?', 'rarrow': '->', 'larrow': '<-', 'rem': '%', 'rem_eq': '%=', 'fat_arrow': '=>', 'semi': ';',
        'shl': '<<', 'shl_eq': '<<=', 'shr': '>>', 'shr_eq': '>>=', 'star': '*', 'sub': '-', 'sub_eq': '-='}


@model(r'^quote::__private::push_(\w+)$')
def m_push_punct(ex, n, a, f):
    ts = ex.deref(a[0])
    name = n.rsplit('push_', 1)[1]
    if name == 'underscore':
        ts.toks.append(TIdent([95]))
        return UNIT
    s = PUSH.get(name)
    if s is None:
        raise Unsupported(f"quote::__private::{name}")
    for i, ch in enumerate(s):
        ts.toks.append(TPunct(ch, i + 1 < len(s)))
    return UNIT


@model(r'^<proc_macro2::TokenStream as std::fmt::Display>::fmt$', r'^<proc_macro2::Ident as std::fmt::Display>::fmt$', r'^<proc_macro2::Literal as std::fmt::Display>::fmt$')
def m_tok_display(ex, n, a, f):
    v = ex.deref(a[0])
    fm = ex.deref(a[1])
    if isinstance(v, TS):
        fm.out.extend(ts_chars(v))
    elif isinstance(v, TIdent):
        if v.raw:
            fm.out.extend([ord('r'), ord('#')])
        fm.out.extend(v.chars)
    else:
        fm.out.extend(ts_chars(TS(v.toks)))
    return Adt(ret_ty(f), ex.p.variant_index(ret_ty(f), 'Ok'), [UNIT])


@model(r'^<proc_macro2::(TokenStream|Ident|Literal) as std::string::ToString>::to_string$', r'^<proc_macro2::(TokenStream|Ident|Literal) as std::string::SpecToString>::spec_to_string$')
def m_tok_to_string(ex, n, a, f):
    v = ex.deref(a[0])
    if isinstance(v, TS):
        ex.ghost.setdefault('to_string_ts', []).append(v)
        return StringV(ts_chars(v))
    if isinstance(v, TIdent):
        return StringV(([ord('r'), ord('#')] if v.raw else []) + list(v.chars))
    return StringV(ts_chars(TS(v.toks)))


@model(r'^<proc_macro2::LexError as std::fmt::Display>::fmt$')
def m_lexerror_display(ex, n, a, f):
    fm = ex.deref(a[1])
    fm.out.extend(ord(c) for c in 'cannot parse string into token stream')
    return Adt(ret_ty(f), ex.p.variant_index(ret_ty(f), 'Ok'), [UNIT])


@model(r'^<proc_macro2::Ident as std::cmp::PartialEq<(str|std::string::String|&str)>>::eq$')
def m_ident_eq_str(ex, n, a, f):
    i = ex.deref(a[0])
    s = as_str(ex, a[1])
    if i.raw:
        if len(s) < 2 or s[0] != ord('r') or s[1] != ord('#'):
            return False
        s = s[2:]
    return str_eq(ex, i.chars, s)


@model(r'^<proc_macro2::Ident as std::cmp::PartialEq>::eq$')
def m_ident_eq(ex, n, a, f):
    x = ex.deref(a[0])
    y = ex.deref(a[1])
    if x.raw != y.raw:
        return False
    return str_eq(ex, x.chars, y.chars)


@model(r'^<quote::__private::IdentFragmentAdapter<.*> as std::fmt::Display>::fmt$')
def m_ident_fragment(ex, n, a, f):
    v = ex.deref(a[0])
    fm = ex.deref(a[1])
    inner = v.fields[0] if isinstance(v, Adt) else v
    while isinstance(inner, Ref):
        inner = ex.load_path(inner.cell, inner.path)
    if isinstance(inner, TIdent):
        # IdentFragment for Ident: raw prefix is stripped
        fm.out.extend(inner.chars)
    elif isinstance(inner, (StrRef, StringV)):
        fm.out.extend(inner.chars)
    elif isinstance(inner, int) and not isinstance(inner, bool):
        fm.out.extend(ord(c) for c in str(inner))
    else:
        raise Unsupported(f"IdentFragment of {inner!r}"[:100])
    return Adt(ret_ty(f), ex.p.variant_index(ret_ty(f), 'Ok'), [UNIT])


@model(r'^<quote::__private::ThereIsNoIteratorInRepetition as std::ops::BitOr<quote::__private::(HasIterator|ThereIsNoIteratorInRepetition)>>::bitor$',
       r'^<quote::__private::HasIterator as std::ops::BitOr<quote::__private::(HasIterator|ThereIsNoIteratorInRepetition)>>::bitor$')
def m_has_iter_bitor(ex, n, a, f):
    return ex.zst(ret_ty(f))


@model(r' as quote::__private::ext::RepIteratorExt>::quote_into_iter$')
def m_rep_iter_ext(ex, n, a, f):
    rt = ret_ty(f)
    return Tup([a[0], ex.zst(ex.p.kind(rt)[1][1])])


@model(r' as quote::__private::ext::RepAsIteratorExt<\'_>>::quote_into_iter$')
def m_rep_as_iter_ext(ex, n, a, f):
    rt = ret_ty(f)
    v = ex.deref(a[0])
    if isinstance(v, (VecV, SliceRef, Arr)):
        return Tup([IterV(v.cells), ex.zst(ex.p.kind(rt)[1][1])])
    raise Unsupported(f"RepAsIteratorExt on {ex.p.ty(v.ty)['str'] if isinstance(v, Adt) else v!r}"[:200])


@model(r' as quote::__private::ext::RepToTokensExt>::quote_into_iter$')
def m_rep_to_tokens_ext(ex, n, a, f):
    rt = ret_ty(f)
    return Tup([a[0], ex.zst(ex.p.kind(rt)[1][1])])


@model(r' as quote::ToTokens>::(to|into)_token_stream$')
def m_generic_to_token_stream(ex, n, a, f):
    tt = f.get('aux', {}).get('ToTokens::to_tokens')
    if not tt:
        raise Unsupported(f"no aux ToTokens::to_tokens for {n}")
    ts = TS()
    v = a[0]
    if not isinstance(v, Ref):
        v = Ref(Cell(v))
    ex.call(tt, [v, Ref(Cell(ts))])
    return ts


@model(r'^quote::__private::IdentFragmentAdapter::<.*>::span$')
def m_ident_fragment_span(ex, n, a, f):
    return none(ex, ret_ty(f))
