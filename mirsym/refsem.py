"""Reference semantics (written from X.680 / X.691, never sharing code with the implementation) evaluated over
the materialised symbolic IR of a path, and an IR -> ASN.1 text printer used to replay counterexamples."""
import z3
from .core import *
from .harness import model_int

W = 128


class IR:
    """accessors over mirsym values of the dumped IR types"""

    def __init__(self, ex):
        self.ex = ex
        self.p = ex.p

    def f(self, v):
        """forced value behind lazies / boxes / refs"""
        ex = self.ex
        while True:
            if isinstance(v, (Lazy, LazyVec)):
                v = ex.materialise(v)
            elif isinstance(v, BoxV):
                v = ex.force_cell(v.cell)
            elif isinstance(v, Ref):
                v = ex.load_path(v.cell, v.path)
            else:
                return v

    def vn(self, v):
        v = self.f(v)
        return self.p.ty(v.ty)['adt']['variants'][v.variant]['name']

    def tn(self, v):
        v = self.f(v)
        return self.p.ty(v.ty)['adt']['name'].split('::')[-1]

    def get(self, v, name):
        v = self.f(v)
        flds = self.p.ty(v.ty)['adt']['variants'][v.variant]['fields']
        for i, fl in enumerate(flds):
            if fl['name'] == name:
                x = v.fields[i]
                if isinstance(x, (Lazy, LazyVec)):
                    x = self.ex.materialise(x)
                    v.fields[i] = x
                return x
        raise KeyError((self.tn(v), self.vn(v), name))

    def items(self, v):
        v = self.f(v)
        if isinstance(v, (VecV, SliceRef, Arr)):
            return [self.f_cell(c) for c in v.cells]
        raise Unsupported(f"items of {v!r}"[:100])

    def f_cell(self, c):
        return self.ex.force_cell(c)

    def opt(self, v):
        """None or the payload of an Option value"""
        v = self.f(v)
        if self.vn(v) == 'None':
            return None
        x = v.fields[0]
        if isinstance(x, (Lazy, LazyVec)):
            x = self.ex.materialise(x)
            v.fields[0] = x
        return x


NEG_INF = ('-inf',)
POS_INF = ('+inf',)


def bv(v):
    return to_bv(v, W)


class Interval:
    """symbolic interval with optional infinite ends: lo = (finite: Bool, value BV), hi likewise; empty possible"""

    def __init__(self, lo_fin, lo, hi_fin, hi):
        self.lo_fin, self.lo, self.hi_fin, self.hi = lo_fin, lo, hi_fin, hi

    def contains(self, x):
        return z3.And(z3.Or(z3.Not(self.lo_fin), x >= self.lo), z3.Or(z3.Not(self.hi_fin), x <= self.hi))


def B(b):
    return z3.BoolVal(b) if isinstance(b, bool) else b


def hull(a, b):
    return Interval(z3.And(a.lo_fin, b.lo_fin), z3.If(a.lo <= b.lo, a.lo, b.lo),
                    z3.And(a.hi_fin, b.hi_fin), z3.If(a.hi >= b.hi, a.hi, b.hi))


def meet(a, b):
    lo = z3.If(z3.And(a.lo_fin, b.lo_fin), z3.If(a.lo >= b.lo, a.lo, b.lo), z3.If(a.lo_fin, a.lo, b.lo))
    hi = z3.If(z3.And(a.hi_fin, b.hi_fin), z3.If(a.hi <= b.hi, a.hi, b.hi), z3.If(a.hi_fin, a.hi, b.hi))
    return Interval(z3.Or(a.lo_fin, b.lo_fin), lo, z3.Or(a.hi_fin, b.hi_fin), hi)


FULL = Interval(z3.BoolVal(False), z3.BitVecVal(0, W), z3.BoolVal(False), z3.BitVecVal(0, W))


def combine(vals, ops):
    """vals: (permits, Interval, ext, visible) per operand; ops between them; X.680 precedence"""
    vals = list(vals)
    ops = list(ops)
    i = 0
    while i < len(ops):          # EXCEPT: X.691 10.3.21 - the EXCEPT part is ignored for the effective constraint
        if ops[i] == 'Except':
            a, b = vals[i], vals[i + 1]
            vals[i:i + 2] = [(z3.And(a[0], z3.Not(b[0])), a[1], a[2], a[3])]
            del ops[i]
        else:
            i += 1
    i = 0
    while i < len(ops):
        if ops[i] == 'Intersection':
            a, b = vals[i], vals[i + 1]
            vals[i:i + 2] = [(z3.And(a[0], b[0]), meet(a[1], b[1]), z3.Or(a[2], b[2]), True)]
            del ops[i]
        else:
            i += 1
    r = vals[0]
    for b in vals[1:]:
        r = (z3.Or(r[0], b[0]), hull(r[1], b[1]), z3.Or(r[2], b[2]), r[3] and b[3])
    return r


class ConstraintSem:
    """X.680 §50 membership and X.691 §10.3 effective (PER-visible) range of integer-valued constraints.
    `kind`: 'value' (INTEGER values) or 'size'.  Returns None where the constraint shape is outside the
    reference (the harness's variant filter must then exclude it or the path is counted as not covered)."""

    def __init__(self, ir):
        self.ir = ir

    def int_of(self, v):
        ir = self.ir
        v = ir.f(v)
        if ir.vn(v) != 'Integer':
            return None
        return bv(v.fields[0])

    # ---- one element: returns (permits(x), Interval, has_ext_marker, per_visible)
    def elem(self, e, x, want_size):
        ir = self.ir
        n = ir.vn(e)
        if n == 'SingleValue':
            i = self.int_of(ir.get(e, 'value'))
            if i is None:
                return None
            ext = B(ir.get(e, 'extensible'))
            if want_size:
                return None
            return (x == i, Interval(z3.BoolVal(True), i, z3.BoolVal(True), i), ext, True)
        if n == 'ValueRange':
            mn = ir.opt(ir.get(e, 'min'))
            mx = ir.opt(ir.get(e, 'max'))
            lo = self.int_of(mn) if mn is not None else None
            hi = self.int_of(mx) if mx is not None else None
            if (mn is not None and lo is None) or (mx is not None and hi is None):
                return None
            if want_size:
                return None
            iv = Interval(z3.BoolVal(lo is not None), lo if lo is not None else z3.BitVecVal(0, W),
                          z3.BoolVal(hi is not None), hi if hi is not None else z3.BitVecVal(0, W))
            return (iv.contains(x), iv, B(ir.get(e, 'extensible')), True)
        if n == 'SizeConstraint':
            if not want_size:
                return None
            inner = ir.f(e).fields[0]
            return self.eos(inner, x, False)
        if n == 'ContainedSubtype':
            sub = ir.get(e, 'subtype')
            if ir.vn(sub) != 'Integer' or want_size:
                return None
            cs = ir.get(ir.f(sub).fields[0], 'constraints')
            r = self.serial(ir.items(cs), x, False)
            if r is None:
                return None
            perm, iv, ext, vis = r
            return (perm, iv, z3.Or(ext, B(ir.get(e, 'extensible'))), vis)
        return None

    # ---- element set.  The lexer turns the flat text `e0 op1 e1 op2 e2 ..` into a right-nested chain; the
    # reference gives the chain the meaning X.680 50.x gives the flat text: EXCEPT binds tightest, then
    # INTERSECTION, then UNION (left-associative).
    def flatten(self, s):
        ir = self.ir
        elems, ops = [], []
        while ir.vn(s) != 'Element':
            so = ir.f(s).fields[0]
            elems.append(ir.get(so, 'base'))
            ops.append(ir.vn(ir.get(so, 'operator')))
            s = ir.get(so, 'operant')
        elems.append(ir.f(s).fields[0])
        return elems, ops

    def eos(self, s, x, want_size):
        elems, ops = self.flatten(s)
        vals = [self.elem(e, x, want_size) for e in elems]
        if any(v is None for v in vals):
            return None
        return combine(vals, ops)

    def constraint(self, c, x, want_size):
        ir = self.ir
        if ir.vn(c) != 'Subtype':
            return None
        ess = ir.f(c).fields[0]
        r = self.eos(ir.get(ess, 'set'), x, want_size)
        if r is None:
            return None
        return (r[0], r[1], z3.Or(r[2], B(ir.get(ess, 'extensible'))), r[3])

    def serial(self, cs, x, want_size):
        perm = z3.BoolVal(True)
        iv = FULL
        ext = z3.BoolVal(False)
        for c in cs:
            r = self.constraint(c, x, want_size)
            if r is None:
                return None
            perm = z3.And(perm, r[0])
            iv = meet(iv, r[1])
            ext = z3.Or(ext, r[2])
        return (perm, iv, ext, True)


RUST_INT_RANGE = {
    'u8': (0, 2**8 - 1), 'u16': (0, 2**16 - 1), 'u32': (0, 2**32 - 1), 'u64': (0, 2**64 - 1),
    'i8': (-2**7, 2**7 - 1), 'i16': (-2**15, 2**15 - 1), 'i32': (-2**31, 2**31 - 1), 'i64': (-2**63, 2**63 - 1),
}
INTEGER_TYPE_NAME = {'Int8': 'i8', 'Uint8': 'u8', 'Int16': 'i16', 'Uint16': 'u16', 'Int32': 'i32', 'Uint32': 'u32',
                     'Int64': 'i64', 'Uint64': 'u64', 'Unbounded': 'Integer'}


def in_rust_type(x, tname):
    lo, hi = RUST_INT_RANGE[tname]
    return z3.And(x >= z3.BitVecVal(lo, W), x <= z3.BitVecVal(hi, W))


# --------------------------------------------------------------------------- IR -> ASN.1 text under a model
class Printer:
    def __init__(self, ir, model):
        self.ir = ir
        self.m = model

    def num(self, term):
        return str(model_int(self.m, term, True))

    def boolean(self, term):
        return bool(model_int(self.m, term))

    def value(self, v):
        ir = self.ir
        n = ir.vn(v)
        v = ir.f(v)
        if n == 'Integer':
            return self.num(v.fields[0])
        if n == 'Boolean':
            return 'TRUE' if self.boolean(v.fields[0]) else 'FALSE'
        if n == 'Null':
            return 'NULL'
        raise Unsupported(f"print value {n}")

    def elem(self, e):
        ir = self.ir
        n = ir.vn(e)
        if n == 'SingleValue':
            s = self.value(ir.get(e, 'value'))
            return s + (', ...' if self.boolean(ir.get(e, 'extensible')) else '')
        if n == 'ValueRange':
            mn = ir.opt(ir.get(e, 'min'))
            mx = ir.opt(ir.get(e, 'max'))
            s = ('MIN' if mn is None else self.value(mn)) + '..' + ('MAX' if mx is None else self.value(mx))
            return s + (', ...' if self.boolean(ir.get(e, 'extensible')) else '')
        if n == 'SizeConstraint':
            return 'SIZE (' + self.eos(ir.f(e).fields[0]) + ')'
        if n == 'ContainedSubtype':
            sub = ir.get(e, 'subtype')
            return 'INCLUDES ' + self.type(sub)
        raise Unsupported(f"print element {n}")

    def eos(self, s, nested=False):
        ir = self.ir
        if ir.vn(s) == 'Element':
            return self.elem(ir.f(s).fields[0])
        so = ir.f(s).fields[0]
        op = {'Union': '|', 'Intersection': '^', 'Except': 'EXCEPT'}[ir.vn(ir.get(so, 'operator'))]
        # the lexer accepts no parentheses inside element sets: the chain is printed flat
        return self.elem(ir.get(so, 'base')) + ' ' + op + ' ' + self.eos(ir.get(so, 'operant'), True)

    def constraint(self, c):
        ir = self.ir
        ess = ir.f(c).fields[0]
        s = self.eos(ir.get(ess, 'set'))
        if self.boolean(ir.get(ess, 'extensible')):
            s += ', ...'
        return '(' + s + ')'

    def constraints(self, cs):
        return ' '.join(self.constraint(c) for c in cs)

    def type(self, t):
        ir = self.ir
        n = ir.vn(t)
        if n == 'Integer':
            cs = ir.items(ir.get(ir.f(t).fields[0], 'constraints'))
            return 'INTEGER' + (' ' + self.constraints(cs) if cs else '')
        raise Unsupported(f"print type {n}")
