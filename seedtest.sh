#!/bin/bash
# usage: seedtest.sh <seed-dir> <property...>   applies the patch to /repo, runs the quick checks, undoes it
set -u
d=$1; shift
cd /repo && git apply --check "$d/patch.diff" || { echo "patch does not apply"; exit 3; }
git apply "$d/patch.diff"
cd /verif
for p in "$@"; do
  ./check $p 2>&1 | grep -E "^VIOLATION|^\[C|violation \[|INCONCL" | cut -c1-260 | head -8
  echo "exit($p)=${PIPESTATUS[0]}"
done
git -C /repo checkout -- .
git -C /repo status --short | head -3
