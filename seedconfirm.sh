#!/bin/bash
# usage: seedconfirm.sh <ID>  : in /tmp/wt-<ID> confirm suite passes with the change, demo fails with / passes without
id=$1; wt=/tmp/wt-$id; sd=/tmp/seed-$id
cd $wt || exit 3
git diff > /tmp/seed-$id/patch.check.diff; cmp -s $sd/patch.diff /tmp/seed-$id/patch.check.diff && echo "worktree diff == patch.diff" || echo "WARNING: worktree diff differs from patch.diff"
cargo test --workspace --offline 2>&1 | grep -E "^test result" | awk '{p+=$4; f+=$6} END {print "suite with change: passed", p, "failed", f}'
cp $sd/demo.rs rasn-compiler-tests/tests/seed_demo.rs
echo "demo WITH change:"; cargo test --offline -p rasn-compiler-tests --test seed_demo 2>&1 | grep -E "^test result|panicked" | head -4
git diff > /tmp/seed-$id/.confirm.diff; git checkout -q -- .
echo "demo WITHOUT change:"; cargo test --offline -p rasn-compiler-tests --test seed_demo 2>&1 | grep -E "^test result|panicked" | head -4
git apply /tmp/seed-$id/.confirm.diff
rm -f rasn-compiler-tests/tests/seed_demo.rs
git status --short
