#!/bin/bash
# usage: runall.sh [tier]  : every claimed check, one after the other; prints one line per property
cd /verif
tier=${1:-quick}
for p in $(python3 -c "import json; print(' '.join(c['property_id'] for c in json.load(open('MANIFEST.json'))['checks']))"); do
  s=$(date +%s)
  ./check $p --tier $tier > /var/tmp/runall-$p.log 2>&1
  rc=$?
  echo "$p exit=$rc $(( $(date +%s) - s ))s $(grep -c '^KNOWN-FINDING' /var/tmp/runall-$p.log) known $(grep -c '^VIOLATION' /var/tmp/runall-$p.log) violations | $(tail -1 /var/tmp/runall-$p.log | cut -c1-200)"
done
