#!/usr/bin/env python3
"""Coverage gap map of the symbolic executions: which blocks of crate-local MIR (rasn_compiler::*) no check ever executed.

usage:  VERIF_COV=/var/tmp/cov ./check Cxx ... (for every check)   then   python3-vt tools/covmap.py /var/tmp/cov [filter]

A source line counts as reached when ANY monomorphised instance executed a block whose terminator lies on it.  Blocks that are
reachable only through unwind edges (drop glue on panic) are ignored.  This is a development aid for widening the enumerated shape
families (DESIGN.md A.6); it decides nothing.
"""
import glob, json, os, pickle, sys
from collections import defaultdict

VERIF = os.path.dirname(os.path.dirname(os.path.abspath(__file__)))


def normal_reachable(body):
    blocks = body['blocks']
    seen, todo = set(), [0]
    while todo:
        b = todo.pop()
        if b in seen or b >= len(blocks):
            continue
        seen.add(b)
        t = blocks[b]['terminator']['kind']
        if isinstance(t, str):
            continue
        for k, v in t.items():
            if k == 'Goto':
                todo.append(v['target'])
            elif k == 'SwitchInt':
                todo += [x[1] for x in v['targets']['branches']] + [v['targets']['otherwise']]
            elif k in ('Call', 'Drop', 'Assert'):
                if v.get('target') is not None:
                    todo.append(v['target'])
            elif k == 'InlineAsm':
                pass
    return seen


def main():
    covdir = sys.argv[1]
    flt = sys.argv[2] if len(sys.argv) > 2 else ''
    cov = defaultdict(set)
    for f in glob.glob(os.path.join(covdir, '*.json')):
        for k, v in json.load(open(f)).items():
            cov[k] |= set(v)
    line_total = defaultdict(set)      # file -> lines with a normally reachable block
    line_hit = defaultdict(set)
    fn_of_line = defaultdict(dict)     # file -> line -> function name
    fn_never = {}                      # name -> file:line of functions no instance of which ran
    for dump in glob.glob(os.path.join(VERIF, '.cache', 'smir', '*.pickle')):
        d = pickle.load(open(dump, 'rb'))
        for inst in d['instances'].values():
            bl = inst.get('block_lines')
            if not bl or 'body' not in inst:
                continue
            file = inst.get('file', '?')
            if 'rasn-compiler/src/' in file:
                file = 'rasn-compiler/src/' + file.split('rasn-compiler/src/', 1)[1]     # the scratch copy differs per dump
            if '/rasn-compiler/src/' not in file and not file.startswith('rasn-compiler/src') and 'src/' not in file:
                continue
            name = inst['name']
            reach = normal_reachable(inst['body'])
            hit = cov.get(name, set())
            for b in reach:
                ln = bl[b]
                line_total[file].add(ln)
                fn_of_line[file].setdefault(ln, name)
                if b in hit:
                    line_hit[file].add(ln)
            if not hit:
                fn_never.setdefault(name, f'{file}:{bl[0]}')
            else:
                fn_never[name] = None
    tot = sum(len(v) for v in line_total.values())
    hit = sum(len(line_hit[f] & line_total[f]) for f in line_total)
    print(f'# lines with reachable MIR blocks: {tot}, reached by some check: {hit} ({100.0*hit/max(tot,1):.1f}%)')
    for file in sorted(line_total):
        if flt and flt not in file:
            continue
        miss = sorted(line_total[file] - line_hit[file])
        print(f'\n## {file}: {len(line_total[file]) - len(miss)}/{len(line_total[file])} lines reached')
        # group consecutive misses
        groups, cur = [], []
        for ln in miss:
            if cur and ln - cur[-1] > 2:
                groups.append(cur); cur = []
            cur.append(ln)
        if cur:
            groups.append(cur)
        for g in groups:
            fn = fn_of_line[file].get(g[0], '?')
            print(f'   {g[0]}-{g[-1]}  ({len(g)} lines)  {fn[-90:]}')


if __name__ == '__main__':
    main()
