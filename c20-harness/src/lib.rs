//! Instantiates the generic public entry points of rasn_compiler for the two backends so that the MIR front end
//! (run over this crate) can dump their monomorphised bodies.  Not linked into anything.
use rasn_compiler::prelude::*;
use rasn_compiler::{Compiler, CompilerReady};

pub fn compile_rasn(c: Compiler<RasnBackend, CompilerReady>) -> Result<Vec<CompilerError>, CompilerError> {
    c.compile()
}

pub fn compile_ts(c: Compiler<TypescriptBackend, CompilerReady>) -> Result<Vec<CompilerError>, CompilerError> {
    c.compile()
}

// ---- builder transitions (one function per state x method), composed by the harness in every order -----------------
use rasn_compiler::{CompilerMissingParams, CompilerOutputSet, CompilerSourcesSet, OutputMode};
use std::path::PathBuf;
type B = RasnBackend;

pub fn b_new() -> Compiler<B, CompilerMissingParams> {
    Compiler::<B, _>::new()
}
pub fn m_literal(c: Compiler<B, CompilerMissingParams>, s: String) -> Compiler<B, CompilerSourcesSet> {
    c.add_asn_literal(s)
}
pub fn m_path(c: Compiler<B, CompilerMissingParams>, p: PathBuf) -> Compiler<B, CompilerSourcesSet> {
    c.add_asn_by_path(p)
}
pub fn m_paths(c: Compiler<B, CompilerMissingParams>, p: Vec<PathBuf>) -> Compiler<B, CompilerSourcesSet> {
    c.add_asn_sources_by_path(p.into_iter())
}
pub fn m_mode(c: Compiler<B, CompilerMissingParams>, m: OutputMode) -> Compiler<B, CompilerOutputSet> {
    c.set_output_mode(m)
}
pub fn o_literal(c: Compiler<B, CompilerOutputSet>, s: String) -> Compiler<B, CompilerReady> {
    c.add_asn_literal(s)
}
pub fn o_path(c: Compiler<B, CompilerOutputSet>, p: PathBuf) -> Compiler<B, CompilerReady> {
    c.add_asn_by_path(p)
}
pub fn o_paths(c: Compiler<B, CompilerOutputSet>, p: Vec<PathBuf>) -> Compiler<B, CompilerReady> {
    c.add_asn_sources_by_path(p.into_iter())
}
pub fn s_literal(c: Compiler<B, CompilerSourcesSet>, s: String) -> Compiler<B, CompilerSourcesSet> {
    c.add_asn_literal(s)
}
pub fn s_path(c: Compiler<B, CompilerSourcesSet>, p: PathBuf) -> Compiler<B, CompilerSourcesSet> {
    c.add_asn_by_path(p)
}
pub fn s_paths(c: Compiler<B, CompilerSourcesSet>, p: Vec<PathBuf>) -> Compiler<B, CompilerSourcesSet> {
    c.add_asn_sources_by_path(p.into_iter())
}
pub fn s_mode(c: Compiler<B, CompilerSourcesSet>, m: OutputMode) -> Compiler<B, CompilerReady> {
    c.set_output_mode(m)
}
pub fn r_literal(c: Compiler<B, CompilerReady>, s: String) -> Compiler<B, CompilerReady> {
    c.add_asn_literal(s)
}
pub fn r_path(c: Compiler<B, CompilerReady>, p: PathBuf) -> Compiler<B, CompilerReady> {
    c.add_asn_by_path(p)
}
pub fn r_paths(c: Compiler<B, CompilerReady>, p: Vec<PathBuf>) -> Compiler<B, CompilerReady> {
    c.add_asn_sources_by_path(p.into_iter())
}

// ---- the same builder prefix for the TypeScript backend, and the backend swap ------------------------------------------
type T = TypescriptBackend;

pub fn tb_new() -> Compiler<T, CompilerMissingParams> {
    Compiler::<T, _>::new()
}
pub fn tm_literal(c: Compiler<T, CompilerMissingParams>, s: String) -> Compiler<T, CompilerSourcesSet> {
    c.add_asn_literal(s)
}
pub fn tm_mode(c: Compiler<T, CompilerMissingParams>, m: OutputMode) -> Compiler<T, CompilerOutputSet> {
    c.set_output_mode(m)
}
pub fn to_literal(c: Compiler<T, CompilerOutputSet>, s: String) -> Compiler<T, CompilerReady> {
    c.add_asn_literal(s)
}
pub fn ts_mode(c: Compiler<T, CompilerSourcesSet>, m: OutputMode) -> Compiler<T, CompilerReady> {
    c.set_output_mode(m)
}
pub fn x_to_ts(c: Compiler<B, CompilerReady>, b: T) -> Compiler<T, CompilerReady> {
    c.with_backend(b)
}
pub fn x_to_rasn(c: Compiler<T, CompilerReady>, b: B) -> Compiler<B, CompilerReady> {
    c.with_backend(b)
}

// ---- a configured backend: the builder must carry it through every transition -------------------------------------------
pub fn b_new_cfg(cfg: RasnConfig) -> Compiler<B, CompilerMissingParams> {
    Compiler::<B, _>::new_with_config(cfg)
}
