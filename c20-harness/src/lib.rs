//! Instantiates the generic public entry points of rasn_compiler for the two backends so that the MIR front end
//! (run over this crate) can dump their monomorphised bodies.  Not linked into anything.
use rasn_compiler::prelude::*;
use rasn_compiler::{Compiler, CompilerReady};

pub fn compile_rasn(c: Compiler<RasnBackend, CompilerReady>) -> Result<Vec<CompilerError>, CompilerError> {
    c.compile()
}

pub fn compile_ts(c: Compiler<TypescriptBackend, CompilerReady>) -> Result<Vec<CompilerError>, CompilerError> {
    c.compile()
}
