#!/bin/bash
# usage: runsome.sh <tier> <ids...>
cd /verif
tier=$1; shift
for p in "$@"; do
  s=$(date +%s)
  ./check $p --tier $tier > /var/tmp/runall-$p.log 2>&1
  rc=$?
  echo "$p exit=$rc $(( $(date +%s) - s ))s $(grep -c '^KNOWN-FINDING' /var/tmp/runall-$p.log) known $(grep -c '^VIOLATION' /var/tmp/runall-$p.log) violations | $(tail -1 /var/tmp/runall-$p.log | cut -c1-200)"
done
