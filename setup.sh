#!/bin/bash
# builds the MIR front end (nightly, rustc_private) and the native runner (stable); offline
set -e
cd "$(dirname "$0")"
export CARGO_NET_OFFLINE=true
mkdir -p .cache
( cd smir-driver && CARGO_TARGET_DIR=../.cache/driver-target cargo +nightly build --release --offline )
cp /repo/Cargo.lock runner/Cargo.lock
( cd runner && RUSTUP_TOOLCHAIN=stable CARGO_TARGET_DIR=../.cache/runner-target cargo build --offline )
python3-vt -c "import z3; print('z3', z3.get_version_string())"
