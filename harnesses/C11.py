"""C11  The result is a deterministic function of the set of definitions - the sequential part.

Whole pipeline from MIR (pipe bridge): the same definitions are compiled in every order of the assignments inside a
module, of the modules inside a source and of the sources, and again after other compilations in the same (modelled)
process; z3 decides that all generated texts are equal for every value of the integers written in the text.
Threads and real-world-size inputs are outside (see MANIFEST level_note)."""
import itertools, re, z3
from mirsym.core import *
from mirsym import pipe, native
from mirsym.harness import Checker, model_int, program

ROOTS = []
ASSUMPTIONS = [
    "sequential part only: compile_to_string (rasn backend) runs from real MIR through /verif/pipe-harness; the integers written in the modules are 128-bit solver variables (substituted between lexer and validator); process state is what the executor models - statics / LazyLock tables shared by all compilations of a job, HashMap / HashSet as membership structures whose ITERATION ORDER is arbitrary: every iteration forks into all n! orders (std seeds them randomly), so an output that depends on such an order differs between two compilations on some explored path",
    "orders: every permutation of the 3 (thorough 4) assignments of a module with mutual references; both orders of two modules inside one source and of their assignments; both orders of two sources; a compilation repeated after a different compilation in the same process; all texts must be equal character by character (rendered integers as terms) and the numbers of warnings equal",
    "threads (the property's 'another thread', 1..16 concurrent compilations) and the 670 real-world modules are NOT covered: mirsym executes single-threaded MIR and a whole real-world module exceeds the per-path budget by orders of magnitude",
]
P1, P2 = 1000003, 1000033
H = "DEFINITIONS AUTOMATIC TAGS ::= BEGIN"


def prepare():
    pipe.dump()


ASSIGNMENTS = [
    f"Aa ::= SEQUENCE {{ b Bb OPTIONAL, n INTEGER (0..{P1}) DEFAULT 0 }}",
    f"Bb ::= CHOICE {{ a Aa, z NULL, e Ee }}",
    f"vv INTEGER ::= {P2}",
    "Ee ::= ENUMERATED { x, y, ..., z }",
]
M2A = [f"Cc ::= SEQUENCE {{ x Dd, s OCTET STRING (SIZE (1..{P1})) }}", "ww BOOLEAN ::= TRUE"]
M2B = [f"Dd ::= INTEGER (-5..{P2})", "Ff ::= SET OF Dd"]


def cases(tier):
    out = []
    k = 3 if tier == 'quick' else 4
    base = ASSIGNMENTS[:k]
    # 1. assignments inside one module
    perms = list(itertools.permutations(range(k)))
    for chunk in range(0, len(perms), 3):
        ps = [perms[0]] + [p for p in perms[chunk:chunk + 3] if p != perms[0]]
        out.append((f"assignments permuted [{chunk // 3}]", [[f"M {H} {' '.join(base[i] for i in p)} END"] for p in ps]))
    # 2. two modules in one source: order of the modules, order inside each
    def two(mods_first, a_order, b_order):
        ma = f"Ma {H} IMPORTS Dd FROM Mb; {' '.join(M2A[i] for i in a_order)} END"
        mb = f"Mb {H} {' '.join(M2B[i] for i in b_order)} END"
        return (ma + "\n" + mb) if mods_first else (mb + "\n" + ma)
    out.append(("modules permuted inside a source", [[two(True, (0, 1), (0, 1))], [two(False, (0, 1), (0, 1))], [two(False, (1, 0), (1, 0))]]))
    # 3. two sources
    ma = f"Ma {H} IMPORTS Dd FROM Mb; {' '.join(M2A)} END"
    mb = f"Mb DEFINITIONS IMPLICIT TAGS EXTENSIBILITY IMPLIED ::= BEGIN {' '.join(M2B)} END"
    out.append(("sources permuted", [[ma, mb], [mb, ma]]))
    # 3b. two modules carrying the SAME module name (two editions) with different tag defaults and disjoint definitions
    e1 = f"Ed DEFINITIONS IMPLICIT TAGS ::= BEGIN Alpha ::= SEQUENCE {{ a [1] INTEGER (0..{P1}), b [2] BOOLEAN }} END"
    e2 = f"Ed DEFINITIONS EXPLICIT TAGS ::= BEGIN Beta ::= SEQUENCE {{ c [1] INTEGER (0..{P2}), d [2] BOOLEAN }} END"
    out.append(("same module name twice, sources permuted", [[e1, e2], [e2, e1]]))
    out.append(("same module name twice, inside one source", [[e1 + "\n" + e2], [e2 + "\n" + e1]]))
    # 3c. what may follow the assignments of a module: an ENCODING-CONTROL section, a comment behind END - in a module that is
    # not the last one of its source
    ec = f"Sched {H} Slot ::= SEQUENCE {{ n INTEGER (0..{P1}) }} ENCODING-CONTROL XER GLOBAL-DEFAULTS MODIFIED-ENCODINGS ; END"
    un = f"Units {H} Unit ::= ENUMERATED {{ s, m }} lim INTEGER ::= {P2} END -- units"
    out.append(("modules with an ENCODING-CONTROL section / a comment behind END, permuted inside a source and over sources", [[ec + "\n" + un], [un + "\n" + ec], [ec, un], [un, ec]]))
    # 4. history: the same compilation before and after a different one
    other = f"Zz DEFINITIONS EXPLICIT TAGS EXTENSIBILITY IMPLIED ::= BEGIN Qq ::= SEQUENCE {{ q [3] IA5String (FROM (\"a\"..\"f\")), ... }} rr INTEGER ::= {P1} END"
    first = [f"M {H} {' '.join(base)} END"]
    out.append(("repeated after another compilation", [first, [other], first], (0, 2)))
    out.append(("repeated at once", [[ma, mb], [ma, mb]]))
    # the compilation in between uses the SAME type and value names with another meaning (stale caches keyed by name would show)
    g1 = [f"Gauges {H} limit INTEGER ::= {P1} Level ::= INTEGER (0..limit) Reading ::= SEQUENCE {{ raw INTEGER (0..limit), e Ee DEFAULT x }} Ee ::= ENUMERATED {{ x, y }} END"]
    g2 = [f"Tanks {H} Level ::= INTEGER {{ empty(0), limit({P2}) }} (empty..limit) Reading ::= SEQUENCE {{ raw Level DEFAULT limit }} Ee ::= ENUMERATED {{ y, x }} x Ee ::= y END"]
    out.append(("repeated after a compilation that reuses its names", [g1, g2, g1], (0, 2)))
    out.append(("repeated after a compilation that reuses its names (2)", [g2, g1, g2], (0, 2)))
    # values imported from one module whose governing types live in a third module that the importer does not import: the
    # linker adds those types to the importer's imports (any order it derives from a hashed container would show here,
    # the executor explores every iteration order of HashMap / HashSet)
    kinds = f"Kinds {H} Alpha ::= INTEGER (0..{P1}) Beta ::= BOOLEAN Gamma ::= ENUMERATED {{ g1, g2 }} END"
    consts = f"Constants {H} IMPORTS Alpha, Beta, Gamma FROM Kinds; va Alpha ::= {P2} vb Beta ::= TRUE vc Gamma ::= g2 END"
    consumer = f"Consumer {H} IMPORTS va, vb, vc FROM Constants; Rec ::= SEQUENCE {{ a INTEGER DEFAULT 1 }} END"
    out.append(("associated type imports, repeated at once", [[consumer, consts, kinds], [consumer, consts, kinds]]))
    out.append(("associated type imports, sources permuted", [[consumer, consts, kinds], [kinds, consts, consumer]]))
    # two compilers are SET UP before either runs (state kept per process and re-armed by constructing a backend would show)
    unsup = f"Uu {H} Temperature ::= REAL Clock ::= TIME Pressure ::= REAL Kept ::= SEQUENCE {{ a INTEGER (0..{P1}) }} vv INTEGER ::= {P2} END"
    out.append(("two compilers set up before either runs, same input", [[unsup], [unsup]], None, 'pair'))
    out.append(("two compilers set up before either runs, different inputs", [first, [unsup], first], (0, 2), 'pair3'))
    return out


def jobs(tier, seed):
    return [f"case{i}" for i in range(len(cases(tier)))]


def norm(s):
    return re.sub(r'\s+', ' ', s or '').strip()


def run_job(prog_unused, job, tier, seed):
    prog = program(pipe.dump())
    chk = Checker(prog, job)
    chk.ex.max_path_steps = 60000000
    pp = pipe.Pipe(prog)
    runner = native.Runner()
    case = cases(tier)[int(job[4:])]
    name, variants = case[0], case[1]
    compare = case[2] if len(case) > 2 else None
    mode = case[3] if len(case) > 3 else None
    v = [z3.BitVec('p1', 128), z3.BitVec('p2', 128)]
    sub = {P1: v[0], P2: v[1]}
    sig = f"C11 {name}"

    def conc(srcs, vals):
        return [s.replace(str(P1), str(vals[0])).replace(str(P2), str(vals[1])) for s in srcs]
    try:
        def run(ex):
            ex.assume(z3.And(v[0] >= 1, v[1] >= -5))
            outs = []
            if mode == 'pair':
                ex.ghost['pipe_subst_count'] = 0
                ra, rb = pp.compile_pair(ex, variants[0], variants[1], sub)
                return [ra + (1, 0), rb + (1, 0)]
            if mode == 'pair3':
                # first alone, then [other, first] set up together: the second result of the pair against the first alone
                ex.ghost['pipe_subst_count'] = 0
                r0 = pp.compile(ex, variants[0], sub)
                ra, rb = pp.compile_pair(ex, variants[1], variants[2], sub)
                return [r0 + (1, 0), ra + (1, 0), rb + (1, 0)]
            for srcs in variants:
                ex.ghost['pipe_subst_count'] = 0
                h0 = ex.ghost.get('hash_iterations', 0)
                outs.append(pp.compile(ex, srcs, sub) + (ex.ghost.get('pipe_subst_count', 0), ex.ghost.get('hash_iterations', 0) - h0))
            return outs
        for r in chk.explore(run):
            if r.kind == 'panic':
                chk.violation(sig + ' panic', f"compilation panics: {r.value[0]}", {'kind': 'sources', 'a': conc(variants[0], [5, 9]), 'b': conc(variants[-1], [5, 9])})
                continue
            if r.kind != 'ok':
                continue
            outs = r.value
            if any(o[4] == 0 for o in outs):
                chk.res.inconclusive.append(f"{sig}: placeholder not found in a variant")
                continue
            chk.witness('placeholders symbolic', True)
            pairs = [(compare[0], compare[1])] if compare else [(0, j) for j in range(1, len(outs))]
            for i, j in pairs:
                a, b = outs[i], outs[j]
                chk.res.obligations += 1
                diff = None
                if a[0] != b[0]:
                    diff = (f"variant {i} gives {a[0]}, variant {j} gives {b[0]}", None)
                elif a[0] == 'ok':
                    if a[2] != b[2]:
                        diff = (f"{a[2]} warning(s) for variant {i}, {b[2]} for variant {j}", None)
                    else:
                        d = pipe.texts_equal(chk, r.pc, a[1], b[1])
                        if d is not None:
                            pos, m = d
                            diff = (f"bindings differ at offset {pos}: `..{pipe.text_repr(a[1][max(0, pos - 60):pos + 60])}` vs `..{pipe.text_repr(b[1][max(0, pos - 60):pos + 60])}`", m)
                if diff is None:
                    chk.res.discharged += 1
                    continue
                msg, m = diff
                if m is None:
                    m = chk.model_of(r.pc)
                vals = [model_int(m, x, True) if m is not None else d0 for x, d0 in zip(v, (5, 9))]
                sa, sb = conc(variants[i], vals), conc(variants[j], vals)
                def differ(ra, rb):
                    return not (ra.get('ok') == rb.get('ok') and (not ra.get('ok') or (norm(ra['generated']) == norm(rb['generated']) and len(ra['warnings']) == len(rb['warnings']))))
                if mode in ('pair', 'pair3'):
                    fresh = native.Runner()
                    try:
                        if mode == 'pair':
                            o = fresh.call({'cmd': 'compile_pair', 'a': conc(variants[0], vals), 'b': conc(variants[1], vals), 'config': {}})
                            same = not differ(o['a'], o['b'])
                        else:
                            alone = fresh.compile(conc(variants[0], vals))
                            o = fresh.call({'cmd': 'compile_pair', 'a': conc(variants[1], vals), 'b': conc(variants[2], vals), 'config': {}})
                            same = not differ(alone, o['b'])
                    finally:
                        fresh.close()
                    if not same:
                        chk.violation(sig, f"{msg} [values {vals}] (two compilers set up before either runs; native replay differs too): {sa!r}", {'kind': mode, 'sources': [conc(s, vals) for s in variants]})
                    else:
                        chk.res.inconclusive.append(f"not reproduced natively: {sig}: {msg[:300]}")
                    continue
                if compare:
                    same = True      # only the history replay below can confirm
                else:
                    same = not differ(runner.compile(sa), runner.compile(sb))
                    # a difference that comes from a randomly seeded container shows only in some runs: up to 8 more pairs, each in a fresh process
                    for _ in range(8 if same and r.value and any(o[5] for o in outs) else 0):
                        fresh = native.Runner()
                        try:
                            if differ(fresh.compile(sa), fresh.compile(sb)):
                                same = False
                                break
                        finally:
                            fresh.close()
                if not same:
                    chk.violation(sig, f"{msg} [values {vals}]: {sa!r} vs {sb!r}", {'kind': 'sources', 'a': sa, 'b': sb})
                elif compare:
                    # a history effect cannot be replayed by two independent native compilations: replay the whole history in one process
                    # a fresh process: the history to replay must not start from the state earlier replays left behind
                    fresh = native.Runner()
                    try:
                        hist = [fresh.compile(conc(s, vals)) for s in variants]
                    finally:
                        fresh.close()
                    if hist[compare[0]].get('generated') != hist[compare[1]].get('generated'):
                        chk.violation(sig, f"{msg} [values {vals}] (native history replay differs too)", {'kind': 'history', 'sources': [conc(s, vals) for s in variants]})
                    else:
                        chk.res.inconclusive.append(f"not reproduced natively: {sig}: {msg[:300]}")
                else:
                    chk.res.inconclusive.append(f"not reproduced natively: {sig}: {msg[:300]}")
        chk.sample({'case': name, 'variants': len(variants)})
        if job == 'case0':
            # inventory (not a solver verdict): the statics reachable from compile_to_string in the MIR dump; the thread part of
            # the property rests on none of them being written after its once-guarded initialisation
            sts = []
            for a in prog.allocs.values():
                st = a.get('Static')
                if st and (st.get('init') or {}).get('mutability') == 'Mut':
                    sts.append(f"{st.get('name')}: {prog.ty(st['ty'])['str'][:60]}")
            chk.res.notes.append(f"statics with interior mutability reachable from compile_to_string ({len(sts)}): {sorted(sts)}; thread-local: {sorted(v['name'] for v in prog.tls.values())}")
    finally:
        runner.close()
    chk.res.bounds = {'assignments': '3 (4) per module', 'modules': '<= 2', 'sources': '<= 2', 'integers': '2 x i128 symbolic'}
    return chk.res


def replay_file(path):
    import json
    d = json.load(open(path))
    rp = d.get('replay', d)
    runner = native.Runner()
    try:
        if rp.get('kind') in ('pair', 'pair3'):
            if rp['kind'] == 'pair':
                o = runner.call({'cmd': 'compile_pair', 'a': rp['sources'][0], 'b': rp['sources'][1], 'config': {}})
                ra, rb = o['a'], o['b']
            else:
                ra = runner.compile(rp['sources'][0])
                rb = runner.call({'cmd': 'compile_pair', 'a': rp['sources'][1], 'b': rp['sources'][2], 'config': {}})['b']
            same = ra.get('ok') == rb.get('ok') and (not ra.get('ok') or (norm(ra['generated']) == norm(rb['generated']) and len(ra['warnings']) == len(rb['warnings'])))
        elif rp.get('kind') == 'history':
            outs = [runner.compile(s) for s in rp['sources']]
            same = outs[0].get('generated') == outs[-1].get('generated')
        else:
            # a difference caused by a randomly seeded container shows only in some runs: several pairs, fresh processes
            same = True
            for k in range(9):
                rr = runner if k == 0 else native.Runner()
                try:
                    ra, rb = rr.compile(rp['a']), rr.compile(rp['b'])
                finally:
                    if k:
                        rr.close()
                same = ra.get('ok') == rb.get('ok') and (not ra.get('ok') or (norm(ra['generated']) == norm(rb['generated']) and len(ra['warnings']) == len(rb['warnings'])))
                if not same:
                    break
    finally:
        runner.close()
    print('REPRODUCED' if not same else 'not reproduced')
    return 1 if not same else 0
