"""C05  Extension markers, additions and addition groups are preserved."""
import itertools, z3
from mirsym.core import *
from mirsym import bridge, native, tokproj
from mirsym.harness import Checker, model_int
from mirsym.refsem import IR

ROOTS = list(bridge.GEN_ROOTS)
ASSUMPTIONS = [
    "text shapes: lexer+linker run natively (shape bridge), generator from real MIR; expectation derived from the text",
    "IR level: the generator is run with the extension index `extensible: Option<usize>` a free variable over all usize (and the module's extensibility default symbolic) on containers of n members; z3 decides the per-member annotations and #[non_exhaustive]",
    "CHOICE addition groups are flattened into individual extension additions (rasn has no group notion for CHOICE): accepted",
    "a second ellipsis (extension end marker) is rejected by the lexer: such shapes are counted as rejected, not judged",
]
NCHUNK = 16
TYPES = ['BOOLEAN', 'INTEGER', 'NULL']


def member(i):
    return f"m{i} {TYPES[i % 3]}"


def enum_item(i):
    return f"e{i}"


VERSION_LAYOUTS = ['2: ', '2 : ', '2:', '10 :\n ', '3 -- v3 -- : ', '2\t:\t']


def shapes(tier):
    """(sig, text, info)"""
    out = []
    rmax = 2 if tier == 'quick' else 4
    add_patterns = [[], ['p'], ['p', 'p'], ['g2'], ['p', 'g2'], ['g1', 'p'], ['g2', 'g1'], ['g2v'], ['p', 'g1v'], ['g2o'], ['g1o', 'g2'], ['g2d', 'p']]
    if tier != 'quick':
        add_patterns += [['p', 'p', 'p'], ['g3'], ['g2', 'p', 'g1'], ['g1', 'g1', 'g1'], ['p', 'g3', 'p', 'p'], ['p', 'p', 'p', 'p', 'p', 'p'], ['g2v'], ['p', 'g1v', 'g2']]
    for cont, implied, nested in itertools.product(['SEQUENCE', 'SET', 'CHOICE', 'ENUMERATED'], [False, True], [False, True]):
        if cont == 'ENUMERATED' and nested and tier == 'quick':
            continue
        for r in range(0, rmax + 1):
            for marker in (False, True):
                for adds in (add_patterns if marker else [[]]):
                    if cont == 'ENUMERATED' and any(a != 'p' for a in adds):
                        continue
                    if r == 0 and not adds and cont in ('CHOICE', 'ENUMERATED'):
                        continue
                    for trailing_comma in ((False, True) if (tier != 'quick' and marker and not adds) else (False,)):
                        k = 0
                        parts = []
                        exp = []   # expected members: (name, kind) kind in root/add/group:[names]
                        for i in range(r):
                            parts.append(enum_item(k) if cont == 'ENUMERATED' else member(k))
                            exp.append((f"e{k}" if cont == 'ENUMERATED' else f"m{k}", 'root'))
                            k += 1
                        if marker:
                            parts.append('...')
                        for a in adds:
                            if a == 'p':
                                parts.append(enum_item(k) if cont == 'ENUMERATED' else member(k))
                                exp.append((f"e{k}" if cont == 'ENUMERATED' else f"m{k}", 'add'))
                                k += 1
                            else:
                                n = int(a[1])
                                names = []
                                ms = []
                                for j_ in range(n):
                                    # 'o': every component of the group OPTIONAL, 'd': DEFAULT / OPTIONAL mixed (the group as a whole is
                                    # still ONE optional member); CHOICE alternatives have no optionality
                                    sfx = ''
                                    if cont != 'CHOICE' and a.endswith('o'):
                                        sfx = ' OPTIONAL'
                                    elif cont != 'CHOICE' and a.endswith('d'):
                                        sfx = {'BOOLEAN': ' DEFAULT TRUE', 'INTEGER': ' DEFAULT 5'}.get(TYPES[k % 3], ' OPTIONAL') if j_ % 2 == 0 else ' OPTIONAL'
                                    ms.append(member(k) + sfx)
                                    names.append(f"m{k}")
                                    k += 1
                                # VersionNumber ::= number ":" - two lexical items, any layout between them (rotated over the shapes)
                                ver = VERSION_LAYOUTS[len(out) % len(VERSION_LAYOUTS)] if a.endswith('v') else ''
                                parts.append(f"[[ {ver}{', '.join(ms)} ]]")
                                exp.append((names[0], ('group', names)))
                        body = ', '.join(parts) + (',' if trailing_comma else '')
                        if cont == 'ENUMERATED' and not parts:
                            continue
                        ty = f"{cont} {{ {body} }}"
                        if nested:
                            text_body = f"T ::= SEQUENCE {{ o {ty} }}"
                            tname = 'TO'
                        else:
                            text_body = f"T ::= {ty}"
                            tname = 'T'
                        hdr = 'AUTOMATIC TAGS' + (' EXTENSIBILITY IMPLIED' if implied else '')
                        text = f"M DEFINITIONS {hdr} ::= BEGIN {text_body} END"
                        sig = f"C05 {cont}{' nested' if nested else ''}{' IMPLIED' if implied else ''} root={r} marker={marker} adds={'+'.join(adds) or '-'}"
                        out.append((sig, text, {'cont': cont, 'exp': exp, 'marker': marker, 'implied': implied, 'tname': tname, 'nested': nested}))
    return out


def attr_flags(attrs):
    fl = set()
    for a in attrs:
        if a.path == 'rasn':
            for it in a.items():
                if it and isinstance(it[0], tokproj.TIdent):
                    fl.add(tokproj.idname(it[0]))
        elif a.path:
            fl.add('#' + a.path)
    return fl


def judge(items, info, chk, pc, nwarn):
    fails = []
    if nwarn:
        return [('warning', f"{nwarn} warning(s): definition not generated")]
    its = {it.name: it for it in tokproj.find_items(items) if it.kind in ('struct', 'enum')}
    t = its.get(info['tname'])
    if t is None:
        return [('missing', f"generated item {info['tname']} not found")]
    flags = attr_flags(t.attrs)
    want_ext = info['marker'] or info['implied']
    if ('#non_exhaustive' in flags) != want_ext:
        fails.append(('non_exhaustive', f"#[non_exhaustive]={'#non_exhaustive' in flags}, expected {want_ext}"))
    members = t.fields if t.kind == 'struct' else t.variants
    exp = info['exp']
    cont = info['cont']
    # expected member list
    want = []
    for name, kind in exp:
        if kind == 'root':
            want.append((name, set()))
        elif kind == 'add':
            want.append((name, {'extension_addition'}))
        else:
            if cont == 'CHOICE':
                for nm in kind[1]:
                    want.append((nm, {'extension_addition'}))
            else:
                want.append(('ext_group_' + name, {'extension_addition_group'}))
    got = [(m.name, attr_flags(m.attrs) & {'extension_addition', 'extension_addition_group'}) for m in members]
    if [g[0] for g in got] != [w[0] for w in want]:
        fails.append(('members', f"members {[g[0] for g in got]}, expected {[w[0] for w in want]}"))
    else:
        for g, w in zip(got, want):
            if g[1] != w[1]:
                fails.append(('marking', f"member {g[0]} marked {sorted(g[1])}, expected {sorted(w[1])}"))
    # groups: optional member of a hoisted struct with exactly the grouped components in order
    if cont in ('SEQUENCE', 'SET'):
        for name, kind in exp:
            if isinstance(kind, tuple):
                fld = next((m for m in members if m.name == 'ext_group_' + name), None)
                if fld is None:
                    continue
                tys = tokproj.safe_str(tokproj.TS(fld.ty)).replace(' ', '')
                if not tys.startswith('Option<'):
                    fails.append(('group-optional', f"group member type {tys} is not Option<_>"))
                    continue
                hoisted = its.get(tys[len('Option<'):-1])
                if hoisted is None:
                    fails.append(('group-struct', f"hoisted group struct {tys} not generated"))
                elif [f.name for f in hoisted.fields] != kind[1]:
                    fails.append(('group-members', f"group struct has {[f.name for f in hoisted.fields]}, expected {kind[1]}"))
    return fails


def on_reject(chk, sigp, text, info, ra):
    """every shape is valid X.680; the one documented gap of the lexer is `[[ ]]` inside a SET (reported loudly as a syntax error,
    DESIGN A.2 'outside').  Any other rejected shape means an extensible type is not generated at all."""
    import re
    if re.search(r'\bSET \{[^{}]*\[\[', text):
        return
    e = ra.get('error') or {}
    chk.violation(sigp + ' rejected', f"valid extensible type rejected ({str(e.get('display'))[:80]}): {text}", {'kind': 'text', 'text': text})


def jobs(tier, seed):
    return [f"chunk{i}" for i in range(NCHUNK)] + ['ir-seq', 'ir-set', 'ir-choice', 'ir-enum']


# ---- IR level: extension index symbolic over all usize ----------------------------------------------------------
def run_ir(prog, chk, gen, runner, job, tier):
    cont = {'ir-seq': 'SEQUENCE', 'ir-set': 'SET', 'ir-choice': 'CHOICE', 'ir-enum': 'ENUMERATED'}[job]
    nmax = 3 if tier == 'quick' else 6
    for n in range(1, nmax + 1):
        if cont == 'ENUMERATED':
            body = ', '.join(f"e{i}" for i in range(n))
        else:
            body = ', '.join(member(i) for i in range(n))
        for implied_text in ('', ' EXTENSIBILITY IMPLIED'):
            text = f"M DEFINITIONS AUTOMATIC TAGS{implied_text} ::= BEGIN T ::= {cont} {{ {body} }} END"
            ra = runner.compile(text, backend='ir')
            if not ra.get('ok'):
                chk.res.inconclusive.append(f"base text rejected: {text}")
                continue
            k = z3.BitVec('k', 64)

            def run(ex):
                v = gen.load_module(ex, ra['ir'][0]['tlds'])
                ir = IR(ex)
                tld = ir.f(ir.items(v)[0])
                td = ir.f(tld).fields[0]
                ty = ir.f(ir.get(td, 'ty'))
                inner = ty.fields[0]
                # overwrite `extensible` by a symbolic Option<usize>
                fidx = ex.p.field_index(inner.ty, 0, 'extensible')
                opt_ty = ex.p.ty(inner.ty)['adt']['variants'][0]['fields'][fidx]['ty']
                some_v = ex.choose(2, 'extensible-some') == 1
                inner.fields[fidx] = Adt(opt_ty, ex.p.variant_index(opt_ty, 'Some'), [k]) if some_v else Adt(opt_ty, ex.p.variant_index(opt_ty, 'None'), [])
                r = gen.generate_module(ex, v)
                return {'some': some_v, 'mods': [gen.result_text(ex, r)], 'ts': list(ex.ghost.get('to_string_ts', []))}
            for r in chk.explore(run):
                if r.kind == 'panic':
                    # a panic needs an extension index the front end can produce: k <= n
                    if chk.reachable(r.pc, z3.ULE(k, n)):
                        chk.violation(f"C05 ir panic {cont} n={n}", f"generator panics for a reachable extension index: {r.value[0]}", {'kind': 'ir', 'text': text})
                    continue
                if r.kind != 'ok' or not r.value['ts']:
                    continue
                items = tokproj.parse_items(r.value['ts'][-1])
                its = {it.name: it for it in tokproj.find_items(items) if it.kind in ('struct', 'enum')}
                t = its.get('T')
                if t is None:
                    chk.res.inconclusive.append(f"T not generated in ir job {cont} n={n}")
                    continue
                members = t.fields if t.kind == 'struct' else t.variants
                flags = attr_flags(t.attrs)
                some_v = r.value['some']
                want_ext = some_v or bool(implied_text)
                chk.res.obligations += 1
                if ('#non_exhaustive' in flags) == want_ext:
                    chk.res.discharged += 1
                else:
                    chk.violation(f"C05 ir non_exhaustive {cont} n={n} some={some_v} implied={bool(implied_text)}", f"#[non_exhaustive]={'#non_exhaustive' in flags}, expected {want_ext}", {'kind': 'ir', 'text': text})
                for i, mem in enumerate(members):
                    has = 'extension_addition' in attr_flags(mem.attrs)
                    # on this path the annotation is fixed; it must agree with i >= k for every k the path admits
                    if some_v:
                        prop = (z3.UGE(z3.BitVecVal(i, 64), k)) if has else z3.ULT(z3.BitVecVal(i, 64), k)
                    else:
                        prop = z3.BoolVal(not has)
                    m = chk.holds(r.pc, prop, 'member-marking')
                    if m:
                        kv = model_int(m, k, False) if some_v else None
                        chk.violation(f"C05 ir marking {cont} n={n} member={i}", f"member {i} extension_addition={has} with extension index {kv}", {'kind': 'ir', 'text': text, 'k': str(kv)})
                chk.witness('member marked as extension addition', any('extension_addition' in attr_flags(m.attrs) for m in members))
                chk.witness('member not marked', any('extension_addition' not in attr_flags(m.attrs) for m in members))
            chk.sample({'ir-job': job, 'n': n, 'text': text})


def run_job(prog, job, tier, seed):
    chk = Checker(prog, job)
    gen = bridge.Gen(prog)
    runner = native.Runner()
    stats = {}
    try:
        if job.startswith('ir-'):
            run_ir(prog, chk, gen, runner, job, tier)
        else:
            i = int(job[5:])
            judge.on_reject = on_reject
            bridge.run_text_shapes(chk, gen, runner, shapes(tier)[i::NCHUNK], judge, stats)
    finally:
        runner.close()
    chk.res.bounds = {'root': '<=2 quick / <=4', 'additions': '<=2 quick / <=6', 'groups': '<=2 quick / <=3', 'extension_index': 'all usize (symbolic) in ir-* jobs'}
    chk.res.notes.append(f"{job}: {stats}")
    return chk.res
