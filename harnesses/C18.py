"""C18  TypeScript declarations have the JER shape of each type."""
import itertools, re, z3
from mirsym.core import *
from mirsym import bridge, native, models
from mirsym.harness import Checker, model_int
from . import C02
from .C02 import Ty, Mem, P, R

TSGM = '<rasn_compiler::generator::typescript::Typescript as rasn_compiler::generator::Backend>::generate_module'
JER = 'generator::typescript::utils::to_jer_identifier'
ROOTS = [TSGM, JER]
ASSUMPTIONS = [
    "the TypeScript backend (Typescript::generate_module, builder, utils, templates: format!-built text) is executed from real MIR on the natively linked IR of the C02 shape families (members 1 and 3, every optionality, anonymous nesting, SEQUENCE OF / SET OF, ENUMERATED, CHOICE, extensible or not); the emitted text is parsed by a small structural parser for the declaration subset the backend emits and compared with the JER shape derived from the ASN.1 text",
    "to_jer_identifier is executed on identifiers of <= 4 (6) symbolic characters: z3 decides that the result is the name with every hyphen replaced by '_' and nothing else changed",
    "constraints, tags and values the backend does not render are not inspected; cross-module imports are covered by two shapes",
]
PRIM_TS = {'BIT STRING': '{value:string,length:number}', 'OCTET STRING': 'string', 'BOOLEAN': 'boolean', 'NULL': 'null', 'INTEGER': 'number', 'REAL': 'number', 'UTF8String': 'string', 'IA5String': 'string', 'OBJECT IDENTIFIER': 'string',
           'UTCTime': 'string', 'BMPString': 'string', 'NumericString': 'string', 'PrintableString': 'string', 'VisibleString': 'string', 'UniversalString': 'string',
           'TeletexString': 'string', 'GeneralString': 'string', 'GraphicString': 'string', 'GeneralizedTime': 'string', 'ANY': 'any'}


def jobs(tier, seed):
    return ['jer-ident'] + [f"chunk{i}" for i in range(8)]


# ---- expected TS type expression (normalised, without white-space) ---------------------------------------------------
def jer(n):
    return n.replace('-', '_')


def ts_type(t):
    k = t.kind
    if k == 'prim':
        return 'PRIM'
    if k == 'ref':
        return jer(t.name)
    if k in ('seq', 'set'):
        body = ''.join(f"{jer(m.name)}{'?' if m.opt in ('optional', 'default') else ''}:{ts_type(m.ty)}," for m in t.members)
        if getattr(t, 'extensible', False):
            body += '[key:string]:any'
        return '{' + body + '}'
    if k == 'choice':
        return '|'.join('{' + jer(m.name) + ':' + ts_type(m.ty) + '}' for m in t.members)
    if k == 'enum':
        return '|'.join(f'"{i}"' for i in t.items)
    if k in ('seqof', 'setof'):
        inner = ts_type(t.elem)
        # a union element type needs parentheses: `A | B[]` is `A | (B[])` in TypeScript
        return ('(' + inner + ')' if t.elem.kind in ('choice', 'enum') and '|' in inner else inner) + '[]'
    return None


TS_PRIM_WORDS = r'(?:boolean|null|number|string|any|object|bigint|unknown|\{value:string,length:number\})'


def norm(s):
    """white-space free; the mapping of ASN.1 primitive types to TypeScript primitives is not part of the property: every
    primitive type expression (also a union of primitives such as `string | object`) becomes PRIM"""
    s = re.sub(r'\s+', '', s)
    if s.startswith(('=', '{')) or True:
        s = re.sub(r'(?<![\w"])' + TS_PRIM_WORDS + r'(?:\|' + TS_PRIM_WORDS + r')*(?![\w"])', 'PRIM', s)
    return s


def balanced(text):
    depth = {'{': 0, '(': 0, '[': 0}
    pairs = {'}': '{', ')': '(', ']': '['}
    stack = []
    in_str = False
    for ch in text:
        if ch == '"':
            in_str = not in_str
        if in_str:
            continue
        if ch in depth:
            stack.append(ch)
        elif ch in pairs:
            if not stack or stack.pop() != pairs[ch]:
                return f"unbalanced {ch!r}"
    if stack or in_str:
        return f"unclosed {stack[-1:] or 'string'}"
    return None


def strip_line_comment(ln):
    in_str = False
    for i, ch in enumerate(ln):
        if ch == '"':
            in_str = not in_str
        elif not in_str and ln[i:i + 2] == '//':
            return ln[:i]
    return ln


def parse_namespaces(text):
    """{namespace: ({name: (kind, normalised body)}, imports)}; raises ValueError on delimiter imbalance / duplicates"""
    # `//` comments are not part of the declarations: they run to the end of their line (as a TypeScript compiler reads them)
    text = '\n'.join(strip_line_comment(ln) for ln in text.split('\n'))
    b = balanced(text)
    if b:
        raise ValueError(b)
    out = {}
    for m in re.finditer(r'export namespace (\w+) \{', text):
        # matching close brace
        d, j = 1, m.end()
        in_str = False
        while d and j < len(text):
            ch = text[j]
            if ch == '"':
                in_str = not in_str
            elif not in_str:
                d += (ch == '{') - (ch == '}')
            j += 1
        body = text[m.end():j - 1]
        decls = {}
        for dm in re.finditer(r'export (type|enum|const) (\w+)', body):
            kind, name = dm.group(1), dm.group(2)
            start = dm.end()
            nxt = re.search(r'\n\s*export (type|enum|const) ', body[start:])
            decl = body[start:start + nxt.start()] if nxt else body[start:]
            if name in decls:
                raise ValueError(f"{name} declared twice in namespace {m.group(1)}")
            decls[name] = (kind, norm(decl).rstrip(';'))
        if m.group(1) in out:
            raise ValueError(f"namespace {m.group(1)} twice")
        out[m.group(1)] = (decls, re.findall(r'import (\w+) = (\w+)\.(\w+);', body))
    return out


def judge_text(text, info, nwarn):
    if nwarn:
        return [('warning', f"{nwarn} warning(s)")]
    try:
        nss = parse_namespaces(text)
    except ValueError as e:
        return [('syntax', str(e))]
    if jer(info['module']) not in nss:
        return [('namespace', f"no namespace {jer(info['module'])}")]
    decls, imports = nss[jer(info['module'])]
    fails = []
    for alias, ns, name in imports:
        if ns not in nss or name not in nss[ns][0] or alias != name:
            fails.append(('import', f"import {alias} = {ns}.{name} does not name a declaration"))
    for name, t in info['defs']:
        d = decls.get(jer(name))
        if d is None:
            fails.append(('missing', f"no exported declaration for {name}"))
            continue
        kind, body = d
        if t.kind == 'enum':
            want = '{' + ''.join(f'{jer(i)}="{i}",' for i in t.items) + '}'
            if kind != 'enum' or body != want:
                fails.append(('enum', f"{name}: {kind} {body}, expected enum {want}"))
            continue
        want = norm(ts_type(t))
        if want is None:
            continue
        if kind != 'type' or body.lstrip('=') != want:
            fails.append(('shape', f"{name}: {kind} {body}, expected ={want}"))
    # every mentioned capitalised name is declared or imported
    known = set(decls) | {i[0] for i in imports}
    for name, (kind, body) in decls.items():
        for ref in re.findall(r'(?<![\w"])([A-Z]\w*)(?![\w"])', re.sub(r'"[^"]*"', '', body)):
            if ref != 'PRIM' and ref not in known:
                fails.append(('undeclared', f"{name} mentions {ref}, which is neither declared nor imported"))
    return fails


def shapes(tier):
    out = []
    for cont in ('seq', 'set', 'choice'):
        for n in (1, 3):
            for p in sorted({0, n - 1}):
                for label, mk, opts, dflt in C02.interesting(tier):
                    if 'ref T' in label:
                        continue
                    for opt in opts:
                        if cont == 'choice' and opt != 'req':
                            continue
                        for ext in ((False, True) if cont != 'choice' and n == 3 and p == 0 else (False,)):
                            members = []
                            for i in range(n):
                                if i == p:
                                    members.append(Mem(f"m-{i}", mk(), opt, {'1000003': '5'}.get(dflt, dflt) if opt == 'default' else None))
                                else:
                                    members.append(Mem(f"m-{i}", P(['BOOLEAN', 'INTEGER', 'NULL'][i % 3])))
                            t = Ty(cont, members=members)
                            ttext = t.text()
                            if ext:
                                t.extensible = True
                                ttext = ttext[:-2] + ', ... }'
                            text = f"M-x DEFINITIONS AUTOMATIC TAGS ::= BEGIN R ::= SEQUENCE {{ z BOOLEAN }} T-y ::= {ttext} END"
                            out.append((f"C18 {cont} n={n} pos={p} member[{label}] {opt}{' ext' if ext else ''}", text,
                                        {'module': 'M-x', 'defs': [('R', Ty('seq', members=[Mem('z', P('BOOLEAN'))])), ('T-y', t)]}))
    for k in ('seqof', 'setof'):
        for label, mk, opts, dflt in C02.interesting(tier):
            if 'ref T' in label:
                continue
            t = Ty(k, elem=mk())
            out.append((f"C18 top {k} of [{label}]", f"M-x DEFINITIONS AUTOMATIC TAGS ::= BEGIN R ::= SEQUENCE {{ z BOOLEAN }} T-y ::= {t.text()} END",
                        {'module': 'M-x', 'defs': [('R', Ty('seq', members=[Mem('z', P('BOOLEAN'))])), ('T-y', t)]}))
    for k in ('seqof', 'setof'):
        for il, inn in (('anon choice', lambda: Ty('choice', members=[Mem('u-v', P('NULL')), Mem('w', R('R'))])), ('anon enum', lambda: Ty('enum', items=['one', 'two-x'])),
                        ('seqof anon choice', lambda: Ty('seqof', elem=Ty('choice', members=[Mem('u', P('NULL')), Mem('w', P('BOOLEAN'))])))):
            for cont in ('seq', 'choice'):
                t = Ty(cont, members=[Mem('a-b', Ty(k, elem=inn())), Mem('c', P('INTEGER'))])
                out.append((f"C18 {cont} member {k} of {il}", f"M-x DEFINITIONS AUTOMATIC TAGS ::= BEGIN R ::= SEQUENCE {{ z BOOLEAN }} T-y ::= {t.text()} END",
                            {'module': 'M-x', 'defs': [('R', Ty('seq', members=[Mem('z', P('BOOLEAN'))])), ('T-y', t)]}))
    # component lists that are empty, with and without an extension marker, at top level and nested
    for kw, kind in (('SEQUENCE', 'seq'), ('SET', 'set')):
        for ext in (False, True):
            body = '{ ... }' if ext else '{ }'
            e = Ty(kind, members=[])
            e.extensible = ext
            common = {'module': 'M-x'}
            out.append((f"C18 empty {kw}{' ext' if ext else ''} top", f"M-x DEFINITIONS AUTOMATIC TAGS ::= BEGIN T-y ::= {kw} {body} END", dict(common, defs=[('T-y', e)])))
            out.append((f"C18 empty {kw}{' ext' if ext else ''} member", f"M-x DEFINITIONS AUTOMATIC TAGS ::= BEGIN T-y ::= SEQUENCE {{ a {kw} {body}, b {kw} {body} OPTIONAL }} END",
                        dict(common, defs=[('T-y', Ty('seq', members=[Mem('a', e), Mem('b', e, 'optional')]))])))
            out.append((f"C18 empty {kw}{' ext' if ext else ''} element", f"M-x DEFINITIONS AUTOMATIC TAGS ::= BEGIN T-y ::= SEQUENCE OF {kw} {body} END",
                        dict(common, defs=[('T-y', Ty('seqof', elem=e))])))
            out.append((f"C18 empty {kw}{' ext' if ext else ''} alternative", f"M-x DEFINITIONS AUTOMATIC TAGS ::= BEGIN T-y ::= CHOICE {{ a {kw} {body}, b NULL }} END",
                        dict(common, defs=[('T-y', Ty('choice', members=[Mem('a', e), Mem('b', P('NULL'))]))])))
        # the marker first / last with one member
        for pos in ('first', 'last'):
            e = Ty(kind, members=[Mem('m', P('BOOLEAN'), 'optional' if pos == 'first' else 'req')])
            e.extensible = True
            body = '{ ..., m BOOLEAN OPTIONAL }' if pos == 'first' else '{ m BOOLEAN, ... }'
            out.append((f"C18 {kw} marker {pos}", f"M-x DEFINITIONS AUTOMATIC TAGS ::= BEGIN T-y ::= {kw} {body} END", {'module': 'M-x', 'defs': [('T-y', e)]}))
    for pn in sorted(PRIM_TS):
        out.append((f"C18 top prim {pn}", f"M-x DEFINITIONS AUTOMATIC TAGS ::= BEGIN T-y ::= {pn} END", {'module': 'M-x', 'defs': [('T-y', P(pn))]}))
    out.append(("C18 top alias", "M-x DEFINITIONS AUTOMATIC TAGS ::= BEGIN R ::= SEQUENCE { z BOOLEAN } T-y ::= R END",
                {'module': 'M-x', 'defs': [('R', Ty('seq', members=[Mem('z', P('BOOLEAN'))])), ('T-y', R('R'))]}))
    out.append(("C18 top fixed BIT STRING", "M-x DEFINITIONS AUTOMATIC TAGS ::= BEGIN T-y ::= BIT STRING (SIZE (8)) END", {'module': 'M-x', 'defs': [('T-y', P('UTF8String'))]}))
    e = Ty('enum', items=['one', 'two-three', 'four'])
    out.append(("C18 enumerated", "M-x DEFINITIONS AUTOMATIC TAGS ::= BEGIN E-e ::= ENUMERATED { one, two-three, four } END", {'module': 'M-x', 'defs': [('E-e', e)]}))
    out.append(("C18 enumerated ext", "M-x DEFINITIONS AUTOMATIC TAGS ::= BEGIN E-e ::= ENUMERATED { one, ..., two-three, four } END", {'module': 'M-x', 'defs': [('E-e', e)]}))
    out.append(("C18 import", "M-x DEFINITIONS AUTOMATIC TAGS ::= BEGIN IMPORTS T-b FROM M-b; A ::= SEQUENCE { x T-b } END\nM-b DEFINITIONS AUTOMATIC TAGS ::= BEGIN T-b ::= NULL END",
                {'module': 'M-x', 'defs': [('A', Ty('seq', members=[Mem('x', R('T-b'))]))]}))
    # imported type references of every lexical style (X.680 12.2: capitals, digits and hyphens are all allowed), used as
    # member, element, alternative and alias; several symbols from one module, two exporting modules
    for nm in ['T-b', 'T1', 'SHA1', 'X509-V3', 'AB', 'KEY-ID', 'Ab-1c']:
        for use, t in (('member', Ty('seq', members=[Mem('x', R(nm))])), ('element', Ty('seqof', elem=R(nm))), ('alternative', Ty('choice', members=[Mem('x', R(nm)), Mem('y', P('NULL'))])), ('alias', R(nm))):
            text = (f"M-x DEFINITIONS AUTOMATIC TAGS ::= BEGIN IMPORTS Other, {nm} FROM M-b Third FROM M-c; A ::= {t.text()} B ::= SEQUENCE {{ o Other, t Third }} END\n"
                    f"M-b DEFINITIONS AUTOMATIC TAGS ::= BEGIN {nm} ::= NULL Other ::= BOOLEAN END\nM-c DEFINITIONS AUTOMATIC TAGS ::= BEGIN Third ::= BOOLEAN END")
            out.append((f"C18 import of {nm} as {use}", text, {'module': 'M-x', 'defs': [('A', t), ('B', Ty('seq', members=[Mem('o', R('Other')), Mem('t', R('Third'))]))]}))
    # the same definitions with an ASN.1 comment in front of them (it becomes a // line in front of the declaration)
    twins = []
    for k_, (sig, text, info) in enumerate(out):
        if ' T-y ::= ' in text and (sig.startswith('C18 top') or k_ % 5 == 0):
            twins.append((sig + ' [commented]', text.replace(' T-y ::= ', '\n-- the y type\nT-y ::= ').replace(' R ::= ', ' /* r */ R ::= '), info))
    out += twins
    return out


def job_chunk(prog, chk, i, tier):
    fn = prog.find(TSGM)
    f = prog.inst[fn]
    ts_ty = prog.kind(f['locals'][1])[1]
    vec_ty = f['locals'][2]
    gen = bridge.Gen.__new__(bridge.Gen)
    gen.p = prog
    gen.vec_ty = vec_ty
    runner = native.Runner()
    try:
        for sig, text, info in shapes(tier)[i::8]:
            ra = runner.compile(text, backend='ir')
            if not ra.get('ok'):
                chk.res.notes.append(f"rejected natively: {sig}")
                continue
            nat = runner.compile(text, backend='ts')

            def run(ex):
                outs = []
                backend = ex.zst(ts_ty)
                for m in ra['ir']:
                    v = gen.load_module(ex, m['tlds'])
                    r = ex.force(ex.call(fn, [Ref(Cell(backend)), v]))
                    if ex.p.variant_name(r) != 'Ok':
                        outs.append(('err', None, 0))
                        continue
                    gm = r.fields[0]
                    g = ex.force(gm.fields[0])
                    w = ex.force(gm.fields[1])
                    outs.append(('ok', pystr(ex.force(g.fields[0])) if ex.p.variant_name(g) == 'Some' else None, len(w.cells)))
                return outs
            for r in chk.explore(run):
                if r.kind == 'panic':
                    chk.violation(sig + ' panic', f"TypeScript backend panics: {r.value[0]}: {text}", {'kind': 'text', 'text': text, 'backend': 'ts'})
                    continue
                if r.kind != 'ok':
                    continue
                mine = '\n'.join(t or '' for _, t, _ in r.value)
                nwarn = sum(w for _, _, w in r.value) + len(ra.get('warnings', []))
                # differential: the text must be the native one
                if nat.get('ok') and mine == nat['generated']:
                    chk.res.diff_ok += 1
                elif nat.get('ok'):
                    chk.res.diff_fail.append(f"{sig}: TypeScript text differs from the native output")
                fails = judge_text(mine, info, nwarn)
                chk.res.obligations += 1
                if not fails:
                    chk.res.discharged += 1
                for oracle, msg in fails[:2]:
                    nf = judge_text(nat['generated'], info, len(nat.get('warnings', []))) if nat.get('ok') else [('native', '')]
                    if any(o == oracle for o, _ in nf):
                        chk.violation(f"{sig} {oracle}", f"{msg}: {text}", {'kind': 'text', 'text': text, 'backend': 'ts'})
                    else:
                        chk.res.inconclusive.append(f"not reproduced natively: {sig} {oracle}: {msg[:120]}")
            chk.sample({'shape': sig})
    finally:
        runner.close()


def job_jer(prog, chk, tier):
    fn = prog.find(JER)
    for L in range(1, (4 if tier == 'quick' else 6) + 1):
        chars = [z3.BitVec(f"c{i}", 32) for i in range(L)]

        def run(ex):
            for c in chars:
                ex.assume(z3.Or(z3.And(z3.UGE(c, 48), z3.ULE(c, 57)), z3.And(z3.UGE(c, 65), z3.ULE(c, 90)), z3.And(z3.UGE(c, 97), z3.ULE(c, 122)), c == 45))
            return ex.call(fn, [StrRef(chars)])
        for r in chk.explore(run):
            if r.kind != 'ok':
                if r.kind == 'panic':
                    chk.violation('C18 to_jer_identifier panic', str(r.value), {'kind': 'kernel'})
                continue
            out = list(r.value.chars)
            if len(out) != L:
                chk.violation('C18 to_jer_identifier length', f"{L} characters become {len(out)}", {'kind': 'kernel'})
                continue
            prop = z3.And([to_bv(o, 32) == z3.If(c == 45, z3.BitVecVal(95, 32), c) for o, c in zip(out, chars)])
            m = chk.holds(r.pc, prop, 'jer-identifier')
            if m:
                s = ''.join(chr(model_int(m, c, False)) for c in chars)
                chk.violation('C18 to_jer_identifier', f"{s!r} is not mapped by replacing hyphens only", {'kind': 'text', 'text': f"M DEFINITIONS ::= BEGIN {s.capitalize()} ::= NULL END", 'backend': 'ts'})
        chk.witness('hyphen replaced', True)
    chk.res.bounds = {'identifier_length': '<= 4 (6)'}


def run_job(prog, job, tier, seed):
    chk = Checker(prog, job)
    if job == 'jer-ident':
        job_jer(prog, chk, tier)
    else:
        job_chunk(prog, chk, int(job[5:]), tier)
    return chk.res
