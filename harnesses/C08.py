"""C08  Compilation and error rendering are total: no panic, abort or hang (scanner / renderer kernels + whole pipeline on degenerate modules)."""
import itertools, z3
from mirsym.core import *
from mirsym import native, models
from mirsym.harness import Checker, model_int
from . import scan, C17
from .scan import in_alphabet, mk_input, MB

UNTIL = 'lexer::util::until_next_unindented'
ROOTS = list(scan.ROOTS) + [C17.CTX, C17.DISPLAY, UNTIL]
ASSUMPTIONS = [
    "kernel level only ('for all UTF-8 strings through both backends' is out of reach of symbolic execution): the hand-written scanners (comment, line_comment, block_comment incl. take_until_unbalanced / take_until_or, skip_ws_and_comments) and the error renderers (LexerError::contextualize, until_next_unindented, Display) are executed from real MIR on every string of <= 4 (thorough 5) characters, each a symbolic member of {'/', '*', '-', LF, 'a', space} or the concrete 2-byte character 'é'; oracle: no Panic terminator / overflow / out-of-range slice is reachable and every path ends within the step budget (loops are over the input)",
    "contextualize is run for every ReportData that satisfies the C17 invariant w.r.t. the text: context_start_offset <= offset <= len, both on character boundaries (what the lexer can report)",
    "panics of the generator on linked IR are reported by the shape checks of C02-C07; a native job compiles every prefix and single-token corruption of sample modules under a watchdog (concrete complement, both backends)",
    "pipeline jobs: compile_to_string of BOTH backends runs from real MIR (pipe bridge: lexer, validator / linker, generator) on ~50 dangling, cyclic and degenerate modules (unknown type / value / choice / alternative / class / field / template references, arity mismatches, cyclic aliases / values / COMPONENTS OF / templates / selection types, empty strings and characters outside the alphabet in FROM, inverted / negative / huge bounds, colliding numbers, values of the wrong kind), the integers written in them 128-bit solver variables; every returned error and warning is rendered through the real Display and contextualize; a path that panics, or exceeds the call-depth / step budget, is replayed natively with the solver's value (panic, abort by stack exhaustion and watchdog time-out all count)",
]
ALPH = [47, 42, 45, 10, 97, 32]


def jobs(tier, seed):
    L = 4 if tier == 'quick' else 5
    js = []
    for k in ('comment', 'line', 'block', 'marker'):
        for n in range(0, L + 1):
            js.append(f"scan-{k}-{n}")
    for n in range(0, (4 if tier == 'quick' else 5) + 1):
        js.append(f"render-{n}")
    return js + ['native'] + [f"enum-{r}-{a}" for r in (0, 1, 2) for a in (-1, 1, 2, 3) if r or a > 0] + [f"pipe-{i}of{NPIPE}" for i in range(NPIPE)]


NPIPE = 16
P1 = 1000003


def prepare():
    from mirsym import pipe
    pipe.dump()


def degenerate_modules(tier):
    """(role, module body, constraints on the placeholder) : dangling, cyclic and degenerate notation that must be answered
    with Ok, Err or a warning - never with a panic, an abort or a hang"""
    H = "M DEFINITIONS AUTOMATIC TAGS ::= BEGIN "
    out = []

    def add(role, body, assume=None):
        out.append((role, H + body + " END", assume))
    # dangling references
    add("dangling type reference", "A ::= Missing")
    add("dangling component type", "A ::= SEQUENCE { a Missing, b SET OF Missing }")
    add("dangling value reference in constraint", "A ::= INTEGER (0..missing)")
    add("dangling DEFAULT value", "A ::= SEQUENCE { a INTEGER DEFAULT missing }")
    add("selection of unknown choice", "A ::= SEQUENCE { s a < Missing }")
    add("selection of unknown alternative", "A ::= SEQUENCE { s zz < C } C ::= CHOICE { a NULL }")
    add("selection of unknown alternative top-level", "A ::= zz < C C ::= CHOICE { a NULL }")
    add("selection from a non-choice", f"A ::= a < B B ::= INTEGER (0..{P1})")
    add("components of unknown type", "A ::= SEQUENCE { x NULL, COMPONENTS OF Missing }")
    add("components of a non-sequence", f"A ::= SEQUENCE {{ x NULL, COMPONENTS OF B }} B ::= INTEGER (0..{P1})")
    add("too few actual parameters", "Pair {First, Second} ::= SEQUENCE { first First, second Second } A ::= Pair {INTEGER}")
    add("too few actual parameters nested", "Pair {First, Second} ::= SEQUENCE { first First, second Second } A ::= SEQUENCE { inner Pair {BOOLEAN} }")
    add("too few value parameters", f"Bounded {{INTEGER:lo, INTEGER:hi}} ::= INTEGER (lo..hi) A ::= Bounded {{{P1}}}")
    add("too many actual parameters", "One {T} ::= SEQUENCE { a T } A ::= One {INTEGER, BOOLEAN}")
    add("unknown template", "A ::= Missing {INTEGER}")
    add("value argument for a type parameter", f"One {{T}} ::= SEQUENCE {{ a T }} A ::= One {{{P1}}}")
    add("field of unknown class", "A ::= SEQUENCE { i MISSING.&id }")
    add("unknown field of a class", "CLS ::= CLASS { &id INTEGER UNIQUE } A ::= SEQUENCE { i CLS.&nope }")
    add("import of unknown symbol", "IMPORTS Gone FROM Other; A ::= SEQUENCE { g Gone }")
    # cycles
    add("cyclic aliases", "A ::= B B ::= A")
    add("cyclic aliases with a value", f"A ::= B B ::= A v A ::= {P1}")
    add("cyclic aliases (3) with a value", "A ::= B B ::= C C ::= A v B ::= TRUE")
    add("cyclic aliases in a component with DEFAULT", f"A ::= B B ::= A S ::= SEQUENCE {{ a A DEFAULT {P1} }}")
    add("cyclic value references", "a INTEGER ::= b b INTEGER ::= a")
    add("cyclic BOOLEAN value references", "a BOOLEAN ::= b b BOOLEAN ::= a")
    add("cyclic string value references (3)", "a UTF8String ::= b b UTF8String ::= c c UTF8String ::= a")
    add("self-referencing value", "a BOOLEAN ::= a b INTEGER ::= b")
    add("DEFAULT naming cyclic value references", "a BOOLEAN ::= b b BOOLEAN ::= a S ::= SEQUENCE { x BOOLEAN DEFAULT a, y INTEGER DEFAULT c } c INTEGER ::= d d INTEGER ::= c")
    add("cyclic value references of a referenced type", f"T ::= INTEGER (0..{P1}) a T ::= b b T ::= a E ::= ENUMERATED {{ x }} e E ::= f f E ::= e")
    add("cyclic value references inside values", "L ::= SEQUENCE OF BOOLEAN a BOOLEAN ::= b b BOOLEAN ::= a Ll ::= SEQUENCE OF BOOLEAN v Ll ::= { a, b } C ::= CHOICE { p BOOLEAN } w C ::= p:a")
    # rho-shaped chains: the cycle does not contain the name the chain starts from
    add("value reference chain into a self-reference", "a BOOLEAN ::= b b BOOLEAN ::= c c BOOLEAN ::= c")
    add("value reference chain into a 2-cycle", "a INTEGER ::= b b INTEGER ::= c c INTEGER ::= d d INTEGER ::= c e UTF8String ::= f f UTF8String ::= g g UTF8String ::= h h UTF8String ::= g")
    add("DEFAULT naming a chain into a cycle", "S ::= SEQUENCE { flag BOOLEAN DEFAULT first } first BOOLEAN ::= second second BOOLEAN ::= third third BOOLEAN ::= second")
    add("object set chain into a cycle", "C ::= CLASS { &id INTEGER UNIQUE } Zz C ::= { Bb } Bb C ::= { Cc } Cc C ::= { Bb }")
    add("object set cycle", "C ::= CLASS { &id INTEGER UNIQUE } Aa C ::= { Bb } Bb C ::= { Aa } Dd C ::= { Dd }")
    add("value of a hyphenated type with an inline choice", f"My-Seq ::= SEQUENCE {{ c CHOICE {{ a INTEGER, b BOOLEAN }} }} v My-Seq ::= {{ c a:{P1} }}")
    add("value of a hyphenated type with inline members", f"My-Seq ::= SEQUENCE {{ c SEQUENCE {{ a INTEGER }}, e ENUMERATED {{ x, y }}, l SEQUENCE OF INTEGER }} v My-Seq ::= {{ c {{ a {P1} }}, e y, l {{ 1, 2 }} }}")
    add("constraint on cyclic value references", "a INTEGER ::= b b INTEGER ::= a T ::= INTEGER (a..MAX)")
    add("self-referencing constraint value", "a INTEGER (0..a) ::= 5")
    add("components of itself", "A ::= SEQUENCE { x NULL, COMPONENTS OF A }")
    add("mutual components of", "A ::= SEQUENCE { x NULL, COMPONENTS OF B } B ::= SEQUENCE { y NULL, COMPONENTS OF A }")
    add("self-instantiating template", "P {T} ::= SEQUENCE { a P {T} OPTIONAL } X ::= P {NULL}")
    add("selection type cycle", "A ::= a < A")
    add("required self recursion", "A ::= SEQUENCE { a A }")
    add("recursion through choice and sequence of", "A ::= CHOICE { l SEQUENCE OF A, s SET { a A } }")
    # degenerate constraints and values
    add("empty string as FROM range end", 'A ::= IA5String (FROM ("".."z"))')
    add("empty string as a FROM range bound in an intersection of FROMs", 'A ::= IA5String (FROM ("abc") ^ FROM ("".."z")) B ::= IA5String (FROM ("abc") ^ FROM ("a"..""))')
    add("empty string as a FROM range bound with SIZE", 'A ::= IA5String (SIZE (1..8) ^ FROM ("abc") ^ FROM ("".."z")) B ::= IA5String (FROM ("".."z") ^ FROM ("abc")) C ::= PrintableString (FROM ("" | "a".."z") ^ SIZE (2))')
    add("empty string as FROM range start", 'A ::= IA5String (FROM ("a".."")) B ::= NumericString (FROM (""))')
    add("FROM with characters outside the alphabet", 'A ::= NumericString (FROM ("a".."z")) B ::= PrintableString (FROM ("{"))')
    add("inverted range", f"A ::= INTEGER ({P1}..5)", lambda v: [v > 5])
    add("inverted size", f"A ::= OCTET STRING (SIZE ({P1}..2))", lambda v: [v > 2])
    add("negative size", f"A ::= SEQUENCE (SIZE ({P1})) OF NULL", lambda v: [v < 0])
    add("huge bounds", f"A ::= INTEGER ({P1}..MAX) B ::= SEQUENCE {{ a INTEGER (MIN..{P1}) }}")
    add("named bit far out", f"A ::= BIT STRING {{ far({P1}) }} v A ::= {{ far }}", lambda v: [v >= 0])
    add("named number collision", f"A ::= INTEGER {{ x({P1}), y({P1}) }} (x..y)")
    add("enumerated with equal numbers", f"A ::= ENUMERATED {{ x({P1}), y({P1}) }}")
    add("default of the wrong kind", 'A ::= SEQUENCE { a BOOLEAN DEFAULT 5, b INTEGER DEFAULT TRUE, c NULL DEFAULT "x" }')
    add("value of the wrong kind", 'v BOOLEAN ::= 5 w INTEGER ::= "x" x NULL ::= TRUE')
    add("oid value with unknown names", "v OBJECT IDENTIFIER ::= { foo bar 3 }")
    add("bit string value with unknown named bits", "A ::= BIT STRING { a(0) } v A ::= { b, c }")
    add("choice value with unknown alternative", "C ::= CHOICE { a NULL } v C ::= zz : NULL")
    add("sequence value with unknown component", f"S ::= SEQUENCE {{ a INTEGER }} v S ::= {{ zz {P1} }}")
    add("symbolic tag number", f"A ::= [{P1}] INTEGER", lambda v: [v >= 0, v < 2**63])
    # constraints that say nothing about what they are applied to
    add("SIZE of a pattern", 'A ::= OCTET STRING (SIZE (PATTERN "x")) B ::= SEQUENCE { a IA5String (SIZE (PATTERN "[a-z]+")) OPTIONAL }')
    add("SIZE of an inner type constraint", "A ::= SEQUENCE (SIZE (WITH COMPONENT (1..2))) OF INTEGER B ::= IA5String (SIZE (WITH COMPONENTS { a }))")
    add("SIZE of a user-defined constraint", 'A ::= OCTET STRING (SIZE (CONSTRAINED BY {})) B ::= OCTET STRING (SIZE (SETTINGS "Basic=Date"))')
    add("SIZE of a contents constraint", "A ::= OCTET STRING (SIZE (CONTAINING INTEGER))")
    add("serial size constraints, the second meaningless", f'A ::= SEQUENCE OF OCTET STRING (SIZE (1..{P1})) (SIZE (PATTERN "x"))', lambda v: [v >= 1])
    add("union of empty FROM sets", 'A ::= IA5String (FROM("") | FROM("z".."a"))')
    add("FROM with an inverted range", 'A ::= IA5String (FROM ("z".."a")) B ::= IA5String (FROM ("z".."a") ^ SIZE (1..4))')
    add("cyclic aliases with a value reference", "A ::= B B ::= A w INTEGER ::= 5 v A ::= w")
    add("PATTERN and value range mixed", f'A ::= IA5String (PATTERN "x" | SIZE ({P1}))', lambda v: [v >= 0])
    add("contents constraint on a non-string", "A ::= INTEGER (CONTAINING BOOLEAN)")
    add("odd hstring for OCTET STRING", "v OCTET STRING ::= 'ABC'H")
    add("choice value with a struct payload", "C ::= CHOICE { p SEQUENCE { n INTEGER } } v C ::= p:{ n 3 }")

    add("table constraint with an inline object set", "CLS ::= CLASS { &id INTEGER UNIQUE, &Type } WITH SYNTAX { &Type IDENTIFIED BY &id } T ::= SEQUENCE { id CLS.&id ({ {BOOLEAN IDENTIFIED BY 1} }), v CLS.&Type ({ {BOOLEAN IDENTIFIED BY 1} }{@id}) } U ::= NULL")
    add("table constraint with a referenced object set", "CLS ::= CLASS { &id INTEGER UNIQUE, &Type } WITH SYNTAX { &Type IDENTIFIED BY &id } Set CLS ::= { {BOOLEAN IDENTIFIED BY 1} | {NULL IDENTIFIED BY 2} } T ::= SEQUENCE { id CLS.&id ({Set}), v CLS.&Type ({Set}{@id}) OPTIONAL }")
    add("choice with duplicate payload types", "C ::= CHOICE { a INTEGER, b INTEGER, c SEQUENCE OF INTEGER (0..5), d SEQUENCE OF INTEGER (0..5) } v C ::= a:5")
    # several modules: IMPORTS that the linker completes (governing types of imported values), dangling and cyclic imports
    def addm(role, *mods, assume=None):
        out.append((role, ' '.join(f"{nm} DEFINITIONS AUTOMATIC TAGS ::= BEGIN {body} END" for nm, body in mods), assume))
    bdef = f"Limit ::= INTEGER (0..{P1}) limit Limit ::= 10 Other ::= BOOLEAN"
    addm("imported value, governing type not imported", ('A', "IMPORTS limit FROM B; Count ::= INTEGER (0..limit)"), ('B', bdef), assume=lambda v: [v >= 10])
    addm("imported value next to its governing type", ('A', "IMPORTS limit, Limit FROM B; Count ::= INTEGER (0..limit)"), ('B', bdef), assume=lambda v: [v >= 10])
    addm("imported value and an unrelated type from the same module", ('A', "IMPORTS Other, limit FROM B; Count ::= SEQUENCE { o Other, n INTEGER DEFAULT limit }"), ('B', bdef), assume=lambda v: [v >= 10])
    addm("imported value, governing type from a third module", ('A', "IMPORTS limit FROM B Other FROM C; Count ::= INTEGER (0..limit)"), ('B', "IMPORTS Limit FROM C; limit Limit ::= 10"),
         ('C', f"Limit ::= INTEGER (0..{P1}) Other ::= NULL"), assume=lambda v: [v >= 10])
    addm("imported value used as DEFAULT of the governing type", ('A', "IMPORTS limit FROM B; S ::= SEQUENCE { n INTEGER DEFAULT limit }"), ('B', bdef), assume=lambda v: [v >= 10])
    addm("import from a module that is not there", ('A', "IMPORTS Gone, gone FROM Nowhere; S ::= SEQUENCE { g Gone DEFAULT gone }"))
    addm("import of a symbol the module does not define", ('A', "IMPORTS Missing, missing FROM B; S ::= SEQUENCE { m Missing, n INTEGER (0..missing) }"), ('B', bdef))
    addm("modules importing from each other", ('A', "IMPORTS Tb, vb FROM B; Ta ::= SEQUENCE { b Tb OPTIONAL } va Ta ::= { }"), ('B', "IMPORTS Ta, va FROM A; Tb ::= SEQUENCE { a Ta OPTIONAL } vb Tb ::= { }"))
    addm("two modules of the same name", ('A', f"T ::= INTEGER (0..{P1})"), ('A', "T ::= BOOLEAN U ::= T"))
    addm("imported information object", ('A', "IMPORTS obj, CLS FROM B; T ::= SEQUENCE { i CLS.&id ({Set}), v CLS.&Type ({Set}{@i}) } Set CLS ::= { obj }"),
         ('B', f"CLS ::= CLASS {{ &id INTEGER (0..{P1}) UNIQUE, &Type }} WITH SYNTAX {{ &Type IDENTIFIED BY &id }} obj CLS ::= {{ BOOLEAN IDENTIFIED BY 1 }}"), assume=lambda v: [v >= 1])
    return out


CFG_FLAGS = ['default_wildcard_imports', 'generate_from_impls', 'no_std_compliant_bindings', 'opaque_open_types']
CFG_SYMS = {n_: z3.Bool('cfg_' + n_) for n_ in CFG_FLAGS}


def model_config(m):
    """the configuration a solver model stands for (options the path never read keep their defaults)"""
    cfg = {}
    for n_, s_ in CFG_SYMS.items():
        val = m.eval(s_, model_completion=False) if m is not None else None
        cfg[n_] = z3.is_true(val) if val is not None and (z3.is_true(val) or z3.is_false(val)) else (n_ == 'opaque_open_types')
    return cfg


def job_pipe(chk, prog, k, n, tier):
    from mirsym import pipe
    pp = pipe.Pipe(prog)
    chk.ex.max_path_steps = 40000000
    chk.allow_truncated = True      # truncated paths are replayed natively below
    runner = native.Runner()
    v = z3.BitVec('p1', 128)
    sub = {P1: v}
    try:
        for role, text, assume in degenerate_modules(tier)[k::n]:
            for backend in ('rasn', 'ts'):
                sig = f"C08 pipeline {backend} {role}"

                def run(ex, text=text, assume=assume, backend=backend):
                    for c in (assume(v) if assume else []):
                        ex.assume(c)
                    # the four boolean options of the rasn backend are free solver variables: a panic under any configuration
                    # is a panic path whose condition names the options (replayed natively with them)
                    r = pp.compile(ex, text, sub if str(P1) in text else None, backend=backend, config=dict(CFG_SYMS) if backend == 'rasn' else None)
                    # every returned error / warning is rendered (Display and contextualize)
                    rendered = 0
                    if r[0] == 'err':
                        pp.render(ex, r[1], text)
                        rendered = 1
                    else:
                        for c in ex.force(r[3]).cells:
                            pp.render(ex, c.v, text)
                            rendered += 1
                    return (r[0], rendered)
                def native_bad(ctext, backend=backend, config=None):
                    out = runner.compile(ctext, backend=backend, config=config)
                    if 'panic' in out:
                        return f"panics ({out['panic'][:80]})"
                    if 'crash' in out:
                        return f"aborts the process (exit status {out['crash']}: stack exhaustion or allocation failure)"
                    if out.get('hang'):
                        return 'does not terminate within the watchdog time'
                    errs = [out.get('error')] if not out.get('ok') else out.get('warnings', [])
                    if any(e and (e.get('display_panicked') or e.get('contextualize_panicked')) for e in errs):
                        return 'panics while rendering an error / warning'
                    return None
                validated = False
                for r in chk.explore(run):
                    if r.kind == 'ok':
                        chk.res.obligations += 1
                        if not validated:
                            # differential validation of the encoding: one instance of the first panic-free path is compiled
                            # natively; panics the model cannot see (RefCell borrow state is not modelled) surface here
                            validated = True
                            m = chk.model_of(r.pc) if r.pc else None
                            val = model_int(m, v, True) if m is not None else 5
                            ctext = text.replace(str(P1), str(val))
                            cfg = model_config(m) if backend == 'rasn' else None
                            bad = native_bad(ctext, config=cfg)
                            if bad:
                                chk.violation(sig, f"compiling {role} {bad} (native run; not visible on the symbolic path): {ctext!r}", {'kind': 'text', 'text': ctext, 'backend': backend, 'config': cfg})
                                continue
                            chk.res.diff_ok += 1
                        chk.res.discharged += 1
                        continue
                    if r.kind not in ('panic', 'truncated'):
                        continue
                    m = chk.model_of(r.pc) if r.pc else None
                    val = model_int(m, v, True) if m is not None else 5
                    ctext = text.replace(str(P1), str(val))
                    cfg = model_config(m) if backend == 'rasn' else None
                    bad = native_bad(ctext, config=cfg)
                    chk.res.obligations += 1
                    if bad:
                        chk.violation(sig, f"compiling {role} {bad}{' under ' + str({k_: v_ for k_, v_ in cfg.items() if v_ != (k_ == 'opaque_open_types')}) if cfg else ''}: {ctext!r}", {'kind': 'text', 'text': ctext, 'backend': backend, 'config': cfg})
                    else:
                        what = r.value[0] if r.kind == 'panic' else 'step budget exceeded'
                        chk.res.inconclusive.append(f"not reproduced natively: {sig}: {what} (value {val})")
                chk.witness('degenerate module explored', True)
        chk.sample({'pipeline_modules': len(degenerate_modules(tier)[k::n])})
    finally:
        runner.close()
    chk.res.bounds = {'degenerate modules': len(degenerate_modules(tier)), 'backends': 2, 'integers': '1 x i128 symbolic where the module has one'}


KERN = {'comment': scan.COMMENT, 'line': scan.LINE_COMMENT, 'block': scan.BLOCK_COMMENT, 'marker': scan.EXT_MARKER}


def width_patterns(n, tier):
    if n == 0:
        return [()]
    pats = [p for p in itertools.product('sm', repeat=n) if p.count('m') <= (1 if tier == 'quick' else 2)]
    return pats


def text_of(model, chars):
    return ''.join(chr(model_int(model, c, False)) if not isinstance(c, int) else chr(c) for c in chars)


def job_scan(prog, chk, kind, n, tier):
    fn = prog.find(KERN[kind])
    input_ty = prog.inst[fn]['locals'][1]
    prefix = {'comment': [], 'line': [45, 45], 'block': [47, 42], 'marker': []}[kind]
    chk.ex.max_path_steps = 200000
    for pat in width_patterns(n, tier):
        chars = [z3.BitVec(f"c{i}", 32) if k == 's' else MB for i, k in enumerate(pat)]

        def run(ex):
            for c in chars:
                if not isinstance(c, int):
                    ex.assume(in_alphabet(c, ALPH))
            return ex.call(fn, [mk_input(ex, prog, input_ty, prefix + chars)])
        for r in chk.explore(run):
            if r.kind in ('panic', 'truncated'):
                s = z3.Solver()
                for c in r.pc:
                    s.add(c)
                if s.check() != z3.sat:
                    continue
                txt = text_of(s.model(), prefix + chars)
                what = f"scanner {KERN[kind]} {'panics' if r.kind == 'panic' else 'does not terminate within the step budget'} on {txt!r}: {r.value if r.kind == 'truncated' else r.value[0]}"
                confirm(chk, f"C08 scan {kind} {r.kind}", what, txt)
            else:
                chk.witness(f'scanner {kind} returns')
        chk.res.obligations += 1
        chk.res.discharged += 1
    chk.sample({'kernel': KERN[kind], 'chars': n})
    chk.res.bounds = {'chars': n, 'alphabet': "/ * - LF a space + concrete 'é'"}


def confirm(chk, sig, what, txt):
    """the offending string at the end of a module (scanners run on the rest of the input)"""
    runner = native.Runner(timeout=10)
    try:
        bad = None
        for mod in (f"M DEFINITIONS ::= BEGIN A ::= BOOLEAN {txt}", f"M DEFINITIONS ::= BEGIN A ::= SEQUENCE {{ a BOOLEAN, {txt}", txt):
            for backend in ('rasn', 'ts'):
                out = runner.compile(mod, backend=backend)
                e = out.get('error', {}) if isinstance(out, dict) else {}
                if out.get('panic') or out.get('crash') is not None or out.get('hang') or e.get('display_panicked') or e.get('contextualize_panicked'):
                    bad = (mod, backend, out.get('panic') or ('hang' if out.get('hang') else 'crash' if out.get('crash') is not None else 'rendering panicked'))
                    break
            if bad:
                break
    finally:
        runner.close()
    if bad:
        chk.violation(sig, f"{what}; native ({bad[1]} backend): {bad[2]} on {bad[0]!r}", {'kind': 'text', 'text': bad[0]})
    else:
        chk.res.inconclusive.append(f"kernel panic not reproduced through the public API: {sig}: {what}")


def job_enum(prog, chk, r, a, tier):
    """the ENUMERATED numbering of the lexer (assign_enumeral_indices, the part of the lexer that computes with the integers of the
    input), Enumerated::from and format_enum_members on r root items and a additions (-1: no marker), every explicit number ANY
    i128 (no validity assumed: equal numbers, decreasing additions, i128::MIN / MAX): no panic path may be feasible"""
    from . import C14
    K = C14.Kernel(prog)
    W = 128
    for rmask in itertools.product([False, True], repeat=r):
        for amask in itertools.product([False, True], repeat=max(a, 0)):
            if not any(rmask) and not any(amask):
                continue
            rexp = [z3.BitVec(f"r{i}", W) if m else None for i, m in enumerate(rmask)]
            aexp = [z3.BitVec(f"a{i}", W) if m else None for i, m in enumerate(amask)]
            role = 'root[' + ','.join('n' if m else '-' for m in rmask) + ']' + (' ...' if a >= 0 else '') + ' add[' + ','.join('n' if m else '-' for m in amask) + ']'
            for res in chk.explore(lambda ex: K.run(ex, rexp, aexp if a > 0 else None, a >= 0)):
                chk.res.obligations += 1
                if res.kind == 'ok':
                    chk.res.discharged += 1
                    continue
                if res.kind != 'panic':
                    continue
                m = chk.model_of(res.pc) if res.pc else None
                rv = [None if e is None else (model_int(m, e, True) if m is not None else 0) for e in rexp]
                av = [None if e is None else (model_int(m, e, True) if m is not None else 0) for e in aexp]
                text = C14.enum_text(rv, av, a >= 0)
                runner = native.Runner(timeout=10)
                try:
                    bad = None
                    for backend in ('rasn', 'ts'):
                        out = runner.compile(text, backend=backend)
                        if out.get('panic') or out.get('crash') is not None or out.get('hang'):
                            bad = (backend, out.get('panic') or ('hang' if out.get('hang') else 'crash'))
                            break
                finally:
                    runner.close()
                if bad:
                    chk.violation(f"C08 enumerated numbering {role}", f"{res.value[0]}; native ({bad[0]} backend): {bad[1]} on {text!r}", {'kind': 'text', 'text': text})
                else:
                    chk.res.inconclusive.append(f"kernel panic not reproduced natively: {role}: {res.value[0]} on {text!r}")
            chk.witness('numbering with unconstrained numbers explored', True)
    chk.sample({'kernel': C14.NUMBER, 'root': r, 'additions': a})
    chk.res.bounds = {'enum kernel': 'root items <= 2, additions <= 3, every explicit number any i128'}


def job_render(prog, chk, n, tier):
    fn = prog.find(C17.CTX)
    f = prog.inst[fn]
    le_ty = prog.kind(f['locals'][1])[1]
    kind_ty = prog.ty(le_ty)['adt']['variants'][0]['fields'][0]['ty']
    rd_ty = prog.ty(kind_ty)['adt']['variants'][prog.variant_index(kind_ty, 'MatchingError')]['fields'][0]['ty']
    alph = [10, 32, 97, 45]
    chk.ex.max_path_steps = 200000
    for pat in width_patterns(n, tier):
        chars = [z3.BitVec(f"c{i}", 32) if k == 's' else MB for i, k in enumerate(pat)]
        widths = [1 if k == 's' else 2 for k in pat]
        bounds = [0]
        for w in widths:
            bounds.append(bounds[-1] + w)
        for cso in bounds:
            for off in [b for b in bounds if b >= cso]:
                line, column, csl = z3.BitVec('line', 64), z3.BitVec('column', 64), z3.BitVec('csl', 64)

                def run(ex):
                    for c in chars:
                        if not isinstance(c, int):
                            ex.assume(in_alphabet(c, alph))
                    ex.assume(z3.And(z3.UGE(csl, 1), z3.ULT(csl, 100), z3.UGE(line, csl), z3.ULT(line, 200), z3.UGE(column, 1), z3.ULT(column, 1 << 32)))
                    le = C17.lexer_error(ex, prog, le_ty, C17.report_value(ex, prog, rd_ty, line, column, off, csl, cso, None))
                    return ex.call(fn, [Ref(Cell(le)), StrRef(chars)])
                for r in chk.explore(run):
                    if r.kind in ('panic', 'truncated'):
                        s = z3.Solver()
                        for c in r.pc:
                            s.add(c)
                        if s.check() != z3.sat:
                            continue
                        txt = text_of(s.model(), chars)
                        what = f"contextualize {'panics' if r.kind == 'panic' else 'does not terminate'} for text {txt!r}, context_start_offset {cso}, offset {off}: {r.value if r.kind == 'truncated' else r.value[0]}"
                        # confirm natively: an input whose error position reproduces these offsets is found by trying the text itself
                        runner = native.Runner(timeout=10)
                        try:
                            out = runner.compile(txt)
                        finally:
                            runner.close()
                        e = out.get('error', {})
                        if e.get('contextualize_panicked') or out.get('panic'):
                            chk.violation(f"C08 contextualize {r.kind}", what + f"; native: contextualize panics on the input {txt!r}", {'kind': 'text', 'text': txt})
                        else:
                            chk.violation(f"C08 contextualize {r.kind} (kernel)", what + "; the kernel accepts every ReportData that satisfies the position invariant", {'kind': 'kernel', 'text': txt, 'offset': off, 'context_start_offset': cso})
                    else:
                        chk.witness('contextualize returns')
                chk.res.obligations += 1
                chk.res.discharged += 1
    chk.sample({'kernel': C17.CTX, 'chars': n})


def job_native(prog, chk, tier, seed):
    import random, re
    rnd = random.Random(seed)
    runner = native.Runner(timeout=15)
    mods = ["M DEFINITIONS AUTOMATIC TAGS ::= BEGIN\n A ::= SEQUENCE { a INTEGER (0..5) OPTIONAL, b BOOLEAN DEFAULT TRUE, ..., [[ c NULL ]] }\n B ::= CHOICE { x A, y [3] IMPLICIT OCTET STRING (SIZE (4)) } -- c\n v INTEGER ::= 5 /* k */\n E ::= ENUMERATED { p(1), q, ..., r }\n s UTF8String ::= \"a\"\"b\"\n o OBJECT IDENTIFIER ::= { iso standard 8571 }\nEND\n",
            "M DEFINITIONS ::= BEGIN IMPORTS X FROM N; C ::= CLASS { &id INTEGER UNIQUE, &Type } WITH SYNTAX { &id &Type } P{T} ::= SEQUENCE { f T } Q ::= P{BOOLEAN} R ::= REAL t TIME ::= \"P1Y\" END"]
    n = 0
    try:
        for mod in mods:
            cases = [mod[:i] for i in range(0, len(mod) + 1, 1 if tier != 'quick' else 3)]
            toks = [m.span() for m in re.finditer(r'\S+', mod)]
            for s, e in (toks if tier != 'quick' else rnd.sample(toks, min(25, len(toks)))):
                for rep in ('', 'é', '{', '}', '"', "'", '/*', '--', '[[', '((', '€€'):
                    cases.append(mod[:s] + rep + mod[e:])
                    cases.append(mod[:s] + rep + ' ' + mod[s:])
            for t in cases:
                for backend in (('rasn', 'ts') if n % 3 == 0 else ('rasn',)):
                    out = runner.compile(t, backend=backend)
                    n += 1
                    chk.res.obligations += 1
                    e = out.get('error', {}) if isinstance(out, dict) else {}
                    bad = out.get('panic') or (out.get('crash') is not None and 'crash') or (out.get('hang') and 'hang') or (e.get('display_panicked') and 'Display panicked') or (e.get('contextualize_panicked') and 'contextualize panicked')
                    wbad = [w for w in out.get('warnings', []) if w.get('display_panicked') or w.get('contextualize_panicked')] if out.get('ok') else []
                    if bad or wbad:
                        chk.violation(f"C08 native {str(bad or 'warning rendering')[:40]}", f"{bad or 'rendering a warning panicked'} ({backend}): {t[-80:]!r}", {'kind': 'text', 'text': t})
                    else:
                        chk.res.discharged += 1
                        chk.res.diff_ok += 1
        chk.sample({'native_inputs': n})
    finally:
        runner.close()


def run_job(prog, job, tier, seed):
    p = job.split('-')
    if p[0] == 'pipe':
        from mirsym import pipe
        from mirsym.harness import program
        pprog = program(pipe.dump())
        chk = Checker(pprog, job)
        k, n = p[1].split('of')
        job_pipe(chk, pprog, int(k), int(n), tier)
        return chk.res
    chk = Checker(prog, job)
    if p[0] == 'scan':
        job_scan(prog, chk, p[1], int(p[2]), tier)
    elif p[0] == 'render':
        job_render(prog, chk, int(p[1]), tier)
    elif p[0] == 'enum':
        job_enum(prog, chk, int(p[1]), int(job.split('-', 2)[2]), tier)
    else:
        job_native(prog, chk, tier, seed)
    return chk.res
