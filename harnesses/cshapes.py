"""Text shapes of subtype constraints (the input space of C04 / C06), their reference semantics per X.680 §50 /
X.691 §10.3 over symbolic placeholder integers, and the bridge harness that runs the real generator MIR on the
natively linked IR of each shape."""
import itertools, z3
from mirsym.core import *
from mirsym import refsem, tokproj, bridge
from mirsym.refsem import Interval, FULL, combine, meet, hull, W, in_rust_type, RUST_INT_RANGE
from mirsym.harness import model_int

BV = lambda n: z3.BitVecVal(n, W)
T = z3.BoolVal(True)
F = z3.BoolVal(False)


# ---- text AST -------------------------------------------------------------------------------------------
class Elem:
    """kind: 'single' (a) | 'range' (a..b, ends may be 'MIN'/'MAX', optional open ends)"""

    def __init__(self, kind, a=None, b=None, lo_open=False, hi_open=False):
        self.kind, self.a, self.b, self.lo_open, self.hi_open = kind, a, b, lo_open, hi_open

    def phs(self):
        return [x for x in (self.a, self.b) if isinstance(x, int)]

    def text(self, val):
        def e(x):
            return x if isinstance(x, str) else val(x)
        if self.kind == 'single':
            return e(self.a)
        return e(self.a) + ('<' if self.lo_open else '') + '..' + ('<' if self.hi_open else '') + e(self.b)

    def sem(self, val, x):
        """(permits, Interval, ext, visible)"""
        if self.kind == 'single':
            v = val(self.a)
            return (x == v, Interval(T, v, T, v), F, True)
        lo_fin = self.a != 'MIN'
        hi_fin = self.b != 'MAX'
        lo = val(self.a) if lo_fin else BV(0)
        hi = val(self.b) if hi_fin else BV(0)
        if self.lo_open and lo_fin:
            lo = lo + 1
        if self.hi_open and hi_fin:
            hi = hi - 1
        iv = Interval(z3.BoolVal(lo_fin), lo, z3.BoolVal(hi_fin), hi)
        return (iv.contains(x), iv, F, True)

    def wf(self, val):
        """well-formedness the source must satisfy (X.680 51.4: lower <= upper); open ends must not overflow"""
        c = []
        if self.kind == 'range' and self.a != 'MIN' and self.b != 'MAX':
            lo, hi = val(self.a), val(self.b)
            c.append(lo <= hi)
            if self.lo_open:
                c.append(lo < hi)
            if self.hi_open:
                c.append(lo < hi)
            if self.lo_open and self.hi_open:
                c.append(lo + 1 < hi)
        return c

    def role(self):
        if self.kind == 'single':
            return 'v'
        return ('MIN' if self.a == 'MIN' else 'lo') + ('<' if self.lo_open else '') + '..' + ('<' if self.hi_open else '') + ('MAX' if self.b == 'MAX' else 'hi')


class ESet:
    def __init__(self, elems, ops, ext=False, all_except=False, paren=False):
        self.elems, self.ops, self.ext, self.all_except = elems, ops, ext, all_except
        self.paren = paren      # every element is written as a parenthesised element set: `((0..5) | (7..9), ...)`
        self.each_size = False  # (sized types) every element is its own SIZE constraint: `(SIZE (1..10) EXCEPT SIZE (5))`

    def phs(self):
        return [p for e in self.elems for p in e.phs()]

    def text(self, val):
        et = (lambda e: '(' + e.text(val) + ')') if self.paren else (lambda e: e.text(val))
        s = et(self.elems[0])
        for op, e in zip(self.ops, self.elems[1:]):
            s += ' ' + op + ' ' + et(e)
        if self.all_except:
            s = 'ALL EXCEPT ' + s
        if self.ext:
            s += ', ...'
        return s

    def sem(self, val, x):
        vals = [e.sem(val, x) for e in self.elems]
        ops = [{'|': 'Union', '^': 'Intersection', 'EXCEPT': 'Except', 'UNION': 'Union', 'INTERSECTION': 'Intersection'}[o] for o in self.ops]
        r = combine(vals, ops)
        if self.all_except:
            r = (z3.Not(r[0]), FULL, F, False)
        return (r[0], r[1], z3.BoolVal(self.ext), r[3])

    def wf(self, val):
        return [c for e in self.elems for c in e.wf(val)]

    def role(self):
        er = (lambda e: '(' + e.role() + ')') if self.paren else (lambda e: 'SIZE ' + e.role()) if self.each_size else (lambda e: e.role())
        s = er(self.elems[0])
        for op, e in zip(self.ops, self.elems[1:]):
            s += ' ' + op + ' ' + er(e)
        return ('ALL EXCEPT ' if self.all_except else '') + s + (', ...' if self.ext else '')


class Shape:
    """serial list of element sets applied to INTEGER (or SIZE of a sized type) in a context"""

    def __init__(self, serial, context='assign', size_of=None):
        self.serial, self.context, self.size_of = serial, context, size_of
        k = 0
        # number placeholders
        for es in serial:
            for e in es.elems:
                if e.kind == 'single':
                    e.a = k
                    k += 1
                else:
                    if e.a != 'MIN':
                        e.a = k
                        k += 1
                    if e.b != 'MAX':
                        e.b = k
                        k += 1
        self.nph = k

    def constraint_text(self, val):
        if self.size_of:
            def one(es):
                if not es.each_size:
                    return '(SIZE (' + es.text(val) + '))'
                t = 'SIZE (' + es.elems[0].text(val) + ')'
                for op, e in zip(es.ops, es.elems[1:]):
                    t += f" {op} SIZE ({e.text(val)})"
                return '(' + t + (', ...' if es.ext else '') + ')'
            return ' '.join(one(es) for es in self.serial)
        return ' '.join('(' + es.text(val) + ')' for es in self.serial)

    def module_text(self, val):
        defs = ''
        if self.context in ('valref', 'valref-component'):
            # every integer of the constraint is written as a reference to a value assignment
            defs = ' '.join(f"v{k} INTEGER ::= {val(k)}" for k in range(self.nph)) + ' '
            val = lambda k: f"v{k}"
        if self.context == 'named-clash':
            # every integer is a named number of T itself; a type that sorts before T declares the same names with other values
            own = ', '.join(f"n{k}({val(k)})" for k in range(self.nph))
            other = ', '.join(f"n{k}(1)" for k in range(self.nph))
            c = self.constraint_text(lambda k: f"n{k}")
            return f"M DEFINITIONS AUTOMATIC TAGS ::= BEGIN Aa ::= INTEGER {{ {other} }} T ::= INTEGER {{ {own} }} {c} END"
        if self.context in ('named-clash-ref', 'named-clash-ref-component'):
            # the integers are named numbers of the REFERENCED type Zed; Aa (sorting before it) declares the same names
            own = ', '.join(f"n{k}({val(k)})" for k in range(self.nph))
            other = ', '.join(f"n{k}(1)" for k in range(self.nph))
            c = self.constraint_text(lambda k: f"n{k}")
            t = f"T ::= Zed {c}" if self.context == 'named-clash-ref' else f"T ::= SEQUENCE {{ a Zed {c} }}"
            return f"M DEFINITIONS AUTOMATIC TAGS ::= BEGIN Aa ::= INTEGER {{ {other} }} Zed ::= INTEGER {{ {own} }} {t} END"
        c = self.constraint_text(val)
        base = self.size_of or 'INTEGER'
        if self.size_of in ('SEQUENCE OF', 'SET OF'):
            kw = self.size_of.split()[0]
            c2 = ' '.join('(SIZE (' + es.text(val) + '))' for es in self.serial)
            ty = f"{kw} {c2} OF BOOLEAN"
        else:
            ty = f"{base} {c}"
        if self.context in ('assign', 'valref'):
            body = f"{defs}T ::= {ty}"
        elif self.context in ('component', 'valref-component'):
            body = f"{defs}T ::= SEQUENCE {{ a {ty} }}"
        elif self.context == 'seqof':
            body = f"T ::= SEQUENCE OF {ty}"
        elif self.context == 'ref':
            first = self.serial[0]
            rest = self.serial[1:]
            c0 = ('(SIZE (' + first.text(val) + '))') if self.size_of else '(' + first.text(val) + ')'
            cr = ' '.join((('(SIZE (' + es.text(val) + '))') if self.size_of else '(' + es.text(val) + ')') for es in rest)
            body = f"P ::= {base} {c0} T ::= P {cr}"
        else:
            raise ValueError(self.context)
        return f"M DEFINITIONS AUTOMATIC TAGS ::= BEGIN {body} END"

    def sem(self, val, x, strict_ext=False):
        """(permits(x), effective interval, extensible).  X.680 50.8/50.9: a serially applied constraint removes the
        extensibility of its parent, so strictly only the last constraint's marker counts; the property text says
        'carries an extension marker', which also admits the union of all markers - both readings are accepted
        by the callers (strict_ext selects which one is returned)."""
        perm, iv, ext = T, FULL, F
        for es in self.serial:
            r = es.sem(val, x)
            perm = z3.And(perm, r[0])
            if r[3]:
                iv = meet(iv, r[1])
            ext = r[2] if strict_ext else z3.Or(ext, r[2])
        if self.size_of:
            perm = z3.And(perm, x >= 0)
            iv = meet(iv, Interval(T, BV(0), F, BV(0)))
        return perm, iv, ext

    def wf(self, val):
        return [c for es in self.serial for c in es.wf(val)]

    def role(self):
        return (self.size_of + ' SIZE ' if self.size_of else 'INTEGER ') + ' '.join('(' + es.role() + ')' for es in self.serial) + ' @' + self.context


def elem_kinds(thorough):
    ks = [('single',), ('range', 'lo', 'hi'), ('range', 'MIN', 'hi'), ('range', 'lo', 'MAX')]
    if thorough:
        ks += [('range', 'MIN', 'MAX'), ('range', 'lo', 'hi', True, False), ('range', 'lo', 'hi', False, True)]
    return ks


def mk_elem(k):
    if k[0] == 'single':
        return Elem('single', 0)
    return Elem('range', k[1] if k[1] == 'MIN' else 0, k[2] if k[2] == 'MAX' else 0, *(k[3:5] if len(k) > 3 else ()))


def shapes(tier, contexts=('assign', 'component'), size_types=()):
    thorough = tier == 'thorough'
    ks = elem_kinds(thorough)
    ops = ['|', '^', 'EXCEPT']
    out = []
    sets = []
    for k in ks:
        for ext in (False, True):
            sets.append(lambda k=k, ext=ext: ESet([mk_elem(k)], [], ext))
    for k1, k2 in itertools.product(ks[:4], ks[:4]):
        for op in ops:
            # quick: the trailing extension marker on two-operand sets only for the finite operand kinds
            exts = (False, True) if (thorough or (k1 in ks[:2] and k2 in ks[:2])) else (False,)
            for ext in exts:
                sets.append(lambda k1=k1, k2=k2, op=op, ext=ext: ESet([mk_elem(k1), mk_elem(k2)], [op], ext))
    three = []
    k3 = [('single',), ('range', 'lo', 'hi')] if not thorough else ks[:4]
    for k1, k2, kk3 in itertools.product(k3, k3, k3):
        for o1, o2 in itertools.product(ops, ops):
            if o1 == 'EXCEPT' and o2 == 'EXCEPT':
                continue
            three.append(lambda k1=k1, k2=k2, kk3=kk3, o1=o1, o2=o2: ESet([mk_elem(k1), mk_elem(k2), mk_elem(kk3)], [o1, o2], False))
    if not thorough:
        # quick: a fixed tenth that still contains every operator pair
        three = [t for i, t in enumerate(three) if i % 8 == 0 or i < 8]
    if thorough:
        sets.append(lambda: ESet([mk_elem(('range', 'lo', 'hi'))], [], False, True))
        sets.append(lambda: ESet([mk_elem(('single',))], [], False, True))
    for ctx in contexts:
        for s in sets + three:
            out.append(Shape([s()], ctx))
        # serial constraints
        ser = [('range', 'lo', 'hi'), ('single',), ('range', 'MIN', 'hi'), ('range', 'lo', 'MAX')]
        for k1, k2 in itertools.product(ser, ser if thorough else ser[:2]):
            for e1 in (False, True):
                out.append(Shape([ESet([mk_elem(k1)], [], e1), ESet([mk_elem(k2)], [], False)], ctx))
            # the marker on the constraint applied LAST (X.680 50.8: that one decides), alone and on both
            if k2 in ser[:2] and (thorough or k1 in ser[:2]):
                for e1 in (False, True):
                    out.append(Shape([ESet([mk_elem(k1)], [], e1), ESet([mk_elem(k2)], [], True)], ctx))
        # the marker on a LAST constraint that has no finite bound of its own (`(0..10) (MIN..MAX, ...)`): the bounds come from the
        # parent, the extensibility from the last constraint
        for k1 in (ser if thorough else ser[:2]):
            for k2 in (('range', 'MIN', 'MAX'), ('range', 'MIN', 'hi'), ('range', 'lo', 'MAX')):
                out.append(Shape([ESet([mk_elem(k1)], [], False), ESet([mk_elem(k2)], [], True)], ctx))
        out.append(Shape([ESet([mk_elem(('range', 'lo', 'hi'))], [], False), ESet([mk_elem(('range', 'MIN', 'MAX'))], [], False)], ctx))
        # ... and on a last constraint that is a SET OPERATION (`(0..255) (0..10 | 20, ...)`: the marker sits on the last operand)
        for op in ('|', '^'):
            out.append(Shape([ESet([mk_elem(('range', 'lo', 'hi'))], [], False), ESet([mk_elem(('range', 'lo', 'hi')), mk_elem(('single',))], [op], True)], ctx))
        if thorough:
            for k1 in ser[:2]:
                out.append(Shape([ESet([mk_elem(k1), mk_elem(('range', 'lo', 'hi'))], ['|'], False), ESet([mk_elem(('range', 'lo', 'hi'))], [], True)], ctx))
                out.append(Shape([ESet([mk_elem(k1)], [], False), ESet([mk_elem(('range', 'lo', 'hi'))], [], False), ESet([mk_elem(('single',))], [], False)], ctx))
    if 'ref' in contexts or thorough:
        for k1, k2 in itertools.product([('range', 'lo', 'hi'), ('single',)], [('range', 'lo', 'hi'), ('range', 'lo', 'MAX')]):
            out.append(Shape([ESet([mk_elem(k1)], [], False), ESet([mk_elem(k2)], [], False)], 'ref'))
    # constraints whose integers are value references (resolved by the linker); half-open ranges included
    for ctx in ('valref', 'valref-component'):
        for k in ks[:4]:
            for ext in ((False, True) if ctx == 'valref' else (False,)):
                out.append(Shape([ESet([mk_elem(k)], [], ext)], ctx))
        out.append(Shape([ESet([mk_elem(('range', 'lo', 'hi')), mk_elem(('range', 'lo', 'MAX'))], ['|'], False)], ctx))
        out.append(Shape([ESet([mk_elem(('range', 'lo', 'hi'))], [], False), ESet([mk_elem(('range', 'lo', 'MAX'))], [], False)], ctx))
        for st in size_types[:2] + size_types[-1:]:
            for k in (('single',), ('range', 'lo', 'hi'), ('range', 'lo', 'MAX')):
                out.append(Shape([ESet([mk_elem(k)], [], False)], ctx, size_of=st))
    # parenthesised element sets inside a constraint (X.680 50.5 Elements ::= "(" ElementSetSpec ")"), with the marker outside
    for ctx in ('assign', 'component'):
        for ext in (False, True):
            out.append(Shape([ESet([mk_elem(('range', 'lo', 'hi'))], [], ext, paren=True)], ctx))
            out.append(Shape([ESet([mk_elem(('range', 'lo', 'hi')), mk_elem(('range', 'lo', 'hi'))], ['|'], ext, paren=True)], ctx))
            out.append(Shape([ESet([mk_elem(('single',)), mk_elem(('range', 'lo', 'MAX'))], ['|'], ext, paren=True)], ctx))
        out.append(Shape([ESet([mk_elem(('range', 'lo', 'hi'))], [], False, paren=True), ESet([mk_elem(('range', 'lo', 'hi'))], [], True)], ctx))
        out.append(Shape([ESet([mk_elem(('range', 'lo', 'hi'))], [], True, paren=True), ESet([mk_elem(('range', 'lo', 'hi'))], [], False, paren=True)], ctx))
    # named numbers of the constrained type as bounds, while another type declares the same names
    for k in ks[:4]:
        out.append(Shape([ESet([mk_elem(k)], [], False)], 'named-clash'))
    out.append(Shape([ESet([mk_elem(('range', 'lo', 'hi'))], [], True)], 'named-clash'))
    for ctx in ('named-clash-ref', 'named-clash-ref-component'):
        for k in ks[:3]:
            out.append(Shape([ESet([mk_elem(k)], [], False)], ctx))
        out.append(Shape([ESet([mk_elem(('range', 'lo', 'hi'))], [], True)], ctx))
    for st in size_types:
        sz = [lambda: ESet([mk_elem(('single',))], [], False), lambda: ESet([mk_elem(('single',))], [], True),
              lambda: ESet([mk_elem(('range', 'lo', 'hi'))], [], False), lambda: ESet([mk_elem(('range', 'lo', 'hi'))], [], True),
              lambda: ESet([mk_elem(('range', 'lo', 'MAX'))], [], False),
              lambda: ESet([mk_elem(('single',)), mk_elem(('range', 'lo', 'hi'))], ['|'], False),
              lambda: ESet([mk_elem(('range', 'lo', 'hi')), mk_elem(('range', 'lo', 'hi'))], ['^'], False)]
        for ctx in ('assign', 'component'):
            for s in sz:
                out.append(Shape([s()], ctx, size_of=st))
            # set operations BETWEEN size constraints
            for op in ('|', '^', 'EXCEPT'):
                for k1, k2 in ((('range', 'lo', 'hi'), ('single',)), (('single',), ('range', 'lo', 'hi'))):
                    es = ESet([mk_elem(k1), mk_elem(k2)], [op], False)
                    es.each_size = True
                    out.append(Shape([es], ctx, size_of=st))
    return out


# ---- bridge run of one shape ----------------------------------------------------------------------------
PH_A = lambda k: 1000003 + 7919 * k
PH_B = lambda k: 2000003 + 104729 * ((k * 5 + 3) % 11)


def skeleton(s, phmap):
    """IR debug string with placeholder values replaced by their index"""
    import re

    def rep(m):
        v = int(m.group(0))
        return f"<ph{phmap[v]}>" if v in phmap else m.group(0)
    return re.sub(r'-?\d+', rep, s)


class ShapeRun:
    """native IR of a shape with placeholders symbolic; generator executed by mirsym"""

    def __init__(self, gen, runner, shape):
        self.gen, self.runner, self.shape = gen, runner, shape
        self.status = None

    def prepare(self):
        sh = self.shape
        a, b = PH_A, PH_B
        # ranges need lo <= hi in the source: assign increasing values inside each range, varied across elements
        self.a = a
        ta = sh.module_text(lambda k: str(a(k)))
        ra = self.runner.compile(ta, backend='ir')
        self.text_a = ta
        if not ra.get('ok'):
            self.status = 'rejected-natively'
            self.native = ra
            return False
        order_b = {}
        # B: different values but the same intra-range order
        vb = {}
        for k in range(sh.nph):
            vb[k] = b(k)
        for es in sh.serial:
            for e in es.elems:
                if e.kind == 'range' and isinstance(e.a, int) and isinstance(e.b, int) and vb[e.a] > vb[e.b]:
                    vb[e.a], vb[e.b] = vb[e.b], vb[e.a]
        tb = sh.module_text(lambda k: str(vb[k]))
        rb = self.runner.compile(tb, backend='ir')
        if not rb.get('ok'):
            self.status = 'non-uniform'
            return False
        ska = [skeleton(t, {a(k): k for k in range(sh.nph)}) for m in ra['ir'] for t in m['tlds']]
        skb = [skeleton(t, {vb[k]: k for k in range(sh.nph)}) for m in rb['ir'] for t in m['tlds']]
        if ska != skb:
            self.status = 'non-uniform'
            self.detail = (ska, skb)
            return False
        self.ir = ra['ir']
        self.status = 'ok'
        return True

    def run(self, ex):
        """one path: returns dict(ts=module token tree, result kind, warnings)"""
        sh = self.shape
        a = self.a
        vals = {a(k): k for k in range(sh.nph)}
        self.syms = [z3.BitVec(f"p{k}", W) for k in range(sh.nph)]

        def on_leaf(path, kind, conc):
            if kind[0] == 'int' and conc in vals:
                s = self.syms[vals[conc]]
                if kind[1] == W:
                    return s
                raise Unsupported(f"placeholder in a {kind} leaf at {path}")
            return conc
        for c in sh.wf(lambda k: self.syms[k]):
            ex.assume(c)
        if sh.size_of:
            for s in self.syms:
                ex.assume(z3.And(s >= 0, s <= BV(2**63 - 1)))
        out = []
        for m in self.ir:
            v = self.gen.load_module(ex, m['tlds'], on_leaf)
            r = self.gen.generate_module(ex, v)
            out.append(self.gen.result_text(ex, r))
        return {'mods': out, 'ts': list(ex.ghost.get('to_string_ts', []))}


# ---- reading the generated item of the shape's type -------------------------------------------------------
def locate(items, shape):
    """(attribute items, type tokens, which) for the constrained thing of the shape"""
    which = 'size' if shape.size_of else 'value'
    structs = {it.name: it for it in tokproj.find_items(items, 'struct')}
    t = structs.get('T')
    if t is None:
        return None
    if shape.context in ('assign', 'ref', 'valref', 'named-clash', 'named-clash-ref'):
        return t.rasn_items(), t.fields[0].ty if t.fields else [], which
    if shape.context in ('component', 'valref-component', 'named-clash-ref-component'):
        fld = [f for f in t.fields if f.name == 'a']
        if not fld:
            return None
        ritems = []
        for a in fld[0].attrs:
            if a.path == 'rasn':
                ritems.extend(a.items())
        ty = fld[0].ty
        # anonymous SEQUENCE OF in a component is hoisted into struct TA
        if shape.size_of in ('SEQUENCE OF', 'SET OF') and 'TA' in structs:
            ritems = ritems + structs['TA'].rasn_items()
        return ritems, ty, which
    if shape.context == 'seqof':
        an = structs.get('AnonymousT')
        if an is None:
            return None
        return an.rasn_items(), an.fields[0].ty if an.fields else [], which
    return None


def type_name(ty_tokens):
    if len(ty_tokens) == 1 and isinstance(ty_tokens[0], tokproj.TIdent):
        return tokproj.idname(ty_tokens[0])
    return None


def widen(v, signed=True):
    v = to_bv(v, W)
    if v.size() < W:
        return z3.SignExt(W - v.size(), v) if signed else z3.ZeroExt(W - v.size(), v)
    return v


def emitted_interval(ann):
    lo, hi = ann[0], ann[1]
    return Interval(z3.BoolVal(lo is not None), widen(lo) if lo is not None else BV(0),
                    z3.BoolVal(hi is not None), widen(hi) if hi is not None else BV(0))


def same_interval(a, b):
    return z3.And(a.lo_fin == b.lo_fin, a.hi_fin == b.hi_fin, z3.Implies(a.lo_fin, a.lo == b.lo), z3.Implies(a.hi_fin, a.hi == b.hi))


def nonempty(iv):
    return z3.Or(z3.Not(iv.lo_fin), z3.Not(iv.hi_fin), iv.lo <= iv.hi)


def check_shape(chk, gen, runner, shape, want, stats):
    """run one shape through the bridge and discharge the C04 / C06 obligations (want: set of 'C04','C06')"""
    sr = ShapeRun(gen, runner, shape)
    if not sr.prepare():
        stats[sr.status] = stats.get(sr.status, 0) + 1
        if sr.status == 'non-uniform':
            chk.res.inconclusive.append(f"lexer/linker output not uniform in the integer values for shape {shape.role()}")
        elif sr.status == 'rejected-natively' and bridge.REJECT_IS_VIOLATION:
            e = sr.native.get('error') or {}
            chk.violation(f"rejected {shape.role()}", f"valid constraint notation is rejected ({str(e.get('display'))[:100]}): {sr.text_a}", {'kind': 'text', 'text': sr.text_a})
        return
    stats['shapes'] = stats.get('shapes', 0) + 1
    rs = chk.explore(sr.run)
    x = z3.BitVec('x', W)
    val = lambda k: sr.syms[k]
    perm, eff, rext = shape.sem(val, x)
    rext_strict = shape.sem(val, x, True)[2]
    role = shape.role()
    for r in rs:
        if r.kind == 'panic':
            chk.violation(f"panic {role}", f"generator panics on {role}: {r.value[0]}", {'kind': 'panic', 'role': role, 'text': shape.module_text(lambda k: str(sr.a(k)))})
            continue
        if r.kind != 'ok':
            continue
        kind, text, warns = r.value['mods'][0]
        ts_list = r.value['ts']
        if kind != 'ok' or text is None or not ts_list:
            chk.res.inconclusive.append(f"generate_module returned {kind} for {role}")
            continue
        if warns:
            # the definition was turned into a warning (Err from the generator): allowed only for an empty set
            stats['err-paths'] = stats.get('err-paths', 0) + 1
            if 'C04' in want:
                m = chk.holds(r.pc, z3.Not(z3.And(nonempty(eff), z3.Exists([x], perm) if False else nonempty(eff))), 'err-only-if-empty')
                if m:
                    report(chk, sr, shape, m, x, f"C04 error-on-nonempty {role}", 'generator reports an error although the constraint permits values', 'err')
            continue
        items = tokproj.parse_items(ts_list[-1])
        loc = locate(items, shape)
        if loc is None:
            chk.res.inconclusive.append(f"cannot locate generated item for {role}")
            continue
        ritems, ty, which = loc
        try:
            ann = tokproj.range_annotation(ritems, which)
        except ValueError as e:
            chk.res.inconclusive.append(f"{role}: {e}")
            continue
        tname = type_name(ty)
        chk.sample({'shape': role, 'text': shape.module_text(lambda k: f"<p{k}>"), 'annotation': None if ann is None else
                    [str(ann[0]), str(ann[1]), ann[2]], 'type': tname})
        E = emitted_interval(ann) if ann is not None else (Interval(T, BV(0), F, BV(0)) if shape.size_of else FULL)
        if 'C04' in want:
            chk.witness('annotation emitted', ann is not None)
            chk.witness('no annotation emitted', ann is None)
            m = chk.holds(r.pc, z3.Implies(perm, E.contains(x)), 'soundness')
            if m:
                report(chk, sr, shape, m, x, f"C04 soundness {role}", 'emitted bound excludes a value the constraint permits', 'soundness')
            elif shape.context not in ('ref',):
                # FixedOctetString / FixedBitString parameters count as the emitted size
                fixed = fixed_size(ty)
                if fixed is not None and ann is None:
                    E = Interval(T, widen(fixed, False), T, widen(fixed, False))
                m = chk.holds(r.pc, z3.Implies(nonempty(eff), same_interval(E, eff)), 'exactness')
                if m:
                    report(chk, sr, shape, m, x, f"C04 exactness {role}", 'emitted bound differs from the PER-visible effective constraint', 'exactness')
                if ann is not None or fixed is not None:
                    em = z3.BoolVal(bool(ann[2]) if ann is not None else False)
                    m = chk.holds(r.pc, z3.Or(em == rext, em == rext_strict), 'ext-flag')
                    if m:
                        report(chk, sr, shape, m, x, f"C04 extensible-flag {role}", 'extensible flag differs from the presence of an extension marker', 'ext')
        if 'C06' in want and not shape.size_of:
            if tname in RUST_INT_RANGE:
                chk.witness('fixed-width type chosen')
                m = chk.holds(r.pc, z3.Implies(perm, in_rust_type(x, tname)), 'type-holds-values')
                if m:
                    report(chk, sr, shape, m, x, f"C06 type-too-narrow {role}", f'chosen type {tname} cannot hold a permitted value', 'type')
                m = chk.holds(r.pc, z3.Implies(nonempty(eff), z3.And(z3.Not(rext_strict), eff.lo_fin, eff.hi_fin)), 'fixed-width-precondition')
                if m:
                    report(chk, sr, shape, m, x, f"C06 fixed-width-unjustified {role}", f'fixed-width {tname} although the constraint is extensible or has an infinite bound', 'fixed')
            elif tname == 'Integer' or shape.context in ('ref', 'named-clash-ref', 'named-clash-ref-component'):
                chk.witness('Integer chosen')
            else:
                chk.res.inconclusive.append(f"{role}: unexpected integer type tokens {tokproj.safe_str(tokproj.TS(ty))}")


def fixed_size(ty):
    """n of FixedOctetString<n usize> / FixedBitString<n usize>"""
    if len(ty) >= 4 and isinstance(ty[0], tokproj.TIdent) and tokproj.idname(ty[0]) in ('FixedOctetString', 'FixedBitString'):
        t = ty[2]
        if isinstance(t, tokproj.TLit) and t.kind == 'int':
            return t.payload[0]
        if isinstance(t, tokproj.TLit) and t.kind == 'raw':
            import re
            mm = re.match(r'\d+', t.payload)
            return int(mm.group(0)) if mm else None
    return None


def report(chk, sr, shape, model, x, sig, what, oracle):
    vals = {k: model_int(model, sr.syms[k]) for k in range(shape.nph)}
    xv = model_int(model, x)
    text = shape.module_text(lambda k: str(vals[k]))
    replay = {'kind': 'constraint-shape', 'oracle': oracle, 'role': shape.role(), 'text': text, 'x': str(xv), 'values': {str(k): str(v) for k, v in vals.items()}}
    # native confirmation
    ok, detail = confirm(sr.runner, shape, vals, xv, oracle)
    replay['native'] = detail
    if ok:
        chk.violation(sig, f"{what}: {text} (x = {xv}); native: {detail}", replay)
    else:
        chk.res.inconclusive.append(f"counterexample did not reproduce natively ({sig}): {text} x={xv}: {detail}")


def confirm(runner, shape, vals, xv, oracle):
    """replay through the natively compiled compiler and judge with the same reference semantics on concrete numbers"""
    text = shape.module_text(lambda k: str(vals[k]))
    out = runner.compile(text, backend='rasn')
    if out.get('panic') or out.get('crash') is not None or out.get('hang'):
        return True, f"native run: {out}"
    x = z3.BitVecVal(xv, W)
    val = lambda k: z3.BitVecVal(vals[k], W)
    perm, eff, rext = shape.sem(val, x)
    rext_strict = shape.sem(val, x, True)[2]
    cv = lambda t: z3.is_true(z3.simplify(t))
    if not out.get('ok'):
        return (oracle == 'err' and cv(nonempty(eff))), f"native Err: {out.get('error', {}).get('display')}"
    if out.get('warnings'):
        return (oracle == 'err' and cv(nonempty(eff))), f"native warning: {out['warnings'][0].get('display')}"
    items = tokproj.project_text(out['generated'])
    loc = locate(items, shape)
    if loc is None:
        return False, 'item not found in native output'
    ritems, ty, which = loc
    try:
        ann = tokproj.range_annotation(ritems, which)
    except ValueError as e:
        return False, str(e)
    tname = type_name(ty)
    E = emitted_interval(ann) if ann is not None else (Interval(T, BV(0), F, BV(0)) if shape.size_of else FULL)
    fx = fixed_size(ty)
    if fx is not None and ann is None:
        E = Interval(T, BV(fx), T, BV(fx))
    desc = f"emitted {which}={None if ann is None else (ann[0], ann[1], 'ext' if ann[2] else '')} type={tokproj.safe_str(tokproj.TS(ty))}"
    if oracle == 'soundness':
        return cv(z3.And(perm, z3.Not(E.contains(x)))), desc
    if oracle == 'exactness':
        return cv(z3.And(nonempty(eff), z3.Not(same_interval(E, eff)))), desc
    if oracle == 'ext':
        em = z3.BoolVal(bool(ann[2]) if ann is not None else False)
        return cv(z3.And(em != rext, em != rext_strict)), desc
    if oracle == 'type':
        return (tname in RUST_INT_RANGE and cv(z3.And(perm, z3.Not(in_rust_type(x, tname))))), desc
    if oracle == 'fixed':
        return (tname in RUST_INT_RANGE and cv(z3.And(nonempty(eff), z3.Not(z3.And(z3.Not(rext_strict), eff.lo_fin, eff.hi_fin))))), desc
    return False, desc
