"""C15  Permitted-alphabet annotations denote exactly the FROM constraint."""
import itertools, re, z3
from mirsym.core import *
from mirsym import bridge, native, tokproj
from mirsym.harness import Checker, model_int
from mirsym.tokproj import TS, TGroup, safe_str, is_id

ROOTS = list(bridge.GEN_ROOTS)
ASSUMPTIONS = [
    "FROM expressions with <= 2 (thorough 3) operands (strings of 1..3 characters, character ranges; | and ^ inside FROM) over an 8-point alphabet per base type (first/second/last/middle table entries, a gap pair); lexer+linker natively (shape bridge); the real generator MIR (format_alphabet_annotations, PerVisibleAlphabetConstraints, the LazyLock character tables, fold_constraint_set with a character set) runs in mirsym; the emitted from(..) items are read back as a set and z3 decides set equality with the X.680 semantics for EVERY code point x",
    "EXCEPT inside FROM (2 operands, ALL EXCEPT, `a | b EXCEPT c`): the annotation must equal the X.680 set difference OR the PER-visible reading of X.691 10.3.21 (EXCEPT and the set after it ignored, which the compiler applies to every other constraint); no annotation = the whole base alphabet",
    "BMPString / UniversalString tables (65 536 entries built by a 65k-iteration loop) exceed the step budget in the quick tier: they are exercised in the thorough tier only",
]
NCHUNK = 8
PRINTABLE = sorted(set(ord(c) for c in "ABCDEFGHIJKLMNOPQRSTUVWXYZabcdefghijklmnopqrstuvwxyz0123456789 '()+,-./:=?"))
BASE = {
    'NumericString': sorted([32] + list(range(48, 58))),
    'PrintableString': PRINTABLE,
    'VisibleString': list(range(32, 127)),
    'IA5String': list(range(0, 128)),
}
NOT_KM = ['UTF8String', 'TeletexString', 'GeneralString', 'GraphicString']
POINTS = {
    'NumericString': [' ', '0', '1', '5', '8', '9'],
    'PrintableString': ['A', 'B', 'Z', 'a', 'm', 'z', '0', '?'],
    'VisibleString': [' ', '!', 'A', 'a', 'z', '~'],
    'IA5String': ['a', 'b', 'k', 'z', 'A', '~'],
}

CROSS = {
    'NumericString': [(' 19', '0', '5'), ('05 ', '1', '9')],
    'PrintableString': [('yz0', 'A', 'z'), ('89 ', '0', '9'), ('Zz5', 'a', 'z'), ('aZ9', 'A', 'Z'), ('A?a', '0', '9')],
    'VisibleString': [('a~ ', 'A', 'z'), ('0Az', '!', '9')],
    'IA5String': [('aZ~', 'A', 'k'), ('\t5z', '0', 'a')],
}


def lit(s):
    return '"' + s.replace('"', '""') + '"'


class El:
    def __init__(self, kind, a, b=None):
        self.kind, self.a, self.b = kind, a, b

    def text(self):
        if self.kind == 'all':
            return 'ALL'
        return lit(self.a) if self.kind == 'str' else f"{lit(self.a)}..{lit(self.b)}"

    def sem(self, x, base):
        if self.kind == 'all':
            return z3.BoolVal(True)
        if self.kind == 'str':
            return z3.Or([x == ord(c) for c in self.a])
        # range: characters of the base alphabet between the end points in the type's canonical order (= code point order)
        return z3.And(x >= ord(self.a), x <= ord(self.b))

    def role(self):
        return 'ALL' if self.kind == 'all' else f"str{len(self.a)}" if self.kind == 'str' else 'range'


def shapes(tier):
    out = []
    for ty, pts in POINTS.items():
        els = []
        for p in pts[:4]:
            els.append(El('str', p))
        els.append(El('str', pts[0] + pts[2]))
        els.append(El('str', pts[1] + pts[3] + pts[-1]))
        for a, b in ((0, 2), (1, 3), (0, len(pts) - 1), (2, 2), (3, len(pts) - 1)):
            lo, hi = sorted((pts[a], pts[b]), key=ord)
            els.append(El('range', lo, hi))
        if tier == 'quick':
            els = els[::2] + [els[-1]]
        exprs = [([e], []) for e in els]
        for e1, e2 in itertools.product(els[:5] if tier == 'quick' else els, repeat=2):
            for op in ('|', '^'):
                exprs.append(([e1, e2], [op]))
        # a union that is NOT one contiguous run of the character table: a low range and a far-away character (both orders)
        spts = sorted(pts, key=ord)
        lo_rng, far = El('range', spts[0], spts[1]), El('str', spts[-1])
        exprs.append(([lo_rng, far], ['|']))
        exprs.append(([far, lo_rng], ['|']))
        # EXCEPT (in the property's quantifier): X.680 set difference; X.691 10.3.21 makes EXCEPT and the set after it
        # PER-invisible, which the compiler follows for every other constraint - both readings are accepted
        for e1, e2 in itertools.product(els[:5] if tier == 'quick' else els, repeat=2):
            exprs.append(([e1, e2], ['EXCEPT']))
        exprs.append(([El('all', ''), els[0]], ['EXCEPT']))
        exprs.append(([El('all', ''), els[-1]], ['EXCEPT']))
        exprs.append(([lo_rng, far], ['EXCEPT']))
        exprs.append(([far, lo_rng], ['EXCEPT']))
        # a string whose lowest / highest character and the end points of the range lie in DIFFERENT character classes (letters,
        # digits, symbols), so that "which of the two is the smaller" differs between code point order and any other table order
        for st, lo, hi in CROSS[ty]:
            for op in ('^', '|'):
                exprs.append(([El('str', st), El('range', lo, hi)], [op]))
                exprs.append(([El('range', lo, hi), El('str', st)], [op]))
        for e1, e2, e3 in itertools.product(els[:3] if tier == 'quick' else els[:5], repeat=3):
            exprs.append(([e1, e2, e3], ['|', 'EXCEPT']))
        if tier != 'quick':
            for e1, e2, e3 in itertools.product(els[:4], repeat=3):
                for o1, o2 in itertools.product('|^', repeat=2):
                    exprs.append(([e1, e2, e3], [o1, o2]))
        for els_, ops in exprs:
            inner = els_[0].text()
            for o, e in zip(ops, els_[1:]):
                inner += f" {o} {e.text()}"
            for ctx in ('assign', 'component', 'ref-assign', 'ref-component', 'size-after', 'size-before', 'size-inter-after', 'size-inter-before', 'size-inter-ext-after', 'size-inter-ext-before'):
                if ctx in ('size-after', 'size-before') and (len(els_) > 1 or tier == 'quick' and els_[0].kind == 'str'):
                    continue
                if ctx.startswith('size-inter-ext') and (len(els_) > 1 and tier == 'quick' and not (els_[0].kind != els_[1].kind)):
                    continue
                if 'EXCEPT' in ops and ctx not in ('assign', 'component', 'size-inter-after'):
                    continue
                if ctx.startswith('ref-') and (len(els_) > 1 or (tier == 'quick' and els_[0].kind == 'str' and len(els_[0].a) > 1)):
                    continue
                if ctx.startswith('size-inter') and (('^' in ops and (ctx.startswith('size-inter-ext') or len(els_) > 2)) or (tier == 'quick' and '^' not in ops and len(els_) > 1 and els_[0].kind == els_[1].kind == 'str')):
                    # FROM and SIZE joined by an intersection inside ONE constraint (folded by fold_constraint_set)
                    continue
                c = f"(FROM ({inner}))"
                if ctx == 'size-after':
                    c = c + ' (SIZE (1..4))'
                elif ctx == 'size-before':
                    c = '(SIZE (1..4)) ' + c
                elif ctx == 'size-inter-after':
                    c = f"(FROM ({inner}) ^ SIZE (1..4))"
                elif ctx == 'size-inter-before':
                    c = f"(SIZE (1..4) ^ FROM ({inner}))"
                elif ctx == 'size-inter-ext-after':
                    c = f"(FROM ({inner}) ^ SIZE (1..4, ...))"
                elif ctx == 'size-inter-ext-before':
                    c = f"(SIZE (1..4, ...) ^ FROM ({inner}))"
                body = f"T ::= {ty} {c}" if ctx != 'component' else f"T ::= SEQUENCE {{ a {ty} {c} }}"
                if ctx in ('ref-assign', 'ref-component'):
                    # the constrained type is a REFERENCE to the known-multiplier string type
                    body = f"Name ::= {ty} " + (f"T ::= Name {c}" if ctx == 'ref-assign' else f"T ::= SEQUENCE {{ a Name {c} }}")
                text = f"M DEFINITIONS AUTOMATIC TAGS ::= BEGIN {body} END"
                role = ' '.join([els_[0].role()] + [f"{o} {e.role()}" for o, e in zip(ops, els_[1:])])
                out.append((f"C15 {ty} FROM({role}) @{ctx}", text, {'ty': ty, 'els': els_, 'ops': ops, 'ctx': ctx}))
    for ty in NOT_KM:
        for ctx in ('assign', 'component'):
            c = '(FROM ("a".."f"))'
            body = f"T ::= {ty} {c}" if ctx == 'assign' else f"T ::= SEQUENCE {{ a {ty} {c} }}"
            out.append((f"C15 {ty} not-known-multiplier @{ctx}", f"M DEFINITIONS AUTOMATIC TAGS ::= BEGIN {body} END", {'ty': ty, 'els': None, 'ops': [], 'ctx': ctx}))
    return out


def from_items(ritems):
    """list of (lo, hi) code point pairs of from(..) or None if no from annotation"""
    for it in ritems:
        if it and is_id(it[0], 'from') and len(it) > 1 and isinstance(it[1], TGroup):
            out = []
            for part in tokproj.split_commas(it[1].ts.toks):
                ch = tokproj.lit_chars(part[0]) if part else None
                if ch is None or not is_conc_chars(ch):
                    raise ValueError('from item is not a string literal')
                s = ''.join(map(chr, ch))
                if '..=' in s and len(s) > 3:
                    a, b = s.split('..=')
                    out.append((ord(a) if a else 0, ord(b) if b else 0x10FFFF))
                else:
                    if len(s) != 1:
                        raise ValueError(f"from item {s!r}")
                    out.append((ord(s), ord(s)))
            return out
    return None


def judge(items, info, chk, pc, nwarn):
    if nwarn:
        return [('warning', f"{nwarn} warning(s): the type is not generated")]
    structs = {i.name: i for i in tokproj.find_items(items, 'struct')}
    t = structs.get('T')
    if t is None:
        return [('missing', 'T not generated')]
    if info['ctx'] in ('component', 'ref-component'):
        f = [x for x in t.fields if x.name == 'a']
        ritems = []
        for a in (f[0].attrs if f else []):
            if a.path == 'rasn':
                ritems.extend(a.items())
    else:
        ritems = t.rasn_items()
    try:
        fr = from_items(ritems)
    except ValueError as e:
        return [('annotation', str(e))]
    if info['els'] is None:
        return [] if fr is None else [('not-known-multiplier', f"alphabet annotation on {info['ty']}")]
    x = z3.BitVec('x', 32)
    base = BASE[info['ty']]
    in_base = z3.Or([x == c for c in base]) if len(base) < 100 else z3.And(x >= base[0], x <= base[-1])
    def denote(per_reading):
        vals = [e.sem(x, base) for e in info['els']]
        ops = list(info['ops'])
        # X.680: EXCEPT binds tightest, then INTERSECTION, then UNION
        i = 0
        while i < len(ops):
            if ops[i] == 'EXCEPT':
                vals[i:i + 2] = [vals[i] if per_reading else z3.And(vals[i], z3.Not(vals[i + 1]))]
                del ops[i]
            else:
                i += 1
        i = 0
        while i < len(ops):
            if ops[i] == '^':
                vals[i:i + 2] = [z3.And(vals[i], vals[i + 1])]
                del ops[i]
            else:
                i += 1
        perm = z3.Or(vals) if len(vals) > 1 else vals[0]
        return z3.And(in_base, perm, z3.ULE(x, 0x10FFFF))
    want = denote(False)
    # no annotation at all: every character of the base alphabet is permitted
    got = z3.Or([z3.And(z3.UGE(x, lo), z3.ULE(x, hi)) for lo, hi in fr]) if fr else (in_base if fr is None and 'EXCEPT' in info['ops'] else z3.BoolVal(False))
    if 'EXCEPT' in info['ops']:
        s0 = z3.Solver()
        s0.add(z3.ULE(x, 0x10FFFF), got != want)
        if s0.check() == z3.unsat:
            # the X.680 set difference, for every code point
            if chk is not None:
                chk.res.obligations += 2
                chk.res.discharged += 2
            return []
        # otherwise the annotation is judged against the PER-visible reading (X.691 10.3.21: EXCEPT and what follows
        # it is ignored), which is the one the compiler implements for every constraint
        want = denote(True)
    fails = []
    if chk is not None:
        chk.res.obligations += 2
    # deterministic classification: first a character outside the base alphabet, else one the expression excludes
    bad = False
    for kind, extra in (('outside-base', z3.Not(in_base)), ('not-permitted', in_base)):
        s = z3.Solver()
        s.add(z3.ULE(x, 0x10FFFF), got, z3.Not(want), extra)
        if s.check() == z3.sat:
            c = s.model().eval(x, model_completion=True).as_long()
            fails.append((kind, f"annotation {fr} admits {chr(c)!r} (U+{c:04X}), which the FROM constraint over {info['ty']} does not"))
            bad = True
    if not bad and chk is not None:
        chk.res.discharged += 1
    s = z3.Solver()
    s.add(want, z3.Not(got))
    if s.check() == z3.sat:
        c = s.model().eval(x, model_completion=True).as_long()
        fails.append(('excluded', f"annotation {fr} excludes {chr(c)!r} (U+{c:04X}), which the FROM constraint permits"))
    elif chk is not None:
        chk.res.discharged += 1
    return fails


def jobs(tier, seed):
    return [f"chunk{i}" for i in range(NCHUNK)]


def run_job(prog, job, tier, seed):
    chk = Checker(prog, job)
    gen = bridge.Gen(prog)
    runner = native.Runner()
    stats = {}
    try:
        i = int(job[5:])
        bridge.run_text_shapes(chk, gen, runner, shapes(tier)[i::NCHUNK], judge, stats)
    finally:
        runner.close()
    chk.res.notes.append(f"{job}: {stats}")
    chk.res.bounds = {'operands': '<=2 quick / <=3', 'x': 'every code point (symbolic)', 'types': list(BASE)}
    return chk.res
