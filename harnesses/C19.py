"""C19  Backend options change only what they document."""
import itertools, re, z3
from mirsym.core import *
from mirsym import bridge, native, tokproj, models
from mirsym.harness import Checker
from mirsym.tokproj import TS, safe_str

FROM_CONFIG = '<rasn_compiler::generator::rasn::Rasn as rasn_compiler::generator::Backend>::from_config'
ROOTS = list(bridge.GEN_ROOTS) + [FROM_CONFIG]
ASSUMPTIONS = [
    "relational, inside one symbolic run: the backend is built by the real Rasn::from_config (derive merging, parse_rust_derive_annotation through nom) from a Config whose four boolean options are free solver variables; generate_module runs from real MIR on the natively linked IR of a fixed module pair; every path is compared item by item with the projection obtained under the default configuration transformed by an independent reference for each documented option",
    "custom_imports in {none, one, several}, type_annotations in {default, extra derives, extra non-derive attribute, required and additional derives listed twice (adjacent, non-adjacent, inside one line), empty}",
    "the modules contain module-qualified type references (component, element, alias), a CHOICE with duplicate and unique payload types, IMPORTS clauses that mix type and value references (a value reference first, in the middle), a SEQUENCE with DEFAULT, a LazyLock static and a const",
]
TEXT = ("M DEFINITIONS AUTOMATIC TAGS ::= BEGIN IMPORTS Tb, max-w, Tc FROM Mb depth-c, Td FROM Mc; C ::= CHOICE { a INTEGER, b BOOLEAN, c INTEGER, d Tb, e SEQUENCE { k NULL } } "
        "S ::= SEQUENCE { x INTEGER DEFAULT 5, y C OPTIONAL, z Tc OPTIONAL, u Td OPTIONAL, qa Mb.Tc OPTIONAL, qb SEQUENCE OF Mc.Td OPTIONAL } Q ::= Mb.Tb D ::= CHOICE { p BOOLEAN, q BOOLEAN } v INTEGER ::= 7 w BOOLEAN ::= TRUE "
        # values of every constness: constant and non-constant CHOICE values, a SEQUENCE value, a string, an OBJECT IDENTIFIER, a constrained integer
        "cv D ::= p : TRUE cn C ::= a : 5 cb C ::= b : FALSE sq S ::= { x 6 } st UTF8String ::= \"hi\" oi OBJECT IDENTIFIER ::= { 1 2 3 } sm INTEGER (0..9) ::= 4 END\n"
        "Mb DEFINITIONS AUTOMATIC TAGS ::= BEGIN Tb ::= NULL max-w INTEGER ::= 9 Tc ::= BOOLEAN Te ::= ENUMERATED { r, g } END\n"
        "Mc DEFINITIONS AUTOMATIC TAGS ::= BEGIN depth-c INTEGER ::= 3 Td ::= BOOLEAN END")
DEFAULT_ANN = '#[derive(AsnType, Debug, Clone, Decode, Encode, PartialEq, Eq, Hash)]'
IMPORT_SETS = [[], ['foo::bar'], ['foo::bar', 'baz::*', 'crate::qux::Quux', 'user_defined::ext::Extra', 'useful::X']]     # the last two: paths that merely START with the letters `use`
ANN_SETS = {'default': [DEFAULT_ANN], 'extra-derive': [DEFAULT_ANN, '#[derive(Default)]'], 'non-derive': [DEFAULT_ANN, '#[non_exhaustive]'],
            'twice': [DEFAULT_ANN, '#[derive(Debug, Clone, PartialOrd)]'], 'empty': [],
            # derives outside the required set listed more than once, adjacent and not adjacent
            'default-twice': [DEFAULT_ANN, DEFAULT_ANN], 'overlap': ['#[derive(Eq, Hash)]', '#[derive(Serialize, Eq, Hash)]'], 'repeat-in-line': ['#[derive(Eq, Hash, Eq)]'],
            # user derives whose names CONTAIN / extend the names of derives the backend manages itself
            # the same lines with white-space / a line break around them (layout of the configuration string is not part of its meaning)
            'trailing-ws': [DEFAULT_ANN + '\n', '#[derive(PartialOrd, Debug)] '], 'leading-ws': ['  ' + DEFAULT_ANN, '\t#[derive(PartialOrd)]\n'],
            'copy-like': ['#[derive(CopyGetters, DeepCopy)]'], 'name-like': ['#[derive(DebugStub, Cloneable, AsnTypeExt, Encoder, PartialEqual, Dec)]']}
REQUIRED = ['AsnType', 'Debug', 'Clone', 'Decode', 'Encode', 'PartialEq']
FLAGS = ['default_wildcard_imports', 'generate_from_impls', 'no_std_compliant_bindings', 'opaque_open_types']


def jobs(tier, seed):
    js = []
    for i, _ in enumerate(IMPORT_SETS):
        for a in ANN_SETS:
            if tier == 'quick' and i > 0 and a in ('default-twice', 'overlap', 'repeat-in-line', 'copy-like', 'name-like', 'leading-ws'):
                continue
            js.append(f"cfg-{i}-{a}")
    return js


def norm(s):
    return re.sub(r'\s+', ' ', s).strip()


def item_strings(items):
    """module name -> list of normalised item strings"""
    out = {}
    for m in items:
        if m.kind == 'mod':
            out[m.name] = [norm(safe_str(TS(it.raw))) for it in m.items]
    return out


def parse_derives(item_str):
    m = re.search(r'# \[derive \(([^)]*)\)\]', item_str)
    return [d.strip() for d in m.group(1).split(',') if d.strip()] if m else None


def expected(base, flags, imports, ann):
    """reference transformation of the default-config projection"""
    out = {}
    user_derives = []
    non_derive = []
    for a in ANN_SETS[ann]:
        m = re.fullmatch(r'#\[derive\((.*)\)\]', a.strip())
        if m:
            user_derives += [d.strip() for d in m.group(1).split(',')]
        else:
            non_derive.append(a)
    for mod, its in base.items():
        res = []
        for s in its:
            if s.startswith('use super ::') and flags['default_wildcard_imports']:
                s = re.sub(r'\{[^}]*\}', '{ * }', s)
            if flags['no_std_compliant_bindings']:
                if s == 'use std :: sync :: LazyLock ;':
                    s = 'use lazy_static :: lazy_static ;'
                m = re.fullmatch(r'pub static (\w+) : LazyLock < (.*) > = LazyLock :: new \(\|\| (.*)\) ;', s)
                if m:
                    s = f"lazy_static ! {{ pub static ref {m.group(1)} : {m.group(2)} = {m.group(3)} ; }}"
            res.append(s)
            if flags['generate_from_impls'] and ' pub enum ' in (' ' + s) and 'rasn (choice' in s:
                m = re.search(r'pub enum (\w+) \{ (.*) \}$', s)
                name, body = m.group(1), m.group(2)
                alts = re.findall(r'(\w+) \(([^()]*(?:\(\))?[^()]*)\) ,', body)
                tys = [t.strip() for _, t in alts]
                for alt, ty in alts:
                    ty = ty.strip()
                    if tys.count(ty) == 1:
                        res.append(f"impl From < {ty} > for {name} {{ fn from (value : {ty}) -> Self {{ Self :: {alt} (value) }} }}")
        # custom imports: added use lines
        res += [norm('use ' + re.sub(r'::', ' :: ', i).replace('  ', ' ') + ' ;') for i in imports]
        out[mod] = res
    return out, user_derives, non_derive


def compare(base, got, flags, imports, ann):
    exp, user_derives, non_derive = expected(base, flags, imports, ann)
    fails = []
    for mod in exp:
        nd = [norm(tokproj.safe_str(tokproj.tokenize(a))) for a in non_derive]
        e = [strip_type_attrs(x, nd) for x in exp[mod]]
        g = [strip_type_attrs(x, nd) for x in got.get(mod, [])]
        se, sg = sorted(norm_use(x) for x in e), sorted(norm_use(x) for x in g)
        if se != sg:
            missing = [x for x in se if x not in sg]
            extra = [x for x in sg if x not in se]
            fails.append(('items', f"module {mod}: missing {missing[:2]} unexpected {extra[:2]}"))
        # attributes of type items: the derives the backend needs (incl. Copy exactly where the default configuration has it)
        # plus the user's, each once
        base_copy = {}
        for x in base.get(mod, []):
            m = re.search(r'pub (?:struct|enum) (\w+)', x)
            if m and '# [derive' in x:
                base_copy[m.group(1)] = 'Copy' in (parse_derives(x) or [])
        for x in got.get(mod, []):
            if re.search(r'pub (struct|enum) ', x) and '# [derive' in x:
                ds = parse_derives(x)
                nm = re.search(r'pub (?:struct|enum) (\w+)', x).group(1)
                want = set(REQUIRED) | set(user_derives) | ({'Copy'} if base_copy.get(nm) else set())
                if sorted(set(ds)) != sorted(want) or len(ds) != len(set(ds)):
                    fails.append(('derives', f"derives {ds} on {nm}, expected {sorted(want)} once each"))
                for a in non_derive:
                    na = norm(tokproj.safe_str(tokproj.tokenize(a)))
                    if x.count(na) != 1:
                        fails.append(('annotation', f"type annotation {a} appears {x.count(na)} times on {x[:60]}"))
    return fails


def strip_type_attrs(s, user_attrs=()):
    """remove the configurable type-level attributes (derive + user annotations) so that the rest is compared exactly"""
    if not re.search(r'pub (struct|enum) ', s):
        return s
    s = re.sub(r'# \[derive \([^)]*\)\] ', '', s)
    for a in user_attrs:
        s = s.replace('# [' + a[3:] if a.startswith('# [') else a, '', 1) if False else s.replace(a + ' ', '', 1)
    return s


def norm_use(s):
    return s.replace('{ * }', '*').replace('::*', ':: *').replace(':: * ;', ':: * ;')


def run_job(prog, job, tier, seed):
    chk = Checker(prog, job)
    _, ii, ann = job.split('-', 2)
    imports = IMPORT_SETS[int(ii)]
    gen = bridge.Gen(prog)
    fc = prog.find(FROM_CONFIG)
    cfg_ty = prog.inst[fc]['locals'][1]
    runner = native.Runner()
    try:
        nat = runner.compile(TEXT, backend='ir')
        base_out = runner.compile(TEXT)
        if not nat.get('ok') or not base_out.get('ok'):
            chk.res.inconclusive.append('base module rejected')
            return chk.res
        flagsyms = {n: z3.Bool(n) for n in FLAGS}

        def mkconfig(ex, symbolic):
            vals = []
            for c in prog.ty(cfg_ty)['adt']['variants'][0]['fields']:
                if c['name'] == 'custom_imports':
                    vals.append(VecV([Cell(StringV([ord(ch) for ch in s])) for s in (imports if symbolic else [])]))
                elif c['name'] == 'type_annotations':
                    vals.append(VecV([Cell(StringV([ord(ch) for ch in s])) for s in (ANN_SETS[ann] if symbolic else [DEFAULT_ANN])]))
                else:
                    vals.append(flagsyms[c['name']] if symbolic else (c['name'] == 'opaque_open_types'))
            return Adt(cfg_ty, 0, vals)

        def run(symbolic):
            def go(ex):
                rasn = ex.call(fc, [mkconfig(ex, symbolic)])
                outs = []
                for m in nat['ir']:
                    v = gen.load_module(ex, m['tlds'])
                    outs.append(gen.result_text(ex, gen.generate_module(ex, v, rasn)))
                return {'mods': outs, 'ts': list(ex.ghost.get('to_string_ts', []))}
            return go
        chk.ex.max_path_steps = 600000
        rs0 = chk.explore(run(False))
        if len(rs0) != 1 or rs0[0].kind != 'ok':
            chk.res.inconclusive.append(f"default-config run: {[(r.kind, str(r.value)[:200]) for r in rs0[:2]]}")
            return chk.res

        def mods_of(r):
            items = []
            for t in r.value['ts']:
                its = tokproj.parse_items(t)
                if any(i.kind == 'mod' for i in its):
                    items.extend(its)
            return item_strings(items)
        base = mods_of(rs0[0])
        # the default-config projection itself must equal the native one (differential validation)
        if base == item_strings(tokproj.project_text(base_out['generated'])):
            chk.res.diff_ok += 1
        else:
            chk.res.diff_fail.append('default-config projection differs from the native output')
        for r in chk.explore(run(True)):
            if r.kind == 'panic':
                chk.violation(f"C19 panic imports={len(imports)} ann={ann}", f"backend panics under a configuration: {r.value[0]}", {'kind': 'text', 'text': TEXT})
                continue
            if r.kind != 'ok':
                continue
            got = mods_of(r)
            # which flag values does this path stand for?  flags the code never read are checked for both values
            fixed = {}
            for n, s in flagsyms.items():
                t, f = chk.reachable(r.pc, s), chk.reachable(r.pc, z3.Not(s))
                fixed[n] = [v for v, ok in ((True, t), (False, f)) if ok]
            for combo in itertools.product(*[fixed[n] for n in FLAGS]):
                flags = dict(zip(FLAGS, combo))
                chk.res.obligations += 1
                fails = compare(base, got, flags, imports, ann)
                if not fails:
                    chk.res.discharged += 1
                    continue
                cfg = dict(flags)
                cfg['custom_imports'] = imports
                cfg['type_annotations'] = ANN_SETS[ann]
                out = runner.compile(TEXT, config=cfg)
                nfails = [('native', str(out)[:200])] if not out.get('ok') else compare(item_strings(tokproj.project_text(base_out['generated'])), item_strings(tokproj.project_text(out['generated'])), flags, imports, ann)
                for oracle, msg in fails[:2]:
                    if any(o == oracle for o, _ in nfails):
                        chk.violation(f"C19 {oracle} flags={''.join('1' if flags[n] else '0' for n in FLAGS)} imports={len(imports)} ann={ann}", f"option effect outside its documented aspect: {msg}", {'kind': 'text', 'text': TEXT, 'config': cfg})
                    else:
                        chk.res.inconclusive.append(f"not reproduced natively: C19 {oracle} {flags} {msg[:150]}")
            chk.witness('from impls generated', any('impl From <' in x for x in got.get('m', [])))
            chk.witness('lazy_static used', any('lazy_static !' in x for x in got.get('m', [])))
        chk.sample({'imports': imports, 'annotations': ANN_SETS[ann], 'flags': 'symbolic'})
    finally:
        runner.close()
    chk.res.bounds = {'flags': '4 symbolic booleans', 'imports': imports, 'annotations': ann}
    return chk.res
