"""C12  Modules compile independently of their neighbours; IMPORTS become use lines."""
import itertools, re, z3
from mirsym.core import *
from mirsym import bridge, native, tokproj
from mirsym.harness import Checker, model_int
from mirsym.tokproj import TS, safe_str

ROOTS = list(bridge.GEN_ROOTS)
ASSUMPTIONS = [
    "one inductive step of the backend: Rasn::generate_module is executed from real MIR with the backend's tagging_environment / extensibility_environment left behind by 'earlier modules' as lazy symbolic inputs (every variant); the generated text must be the one the natively compiled pipeline produces for that module on its own - so no default leaks, for any number of preceding modules",
    "IMPORTS: text shapes (<= 3 imports x <= 3 symbols of type/value/class/parameterized kind, default_wildcard_imports on/off) through the native front end and the real generator MIR; the use line must name exactly the imported symbols, case-converted per kind, from super::<snake(module)>",
    "whole multi-module runs (linker name resolution across modules) are compared natively on concrete module sets (complement): a module compiled within a set equals the module compiled with only the modules it imports from",
]
HEADERS = ['EXPLICIT TAGS', 'IMPLICIT TAGS', 'AUTOMATIC TAGS', '', 'EXPLICIT TAGS EXTENSIBILITY IMPLIED', 'AUTOMATIC TAGS EXTENSIBILITY IMPLIED', 'EXTENSIBILITY IMPLIED']
BODY = "S ::= SEQUENCE { a [1] INTEGER, b BOOLEAN } C ::= CHOICE { x NULL, y [2] BOOLEAN } E ::= ENUMERATED { p, q } U ::= SET { m BOOLEAN }"


def jobs(tier, seed):
    return ['prestate', 'imports', 'native-sets'] + [f"neighbour{i}" for i in range(len(NEIGHBOURS))]


def prepare():
    from mirsym import pipe
    pipe.dump()


P1 = 1000003
# (label, the modules under test, an UNRELATED neighbour): all top-level names are distinct, nothing imports from the neighbour; the
# neighbour only re-uses spellings that are LOCAL to the modules under test (named numbers, enumerals, dummy references, identifiers)
NEIGHBOURS = [
    ("named number / enumeral spelled like an imported value",
     [f"Alpha DEFINITIONS AUTOMATIC TAGS ::= BEGIN maxLen INTEGER ::= {P1} END",
      "Beta DEFINITIONS AUTOMATIC TAGS ::= BEGIN IMPORTS maxLen FROM Alpha; Name ::= IA5String (SIZE (1..maxLen)) Cnt ::= INTEGER (0..maxLen) Rec ::= SEQUENCE { n INTEGER (1..maxLen) OPTIONAL } END"],
     "Gamma DEFINITIONS EXPLICIT TAGS ::= BEGIN Limits ::= INTEGER { minLen(1), maxLen(99) } Kind ::= ENUMERATED { maxLen, other } END", lambda v: [v >= 1]),
    ("named number / enumeral spelled like a local value",
     [f"Beta DEFINITIONS AUTOMATIC TAGS ::= BEGIN top INTEGER ::= {P1} Rr ::= INTEGER (0..top) Ss ::= SEQUENCE (SIZE (0..top)) OF BOOLEAN Dd ::= SEQUENCE {{ d INTEGER DEFAULT top }} END"],
     "Aaa DEFINITIONS IMPLICIT TAGS ::= BEGIN Gg ::= ENUMERATED { top, bottom } Hh ::= INTEGER { top(7) } (0..top) END", lambda v: [v >= 0]),
    ("enumeral of the neighbour spelled like an enumeral used as DEFAULT / value",
     [f"Beta DEFINITIONS AUTOMATIC TAGS ::= BEGIN Colour ::= ENUMERATED {{ red, green, blue }} Pix ::= SEQUENCE {{ c Colour DEFAULT green, n INTEGER (0..{P1}) }} fav Colour ::= blue END"],
     "Aaa DEFINITIONS AUTOMATIC TAGS EXTENSIBILITY IMPLIED ::= BEGIN Apple ::= ENUMERATED { green, red } Berry ::= INTEGER { blue(3) } END", lambda v: [v >= 0]),
    ("dummy reference / component identifier of the neighbour spelled like a definition",
     [f"Beta DEFINITIONS AUTOMATIC TAGS ::= BEGIN Item ::= OCTET STRING (SIZE (0..{P1})) limit INTEGER ::= {P1} Box ::= SEQUENCE {{ i Item, l INTEGER (0..limit) }} END"],
     "Aaa DEFINITIONS AUTOMATIC TAGS ::= BEGIN Wrap {Item, INTEGER: limit} ::= SEQUENCE (SIZE (0..limit)) OF Item Ww ::= Wrap {BOOLEAN, 4} Other ::= SEQUENCE { item NULL, limit BOOLEAN } END", lambda v: [v >= 0]),
]


def mod_block(chars, name):
    """the characters of `pub mod <name> { ... }` in a generated text (symbolic fragments are opaque), or None"""
    pat = [ord(c) for c in f"pub mod {name} "]
    for i in range(len(chars) - len(pat)):
        if chars[i:i + len(pat)] == pat:
            depth, j = 0, i
            while j < len(chars):
                c = chars[j]
                if c == 123:
                    depth += 1
                elif c == 125:
                    depth -= 1
                    if depth == 0:
                        return chars[i:j + 1]
                j += 1
    return None


def job_neighbour(chk, prog, k, tier):
    from mirsym import pipe
    label, mods, neighbour, assume = NEIGHBOURS[k]
    pp = pipe.Pipe(prog)
    chk.ex.max_path_steps = 60000000
    v = z3.BitVec('p1', 128)
    sub = {P1: v}
    names = [m.split()[0].lower() for m in mods]
    variants = [list(mods), list(mods) + [neighbour], [neighbour] + list(mods)]
    sig = f"C12 neighbour [{label}]"

    def run(ex):
        for c in assume(v):
            ex.assume(c)
        return [pp.compile(ex, srcs, sub) for srcs in variants]
    for r in chk.explore(run):
        if r.kind == 'panic':
            chk.violation(sig + ' panic', f"compilation panics: {r.value[0]}", {'kind': 'text', 'text': '\n'.join(variants[1])})
            continue
        if r.kind != 'ok':
            continue
        outs = r.value
        for j in (1, 2):
            for nm in names:
                chk.res.obligations += 1
                diff = None
                if outs[0][0] != 'ok' or outs[j][0] != 'ok':
                    diff = (f"alone: {outs[0][0]}, next to the neighbour: {outs[j][0]}", None) if outs[0][0] != outs[j][0] else None
                    if diff is None:
                        chk.res.discharged += 1
                        continue
                else:
                    a, b = mod_block(outs[0][1], nm), mod_block(outs[j][1], nm)
                    if a is None or b is None:
                        diff = (f"module {nm} missing ({'alone' if a is None else 'next to the neighbour'})", None)
                    else:
                        d = pipe.texts_equal(chk, r.pc, a, b)
                        if d is not None:
                            pos, m = d
                            diff = (f"module {nm} differs at offset {pos}: alone `..{pipe.text_repr(a[max(0, pos - 70):pos + 50])}` next to the neighbour `..{pipe.text_repr(b[max(0, pos - 70):pos + 50])}`", m)
                if diff is None:
                    chk.res.discharged += 1
                    continue
                msg, m = diff
                if m is None:
                    m = chk.model_of(r.pc)
                val = model_int(m, v, True) if m is not None else 5
                conc = lambda ss: [x.replace(str(P1), str(val)) for x in ss]
                runner = native.Runner()
                try:
                    o0, o1 = runner.compile(conc(variants[0])), runner.compile(conc(variants[j]))
                finally:
                    runner.close()
                same = o0.get('ok') == o1.get('ok') and (not o0.get('ok') or split_mods(o0['generated']).get(nm) == split_mods(o1['generated']).get(nm))
                if not same:
                    chk.violation(f"{sig} {nm}", f"{msg} [value {val}]: {' / '.join(conc(variants[j]))}", {'kind': 'text', 'text': '\n'.join(conc(variants[j]))})
                else:
                    chk.res.inconclusive.append(f"not reproduced natively: {sig}: {msg[:300]}")
        chk.witness('module compiled alone and next to an unrelated neighbour', True)
    chk.sample({'neighbour case': label})
    chk.res.bounds = {'neighbour cases': len(NEIGHBOURS), 'integers': '1 x i128 symbolic', 'orders': 'neighbour last / first'}


def job_prestate(prog, chk, tier):
    gen = bridge.Gen(prog)
    runner = native.Runner()
    p = prog
    flds = {f['name']: f['ty'] for f in p.ty(gen.rasn_ty)['adt']['variants'][0]['fields']}
    try:
        for hdr in HEADERS:
            text = f"Mm DEFINITIONS {hdr} ::= BEGIN {BODY} END"
            nat = runner.compile(text, backend='ir')
            out = runner.compile(text)
            if not nat.get('ok') or not out.get('ok'):
                chk.res.inconclusive.append(f"base module rejected: {text}")
                continue

            def run(ex):
                te = ex.sym_value(flds['tagging_environment'], 'pre_tagging')
                ee = ex.sym_value(flds['extensibility_environment'], 'pre_ext')
                rasn = gen.mkrasn(ex, {'tagging_environment': te, 'extensibility_environment': ee})
                v = gen.load_module(ex, nat['ir'][0]['tlds'])
                r = gen.generate_module(ex, v, rasn)
                k, t, w = gen.result_text(ex, r)
                # which pre-state this path stands for
                return {'text': pystr(t) if t is not None else None, 'warnings': len(w)}
            rs = chk.explore(run)
            oks = [r for r in rs if r.kind == 'ok']
            chk.witness('module generated under a symbolic pre-state', len(oks) >= 1)
            chk.res.notes.append(f"header '{hdr}': {len(oks)} path(s) - the symbolic pre-state is {'never read (holds for every pre-state)' if len(oks) == 1 else 'read: every value explored'}")
            for r in rs:
                if r.kind == 'panic':
                    chk.violation(f"C12 prestate panic hdr[{hdr or 'none'}]", f"generate_module panics: {r.value[0]}", {'kind': 'text', 'text': text})
                    continue
                if r.kind != 'ok':
                    continue
                chk.res.obligations += 1
                pre = [f"{l[0]}={l[1]}" for l in r.log if l[0].startswith('variant:pre_')]
                if r.value['text'] == out['generated'] and r.value['warnings'] == len(out['warnings']):
                    chk.res.discharged += 1
                else:
                    # confirm natively: compile another module with the leaking defaults in front
                    chk.violation(f"C12 prestate leak hdr[{hdr or 'none'}]", f"the bindings of a module with header '{hdr}' depend on the backend state left by an earlier module ({pre})",
                                  confirm_leak(runner, text, out))
            chk.sample({'header': hdr, 'prestates': len(oks)})
    finally:
        runner.close()
    chk.res.bounds = {'pre_state': 'every (TaggingEnvironment, ExtensibilityEnvironment) value', 'headers': len(HEADERS)}


def confirm_leak(runner, text, alone):
    rep = {'kind': 'text', 'text': text}
    for other in ('EXPLICIT TAGS EXTENSIBILITY IMPLIED', 'AUTOMATIC TAGS', 'IMPLICIT TAGS'):
        for nm in ('Aa', 'Zz'):
            both = f"{nm} DEFINITIONS {other} ::= BEGIN W ::= SEQUENCE {{ k [5] INTEGER }} END\n{text}"
            out = runner.compile(both)
            if out.get('ok'):
                m = re.search(r'pub mod mm \{.*?\n?\}\s*(?=# \[allow|$)', out['generated'], re.S)
                if m and m.group(0).strip() not in alone['generated']:
                    rep['text'] = both
                    rep['native'] = 'module mm differs when compiled after ' + nm
                    return rep
    rep['native'] = 'not reproduced with the sampled neighbour modules'
    return rep


def mod_of(items, name):
    for it in items:
        if it.kind == 'mod' and it.name == name:
            return it
    return None


def judge_imports(items, info, chk, pc, nwarn):
    fails = []
    m = mod_of(items, 'ma')
    if m is None:
        return [('missing', 'module ma not generated')]
    uses = [safe_str(TS(u.tree)).replace(' ', '') for u in m.items if u.kind == 'use']
    for modname, syms in info['imports']:
        snake = modname.lower().replace('-', '_')
        line = [u for u in uses if u.startswith(f"super::{snake}::")]
        if len(line) != 1:
            fails.append(('use-line', f"{len(line)} use lines for import from {modname}: {uses}"))
            continue
        body = line[0][len(f"super::{snake}::"):]
        got = set(body.strip('{}').split(',')) - {''}
        want = set()
        wildcard = info['wildcard']
        for s, kind in syms:
            if kind in ('class', 'param'):
                wildcard = True
            elif kind == 'value':
                want.add(s.upper().replace('-', '_'))
            else:
                parts = s.split('-')
                want.add(''.join(([parts[0][0].upper() + parts[0][1:]] + [p[0].upper() + p[1:] for p in parts[1:]])))
        # the linker adds the governing type of an imported value to the clause of the module that defines the type
        want |= set(info.get('assoc', {}).get(modname, ()))
        if wildcard:
            if got != {'*'}:
                fails.append(('use-line', f"expected wildcard import from {modname}, got {sorted(got)}"))
        elif got != want:
            fails.append(('use-line', f"use line for {modname} names {sorted(got)}, IMPORTS names {sorted(want)}"))
    extra = [u for u in uses if u.startswith('super::') and not any(u.startswith(f"super::{mn.lower().replace('-', '_')}::") for mn, _ in info['imports'])]
    for modname, tys in info.get('extra_uses', {}).items():
        pre = f"super::{modname.lower().replace('-', '_')}::"
        line = [u for u in extra if u.startswith(pre)]
        if len(line) != 1 or set(line[0][len(pre):].strip('{}').split(',')) != set(tys):
            fails.append(('use-line', f"the governing type(s) {sorted(tys)} of an imported value must be used from {modname}, which defines them: {uses}"))
        extra = [u for u in extra if not u.startswith(pre)]
    if extra:
        fails.append(('use-line', f"use lines without IMPORTS: {extra}"))
    # qualified reference resolves to the module
    if info.get('qualified'):
        st = [i for i in m.items if i.kind == 'struct' and i.name == 'Ta']
        if st:
            tys = [safe_str(TS(f.ty)).replace(' ', '') for f in st[0].fields if f.name == 'z']
            if tys and tys[0] != f"super::{info['qualified'][0].lower().replace('-', '_')}::{info['qualified'][1]}":
                fails.append(('qualified', f"module-qualified reference rendered as {tys[0]}"))
        qpath = f"super::{info['qualified'][0].lower().replace('-', '_')}::{info['qualified'][1]}"
        for nm, wrap in (('La', 'SequenceOf'), ('Sa', 'SetOf'), ('CaL', 'SequenceOf')):
            it = [i for i in m.items if i.kind == 'struct' and i.name == nm]
            if not it:
                if nm != 'CaL':
                    fails.append(('qualified', f"{nm} not generated"))
                continue
            got = safe_str(TS(it[0].fields[0].ty)).replace(' ', '') if it[0].fields else ''
            if got != f"{wrap}<{qpath}>":
                fails.append(('qualified', f"module-qualified element type of {nm} rendered as {got}, expected {wrap}<{qpath}>"))
    if chk is not None:
        chk.res.obligations += 1
        if not fails:
            chk.res.discharged += 1
    return fails


def import_shapes(tier):
    out = []
    # T1 / X509-ID: type references made of capitals, digits and hyphens only are types, not information object classes
    kinds = [('Tb', 'type'), ('vb', 'value'), ('CLS', 'class'), ('My-Type', 'type'), ('my-val', 'value'), ('T1', 'type'), ('X509-ID', 'type')]
    defs = {'Tb': 'Tb ::= SEQUENCE { p BOOLEAN }', 'vb': 'vb INTEGER ::= 3', 'CLS': 'CLS ::= CLASS { &id INTEGER }', 'My-Type': 'My-Type ::= BOOLEAN', 'my-val': 'my-val BOOLEAN ::= TRUE',
            'T1': 'T1 ::= INTEGER (0..7)', 'X509-ID': 'X509-ID ::= OCTET STRING'}
    combos = []
    for r in (1, 2, 3):
        combos += list(itertools.combinations(kinds, r))
    if tier == 'quick':
        combos = combos[::2]
    for combo in combos:
        for second in (False, True):
            for wildcard in (False, True):
                syms = list(combo)
                imports = [('Mod-B', syms)]
                imp = ', '.join(s for s, _ in syms) + ' FROM Mod-B'
                mods = [f"Mod-B DEFINITIONS AUTOMATIC TAGS ::= BEGIN {' '.join(defs[s] for s, _ in syms)} END"]
                if second:
                    imp += ' Tc FROM Mc'
                    imports.append(('Mc', [('Tc', 'type')]))
                    mods.append("Mc DEFINITIONS IMPLICIT TAGS ::= BEGIN Tc ::= NULL END")
                uses_type = next((s for s, k in syms if k == 'type'), None)
                comp = f"x {uses_type}" if uses_type else "x BOOLEAN"
                qual = None
                if uses_type == 'Tb':
                    comp += ", z Mod-B.Tb"
                    qual = ('Mod-B', 'Tb')
                extra = ''
                if qual:
                    # module-qualified references as element types of top-level and tagged-element collections
                    extra = " La ::= SEQUENCE OF Mod-B.Tb Sa ::= SET (SIZE (1..4)) OF Mod-B.Tb Ca ::= SEQUENCE { l SEQUENCE OF [0] Mod-B.Tb }"
                a = f"Ma DEFINITIONS AUTOMATIC TAGS ::= BEGIN IMPORTS {imp}; Ta ::= SEQUENCE {{ {comp} }}{extra} END"
                text = '\n'.join([a] + mods)
                sig = f"C12 imports [{','.join(k for _, k in syms)}]{' +2nd' if second else ''}{' wildcard' if wildcard else ''}"
                out.append((sig, text, {'imports': imports, 'wildcard': wildcard, 'qualified': qual}))
    # imported values whose governing type is defined in the exporting module (or in a module that one imports it from)
    # and is not imported itself: the type is used from the module that defines it, whatever the order of the clauses
    alpha = "Alpha DEFINITIONS AUTOMATIC TAGS ::= BEGIN Kind ::= INTEGER (0..7) Colour ::= ENUMERATED { red, green } default-kind Kind ::= 3 default-colour Colour ::= green END"
    alpha2 = "Alpha DEFINITIONS AUTOMATIC TAGS ::= BEGIN IMPORTS Kind FROM Gamma; default-kind Kind ::= 3 END"
    gamma = "Gamma DEFINITIONS AUTOMATIC TAGS ::= BEGIN Kind ::= INTEGER (0..7) END"
    other = "Other DEFINITIONS AUTOMATIC TAGS ::= BEGIN Misc ::= BOOLEAN END"
    third = "Third DEFINITIONS AUTOMATIC TAGS ::= BEGIN Aux ::= NULL END"
    CL = {'Alpha1': ('Alpha', [('default-kind', 'value')]), 'Alpha2': ('Alpha', [('default-kind', 'value'), ('default-colour', 'value')]), 'Other': ('Other', [('Misc', 'type')]), 'Third': ('Third', [('Aux', 'type')])}
    orders = [['Alpha1'], ['Alpha1', 'Other'], ['Other', 'Alpha1'], ['Other', 'Third', 'Alpha2'], ['Other', 'Alpha2', 'Third'], ['Alpha2', 'Other', 'Third']]
    # the name of an UNRELATED imported type may be a prefix / an extension / a substring of the governing type's name
    variants = [(o, 'Misc') for o in orders] + [(o, nm) for o in (['Alpha1', 'Other'], ['Other', 'Alpha1']) for nm in ('Kin', 'Kinds', 'Ind', 'Ki')]
    for order, misc in variants:
        other = f"Other DEFINITIONS AUTOMATIC TAGS ::= BEGIN {misc} ::= BOOLEAN END"
        CL['Other'] = ('Other', [(misc, 'type')])
        for via_third in (False, True):
            if via_third and 'Alpha2' in order:
                continue
            imports = [CL[c] for c in order]
            imp = ' '.join(', '.join(s for s, _ in syms) + ' FROM ' + mn for mn, syms in imports)
            # several definitions of every kind in the importing module (each carries its own pointer to the module header)
            body = "Aa ::= BOOLEAN Ta ::= SEQUENCE { k INTEGER DEFAULT 1" + (f", m {misc}" if 'Other' in order else '') + (", a Aux" if 'Third' in order else '') + " } Zz ::= NULL aval INTEGER ::= 1 zval BOOLEAN ::= TRUE"
            mods = [alpha2 if via_third else alpha] + ([gamma] if via_third else []) + ([other] if 'Other' in order else []) + ([third] if 'Third' in order else [])
            text = '\n'.join([f"Ma DEFINITIONS AUTOMATIC TAGS ::= BEGIN IMPORTS {imp}; {body} END"] + mods)
            tys = {'Kind', 'Colour'} if 'Alpha2' in order else {'Kind'}
            info = {'imports': imports, 'wildcard': False, 'qualified': None}
            if via_third:
                info['extra_uses'] = {'Gamma': tys}
            else:
                info['assoc'] = {'Alpha': tys}
            out.append((f"C12 imported value with governing type clauses[{','.join(order)}]{' type defined in a third module' if via_third else ''}{'' if misc == 'Misc' else ' next to an imported type ' + misc}", text, info))
    # CYCLIC import graphs: Ma imports a value from Mb whose governing type is defined in Ma itself (Mb imports it from Ma); the type
    # sorts first / in the middle / last among Ma's definitions.  Ma must not use anything from itself
    for defs in ("Kind ::= INTEGER (0..99) Window ::= SEQUENCE { w Kind }", "Aa ::= NULL Kind ::= INTEGER (0..99) Window ::= SEQUENCE { w Kind }", "Aa ::= NULL Box ::= SEQUENCE { w Kind } Kind ::= INTEGER (0..99)", "Kind ::= INTEGER (0..99)"):
        for first in ('Ma', 'Mb'):
            ma = f"Ma DEFINITIONS AUTOMATIC TAGS ::= BEGIN IMPORTS limit FROM Mb; {defs} Ta ::= SEQUENCE {{ k Kind DEFAULT limit }} END"
            mb = "Mb DEFINITIONS AUTOMATIC TAGS ::= BEGIN IMPORTS Kind FROM Ma; limit Kind ::= 10 END"
            text = '\n'.join([ma, mb] if first == 'Ma' else [mb, ma])
            out.append((f"C12 cyclic imports: imported value governed by a type of the importing module [{defs.split(' ::=')[0]} first, {len(defs.split('::=')) - 1} definitions, {first} first]", text,
                        {'imports': [('Mb', [('limit', 'value')])], 'wildcard': False, 'qualified': None}))
    return out


def job_imports(prog, chk, tier):
    gen = bridge.Gen(prog)
    runner = native.Runner()
    stats = {}
    try:
        shapes = import_shapes(tier)
        for wildcard in (False, True):
            sh = [s for s in shapes if s[2]['wildcard'] == wildcard]
            bridge.run_text_shapes(chk, gen, runner, sh, judge_imports, stats, config={'default_wildcard_imports': True} if wildcard else None)
    finally:
        runner.close()
    chk.res.notes.append(f"imports: {stats}")


def split_mods(g):
    parts = re.split(r'(?=# \[allow \(non_camel_case_types)', g)
    out = {}
    for p in parts:
        m = re.search(r'pub mod (\w+) \{', p)
        if m:
            out[m.group(1)] = p.strip()
    return out


def job_native_sets(prog, chk, tier, seed):
    import random
    rnd = random.Random(seed)
    runner = native.Runner()
    M = {
        'ma': "Ma DEFINITIONS EXPLICIT TAGS ::= BEGIN IMPORTS Tb, vb FROM Mb Tc FROM Mc; Ta ::= SEQUENCE { x [1] Tb, y Tc OPTIONAL, w INTEGER (0..vb) } END",
        'mb': "Mb DEFINITIONS AUTOMATIC TAGS EXTENSIBILITY IMPLIED ::= BEGIN IMPORTS Tc FROM Mc; Tb ::= SEQUENCE { p BOOLEAN, q Tc } vb INTEGER ::= 3 END",
        'mc': "Mc DEFINITIONS IMPLICIT TAGS ::= BEGIN Tc ::= CHOICE { q [0] NULL, r [1] INTEGER } END",
        'md': "Md DEFINITIONS ::= BEGIN Td ::= SET { s [3] BOOLEAN } Te ::= ENUMERATED { one, two } END",
        'me': "Me DEFINITIONS AUTOMATIC TAGS ::= BEGIN IMPORTS Ta FROM Ma; Tf ::= SEQUENCE OF Ta END",
    }
    deps = {'ma': ['mb', 'mc'], 'mb': ['mc'], 'mc': [], 'md': [], 'me': ['ma', 'mb', 'mc']}
    try:
        alone = {}
        for k in M:
            need = [k] + deps[k]
            out = runner.compile('\n'.join(M[x] for x in need))
            if not out.get('ok'):
                chk.res.inconclusive.append(f"reference compilation of {k} failed")
                continue
            alone[k] = split_mods(out['generated']).get(k)
        names = list(M)
        sets = []
        for r in range(2, 6):
            for c in itertools.combinations(names, r):
                sets.append(c)
        if tier == 'quick':
            sets = rnd.sample(sets, 12)
        for c in sets:
            orders = [c, tuple(reversed(c))] if tier == 'quick' else list(itertools.permutations(c))[:12]
            for order in orders:
                closed = set(order)
                if any(d not in closed for k in order for d in deps[k]):
                    continue
                out = runner.compile('\n'.join(M[x] for x in order))
                chk.res.obligations += 1
                if not out.get('ok'):
                    chk.violation(f"C12 native set error", f"module set {order} fails although each module compiles with its imports", {'kind': 'text', 'text': '\n'.join(M[x] for x in order)})
                    continue
                got = split_mods(out['generated'])
                bad = [k for k in order if got.get(k) != alone.get(k)]
                if bad:
                    chk.violation(f"C12 native set differs [{bad[0]}]", f"module {bad[0]} differs when compiled within {order}", {'kind': 'text', 'text': '\n'.join(M[x] for x in order)})
                else:
                    chk.res.discharged += 1
                    chk.res.diff_ok += 1
        chk.sample({'native_module_sets': len(sets)})
    finally:
        runner.close()


def run_job(prog, job, tier, seed):
    if job.startswith('neighbour'):
        from mirsym import pipe
        from mirsym.harness import program
        pprog = program(pipe.dump())
        chk = Checker(pprog, job)
        job_neighbour(chk, pprog, int(job[9:]), tier)
        return chk.res
    chk = Checker(prog, job)
    if job == 'prestate':
        job_prestate(prog, chk, tier)
    elif job == 'imports':
        job_imports(prog, chk, tier)
    else:
        job_native_sets(prog, chk, tier, seed)
    return chk.res
