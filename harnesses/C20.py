"""C20  compile() delivers exactly the compiled text, and nothing on failure (library compile() only)."""
import itertools, z3, os, tempfile, shutil, subprocess
from mirsym.core import *
from mirsym import frontend, native, models
from mirsym.models import model, REGISTRY, ret_ty, some, none, UNIT, as_str, render, FmtArgs
from mirsym.harness import Checker, program
from mirsym.refsem import IR

ROOTS = []        # this check uses its own dump (generic entry points instantiated by /verif/c20-harness)
BUILDER_FNS = ['b_new', 'b_new_cfg', 'm_literal', 'm_path', 'm_paths', 'm_mode', 'o_literal', 'o_path', 'o_paths', 's_literal', 's_path', 's_paths', 's_mode', 'r_literal', 'r_path', 'r_paths']
SWAP_FNS = ['tb_new', 'tm_literal', 'tm_mode', 'to_literal', 'ts_mode', 'x_to_ts', 'x_to_rasn']
C20_ROOTS = ['c20_harness::compile_rasn', 'c20_harness::compile_ts'] + ['c20_harness::' + f for f in BUILDER_FNS + SWAP_FNS]
ASSUMPTIONS = [
    "kernel: Compiler::<B, CompilerReady>::compile, output_generated and CompileResult::fmt for B = RasnBackend and TypescriptBackend, instantiated through the 10-line crate /verif/c20-harness and executed from real MIR",
    "stubs (nondeterministic, traced): internal_compile -> arbitrary Ok(CompileResult{generated: opaque text G}) or Err; B::format_bindings -> arbitrary Ok(F) / Err; Path::is_dir -> arbitrary bool; fs::write and Stdout::write_all -> arbitrary Ok / Err(io::Error); oracle on the trace of I/O calls",
    "the CLI (clap, WalkDir, exit codes), the asn1! proc macro and real file-system states are outside the symbolic part; a native job runs compile() into a temporary directory for file / directory / missing-parent destinations (concrete complement)",
]


def prepare():
    frontend.dump(C20_ROOTS, tag='c20', harness='c20-harness')


def jobs(tier, seed):
    return ['kernel-rasn', 'kernel-ts', 'built', 'builder', 'native']


# ---- stubs -------------------------------------------------------------------------------------------------------
class PathV:
    def __init__(self, name):
        self.name = name

    def __repr__(self):
        return f"Path({self.name})"


class FileV:
    """an open file handle of the traced file-system model"""

    def __init__(self, path, flags):
        self.path, self.flags = path, flags

    def __repr__(self):
        return f"File({self.path}, {self.flags})"


STUBS_INSTALLED = [False]


def install_stubs():
    if STUBS_INSTALLED[0]:
        return
    STUBS_INSTALLED[0] = True

    @model(r'::internal_compile$')
    def s_internal_compile(ex, n, a, f):
        rt = ret_ty(f)
        ok_ty = ex.p.ty(rt)['adt']['variants'][ex.p.variant_index(rt, 'Ok')]['fields'][0]['ty']
        if ex.choose(2, 'internal_compile') == 0:
            ex.ghost['compile'] = 'ok'
            flds = ex.p.ty(ok_ty)['adt']['variants'][0]['fields']
            # the compiled text is opaque; it may also be the empty string (a specification without assignments)
            empty = ex.choose(2, 'generated-empty') == 1
            ex.ghost['empty'] = empty
            vals = [StringV([] if empty else [Frag('opaque', 'G')]) if fl['name'] == 'generated' else VecV([]) for fl in flds]
            return Adt(rt, ex.p.variant_index(rt, 'Ok'), [Adt(ok_ty, 0, vals)])
        ex.ghost['compile'] = 'err'
        return Adt(rt, ex.p.variant_index(rt, 'Err'), [Opaque('CompilerError')])

    @model(r' as rasn_compiler::(prelude|generator)::Backend>::format_bindings$')
    def s_format_bindings(ex, n, a, f):
        rt = ret_ty(f)
        ex.io_trace.append(('format_bindings', tuple(as_str(ex, a[0]))))
        if ex.choose(2, 'format_bindings') == 0:
            ex.ghost['formatted'] = True
            return Adt(rt, ex.p.variant_index(rt, 'Ok'), [StringV([Frag('opaque', 'F')])])
        ex.ghost['formatted'] = False
        return Adt(rt, ex.p.variant_index(rt, 'Err'), [Opaque('CompilerError')])

    @model(r'RasnBackend as rasn_compiler::(prelude|generator)::Backend>::from_config$')
    def s_from_config(ex, n, a, f):
        # no MIR for this non-generic function in the harness crate's session (C19 executes the real one): the backend keeps the
        # configuration it is given; everything else in it is opaque to the builder
        rt = ret_ty(f)
        vals = [a[0] if fl['name'] == 'config' else Opaque('backend.' + fl['name']) for fl in ex.p.ty(rt)['adt']['variants'][0]['fields']]
        return Adt(rt, 0, vals)

    @model(r'^std::path::Path::is_dir$')
    def s_is_dir(ex, n, a, f):
        # 'fs_dir' (set by the built-compiler job): the state of the destination at this moment; otherwise arbitrary per call
        r = ex.ghost['fs_dir'] if 'fs_dir' in ex.ghost else ex.choose(2, 'is_dir') == 1
        ex.io_trace.append(('is_dir', ex.deref(a[0]), r))
        return r

    @model(r'^std::path::Path::_?join(::<.*)?$', r'^std::path::PathBuf::_?join')
    def s_path_join(ex, n, a, f):
        base = ex.deref(a[0])
        comp = ex.deref(a[1])
        comp_s = chars_repr(comp.chars) if isinstance(comp, (StrRef, StringV)) else repr(comp)
        return PathV(f"{base.name if isinstance(base, PathV) else base}/{comp_s}")

    @model(r'^<std::path::PathBuf as std::ops::Deref>::deref$', r'^std::path::PathBuf::as_path$', r'^<std::path::PathBuf as std::convert::AsRef<std::path::Path>>::as_ref$',
           r'^<&std::path::PathBuf as std::convert::AsRef<std::path::Path>>::as_ref$', r'^<std::path::Path as std::convert::AsRef<std::path::Path>>::as_ref$',
           r'^<(&)?str as std::convert::AsRef<std::ffi::OsStr>>::as_ref$', r'^<std::string::String as std::convert::AsRef<std::ffi::OsStr>>::as_ref$',
           r'^<(&)?(str|std::string::String) as std::convert::AsRef<std::path::Path>>::as_ref$', r'^<std::ffi::OsStr as std::convert::AsRef<std::ffi::OsStr>>::as_ref$',
           r'^<(&)?(str|std::string::String) as std::convert::AsRef<\[u8\]>>::as_ref$', r'^<&std::path::Path as std::convert::AsRef<std::path::Path>>::as_ref$')
    def s_path_identity(ex, n, a, f):
        v = a[0]
        return v

    @model(r'^std::fs::write::(inner|<)', r'^std::fs::write$')
    def s_fs_write(ex, n, a, f):
        rt = ret_ty(f)
        path = ex.deref(a[0])
        data = ex.deref(a[1])
        content = tuple(data.chars) if isinstance(data, (StrRef, StringV)) else (tuple(c.v for c in data.cells) if hasattr(data, 'cells') else data)
        ok = ex.choose(2, 'fs::write') == 0
        ex.io_trace.append(('fs::write', path, content, ok))
        if ok:
            return Adt(rt, ex.p.variant_index(rt, 'Ok'), [UNIT])
        return Adt(rt, ex.p.variant_index(rt, 'Err'), [Opaque('io::Error')])

    @model(r'^std::fs::OpenOptions::_open$')
    def s_open(ex, n, a, f):
        rt = ret_ty(f)
        flags = {}

        def collect(v):
            v = ex.force(v)
            if isinstance(v, Adt):
                t = ex.p.ty(v.ty)
                names = [fl['name'] for fl in t['adt']['variants'][v.variant]['fields']] if t.get('adt') else []
                for nm, x in zip(names, v.fields):
                    if isinstance(x, bool):
                        flags[nm] = x
                    else:
                        collect(x)
        collect(ex.deref(a[0]))
        path = ex.deref(a[1])
        ok = ex.choose(2, 'open') == 0
        ex.io_trace.append(('open', path, dict(flags), ok))
        if ok:
            return Adt(rt, ex.p.variant_index(rt, 'Ok'), [FileV(path, dict(flags))])
        return Adt(rt, ex.p.variant_index(rt, 'Err'), [Opaque('io::Error')])

    @model(r'^<(&)?std::fs::File as std::io::Write>::write_all$')
    def s_file_write_all(ex, n, a, f):
        rt = ret_ty(f)
        fh = ex.deref(a[0])
        while isinstance(fh, Ref):
            fh = ex.deref(fh)
        data = ex.deref(a[1])
        content = tuple(data.chars) if isinstance(data, (StrRef, StringV)) else tuple(c.v for c in data.cells)
        ok = ex.choose(2, 'file.write_all') == 0
        ex.io_trace.append(('file-write', fh.path if isinstance(fh, FileV) else fh, content, ok, dict(fh.flags) if isinstance(fh, FileV) else {}))
        if ok:
            return Adt(rt, ex.p.variant_index(rt, 'Ok'), [UNIT])
        return Adt(rt, ex.p.variant_index(rt, 'Err'), [Opaque('io::Error')])

    @model(r'^<(&)?std::fs::File as std::io::Write>::flush$', r'^std::fs::File::sync_(all|data)$')
    def s_file_flush(ex, n, a, f):
        rt = ret_ty(f)
        return Adt(rt, ex.p.variant_index(rt, 'Ok'), [UNIT])

    @model(r'^<rasn_compiler::(prelude::)?\w+(::\w+)* as std::default::Default>::default$')
    def s_backend_default(ex, n, a, f):
        # a default backend is NOT a configured one: the options of a default rasn backend are unknown (fresh variables), so a
        # builder transition that rebuilds the compiler from Compiler::new() cannot be shown to keep the configuration
        rt = ret_ty(f)
        t = ex.p.ty(rt)
        flds = t['adt']['variants'][0]['fields'] if t.get('adt') and t['adt']['variants'] else []
        cfg = [fl for fl in flds if fl['name'] == 'config']
        if not cfg or not ex.p.ty(cfg[0]['ty']).get('adt') or not any(cf['name'] == 'generate_from_impls' for cf in ex.p.ty(cfg[0]['ty'])['adt']['variants'][0]['fields']):
            return Opaque('backend')
        cvals = [VecV([]) if cf['name'] in ('custom_imports', 'type_annotations') else z3.Bool('default_' + cf['name']) for cf in ex.p.ty(cfg[0]['ty'])['adt']['variants'][0]['fields']]
        return Adt(rt, 0, [Adt(cfg[0]['ty'], 0, cvals) if fl['name'] == 'config' else Opaque('backend.' + fl['name']) for fl in flds])

    @model(r'^std::io::stdout$')
    def s_stdout(ex, n, a, f):
        return Opaque('Stdout')

    @model(r'^<std::io::Stdout as std::io::Write>::write_all$')
    def s_stdout_write_all(ex, n, a, f):
        rt = ret_ty(f)
        data = ex.deref(a[1])
        content = tuple(data.chars) if isinstance(data, (StrRef, StringV)) else tuple(c.v for c in data.cells)
        ok = ex.choose(2, 'stdout.write_all') == 0
        ex.io_trace.append(('stdout', content, ok))
        if ok:
            return Adt(rt, ex.p.variant_index(rt, 'Ok'), [UNIT])
        return Adt(rt, ex.p.variant_index(rt, 'Err'), [Opaque('io::Error')])

    # a locked / buffered standard output: the lock is the same handle; a BufWriter either keeps the text in its buffer (short text:
    # NOTHING reaches the destination until flush() - what its Drop writes later is written with the error discarded, i.e. an
    # unwritable destination is not reported) or passes a long text straight through; both are explored
    @model(r'^std::io::Stdout::lock$')
    def s_stdout_lock(ex, n, a, f):
        return Opaque('Stdout')

    @model(r"^<std::io::StdoutLock<'_> as std::io::Write>::write_all$")
    def s_stdoutlock_write_all(ex, n, a, f):
        return s_stdout_write_all(ex, n, a, f)

    class BufW:
        def __init__(self, inner):
            self.inner, self.pending = inner, None

    @model(r'^std::io::BufWriter::<.*>::(new|with_capacity)$')
    def s_bufwriter_new(ex, n, a, f):
        return BufW(a[-1])

    @model(r'^<std::io::BufWriter<.*> as std::io::Write>::write_all$')
    def s_bufwriter_write_all(ex, n, a, f):
        rt = ret_ty(f)
        w = ex.deref(a[0])
        if not isinstance(w, BufW):
            raise Unsupported('BufWriter::write_all on ' + repr(w)[:60])
        if ex.choose(2, 'bufwriter.fits-in-buffer') == 0:
            data = ex.deref(a[1])
            w.pending = tuple(data.chars) if isinstance(data, (StrRef, StringV)) else tuple(c.v for c in data.cells)
            ex.io_trace.append(('buffered', w.pending, True))
            return Adt(rt, ex.p.variant_index(rt, 'Ok'), [UNIT])
        return s_stdout_write_all(ex, n, [w.inner, a[1]], f)

    @model(r'^<std::io::BufWriter<.*> as std::io::Write>::flush$')
    def s_bufwriter_flush(ex, n, a, f):
        rt = ret_ty(f)
        w = ex.deref(a[0])
        if isinstance(w, BufW) and w.pending is not None:
            ok = ex.choose(2, 'stdout.write_all') == 0
            ex.io_trace.append(('stdout', w.pending, ok))
            w.pending = None
            if not ok:
                return Adt(rt, ex.p.variant_index(rt, 'Err'), [Opaque('io::Error')])
        return Adt(rt, ex.p.variant_index(rt, 'Ok'), [UNIT])

    @model(r'^std::path::Path::display$')
    def s_path_display(ex, n, a, f):
        return ex.deref(a[0])

    @model(r'^<std::path::Display<\'_> as std::fmt::Display>::fmt$', r'^<std::io::Error as std::fmt::Display>::fmt$')
    def s_opaque_display(ex, n, a, f):
        fm = ex.deref(a[1])
        fm.out.append(Frag('opaque', repr(ex.deref(a[0]) if isinstance(a[0], Ref) else a[0])))
        return Adt(ret_ty(f), ex.p.variant_index(ret_ty(f), 'Ok'), [UNIT])

    @model(r'^rasn_compiler::(prelude|generator::error)::GeneratorError::new$')
    def s_generator_error_new(ex, n, a, f):
        rt = ret_ty(f)
        flds = ex.p.ty(rt)['adt']['variants'][0]['fields']
        vals = []
        for fl in flds:
            if fl['name'] == 'kind':
                vals.append(a[2])
            elif fl['name'] == 'details':
                vals.append(StringV(as_str(ex, a[1])))
            else:
                vals.append(a[0])
        return Adt(rt, 0, vals)

    @model(r'^<rasn_compiler::(prelude|error)::CompilerError as std::convert::From<rasn_compiler::(prelude|generator::error)::GeneratorError>>::from$')
    def s_compiler_error_from(ex, n, a, f):
        rt = ret_ty(f)
        return Adt(rt, ex.p.variant_index(rt, 'Generator'), [a[0]])

    @model(r'^<str as std::convert::AsRef<\[u8\]>>::as_ref$', r'^<std::string::String as std::convert::AsRef<\[u8\]>>::as_ref$')
    def s_str_as_bytes_ref(ex, n, a, f):
        return a[0]
    # these stubs must take precedence over generic models
    for _ in range(19):
        REGISTRY.insert(0, REGISTRY.pop())


def mk_compiler(ex, prog, fn, mode, backend_val):
    f = prog.inst[fn]
    comp_ty = f['locals'][1]
    flds = prog.ty(comp_ty)['adt']['variants'][0]['fields']
    vals = []
    for fl in flds:
        if fl['name'] == 'state':
            st_ty = fl['ty']
            sf = prog.ty(st_ty)['adt']['variants'][0]['fields']
            sv = []
            for x in sf:
                if x['name'] == 'output_mode':
                    om = x['ty']
                    if mode == 'file':
                        sv.append(Adt(om, prog.variant_index(om, 'SingleFile'), [PathV('OUT')]))
                    elif mode == 'stdout':
                        sv.append(Adt(om, prog.variant_index(om, 'Stdout'), []))
                    else:
                        sv.append(Adt(om, prog.variant_index(om, 'NoOutput'), []))
                else:
                    sv.append(VecV([]))
            vals.append(Adt(st_ty, 0, sv))
        else:
            vals.append(Opaque('backend'))
    return Adt(comp_ty, 0, vals)


BUILDS = {   # name -> (calls before compile, backend that compiles)
    'rasn: mode, literal': (['b_new', 'm_mode', 'o_literal'], 'rasn'),
    'rasn: literal, mode': (['b_new', 'm_literal', 's_mode'], 'rasn'),
    'ts: mode, literal': (['tb_new', 'tm_mode', 'to_literal'], 'ts'),
    'ts: literal, mode': (['tb_new', 'tm_literal', 'ts_mode'], 'ts'),
    'rasn: mode, literal, with_backend(ts)': (['b_new', 'm_mode', 'o_literal', 'x_to_ts'], 'ts'),
    'rasn: literal, mode, with_backend(ts)': (['b_new', 'm_literal', 's_mode', 'x_to_ts'], 'ts'),
    'ts: mode, literal, with_backend(rasn)': (['tb_new', 'tm_mode', 'to_literal', 'x_to_rasn'], 'rasn'),
    'ts: literal, mode, with_backend(rasn)': (['tb_new', 'tm_literal', 'ts_mode', 'x_to_rasn'], 'rasn'),
}


def job_built(prog, chk, tier):
    """the compiler is BUILT by the real builder calls (from MIR) while the destination may be or become a directory:
    the state of the destination is a ghost variable chosen before the builder calls and chosen again before compile();
    the text must go to generated.<ext of the backend that generates> inside the directory that exists at compile()"""
    for name, (calls, which) in BUILDS.items():
        job_kernel(prog, chk, which, tier, build=(name, calls))


def job_kernel(prog, chk, which, tier, build=None):
    install_stubs()
    fn = prog.find('c20_harness::compile_' + which)
    ext = '.rs' if which == 'rasn' else '.ts'
    for mode in ('file', 'stdout', 'none') if build is None else ('file',):
        def run(ex):
            if build is None:
                c = mk_compiler(ex, prog, fn, mode, None)
            else:
                ex.ghost['fs_dir'] = ex.choose(2, 'destination is a directory while the compiler is built') == 1
                c = None
                for call in build[1]:
                    g = prog.find('c20_harness::' + call)
                    if call.endswith('_new'):
                        c = ex.call(g, [])
                    elif call.endswith('_mode'):
                        om = prog.inst[g]['locals'][2]
                        c = ex.call(g, [c, Adt(om, prog.variant_index(om, 'SingleFile'), [PathV('OUT')])])
                    elif call.endswith('_literal'):
                        c = ex.call(g, [c, StringV([ord(x) for x in 'L0'])])
                    else:
                        c = ex.call(g, [c, Opaque('backend')])
                ex.ghost['fs_dir'] = ex.choose(2, 'destination is a directory when compile() runs') == 1
                ex.ghost['fs_dir_compile'] = ex.ghost['fs_dir']
            r = ex.call(fn, [c])
            return r
        rs = chk.explore(run)
        for r in rs:
            sig = f"C20 {which} mode={mode}" if build is None else f"C20 built[{build[0]}]"
            if r.kind == 'panic':
                chk.violation(sig + ' panic', f"compile() panics: {r.value[0]} after I/O {[t[0] for t in r.io]}", {'kind': 'kernel', 'io': [str(t)[:80] for t in r.io]})
                continue
            if r.kind != 'ok':
                continue
            ir = IR(chk.ex)
            res = ir.f(r.value)
            is_ok = ir.vn(res) == 'Ok'
            # a write through an explicitly opened handle is normalised to the fs::write shape; it only replaces the
            # destination's content if the file was opened truncating (or freshly created) and not appending
            io = []
            inexact = []
            for t in r.io:
                if t[0] == 'file-write':
                    fl = t[4]
                    if not ((fl.get('truncate') or fl.get('create_new')) and not fl.get('append')):
                        inexact.append(t)
                    io.append(('fs::write', t[1], t[2], t[3]))
                elif t[0] == 'open' and not t[3]:
                    io.append(('fs::write', t[1], (Frag('opaque', 'F' if r.ghost.get('formatted') else 'G'),), False))
                elif t[0] != 'open':
                    io.append(t)
            writes = [t for t in io if t[0] in ('fs::write', 'stdout')]
            compiled = r.ghost.get('compile') == 'ok'
            chk.res.obligations += 1
            problems = []
            expected_text = (Frag if False else None)
            if not compiled:
                if writes:
                    problems.append(f"compilation failed but {len(writes)} write(s) happened")
                if is_ok:
                    problems.append('compilation failed but compile() returned Ok')
            else:
                want_writes = 0 if mode == 'none' else 1
                if len(writes) != want_writes:
                    problems.append(f"{len(writes)} write(s) in mode {mode}, expected {want_writes}")
                for w in writes:
                    content = w[2] if w[0] == 'fs::write' else w[1]
                    tags = [c.payload for c in content if isinstance(c, Frag)]
                    want_tag = 'F' if r.ghost.get('formatted') else 'G'
                    want_len = 0 if (want_tag == 'G' and r.ghost.get('empty')) else 1
                    if tags != [want_tag][:want_len] or len(content) != want_len:
                        problems.append(f"written text is {chars_repr(content)!r} / {tags}, expected exactly the {'formatted' if want_tag == 'F' else 'compiled'} text")
                    if w[0] == 'fs::write':
                        isdir = [t for t in r.io if t[0] == 'is_dir']
                        if 'fs_dir_compile' in r.ghost:
                            want_path = 'OUT/generated' + ext if r.ghost['fs_dir_compile'] else 'OUT'
                        else:
                            want_path = 'OUT/generated' + ext if (isdir and isdir[-1][2]) else 'OUT'
                        got_path = w[1].name if isinstance(w[1], PathV) else repr(w[1])
                        if got_path != want_path:
                            problems.append(f"written to {got_path}, expected {want_path}")
                    ok_write = w[3] if w[0] == 'fs::write' else w[2]
                    if ok_write != is_ok:
                        problems.append(f"write {'succeeded' if ok_write else 'failed'} but compile() returned {'Ok' if is_ok else 'Err'}")
                if not writes and not is_ok:
                    problems.append('nothing to write but compile() returned Err')
            if compiled and inexact:
                problems.append(f"the destination is opened without truncation (flags {inexact[0][4]}): an existing longer file keeps its tail, the destination does not hold exactly the text")
            if problems:
                chk.violation(sig + ' ' + problems[0].split(' ')[0], '; '.join(problems) + f" (I/O trace {[t[0] for t in r.io]})", {'kind': 'kernel', 'mode': mode, 'io': [str(t)[:100] for t in r.io]})
            else:
                chk.res.discharged += 1
            chk.witness('failing write reported as Err', compiled and any((w[3] if w[0] == 'fs::write' else w[2]) is False for w in writes))
            chk.witness('directory destination', any(t[0] == 'is_dir' and t[2] for t in r.io))
        chk.sample({'backend': which, 'mode': mode, 'paths': len(rs), 'example_trace': [t[0] for t in rs[0].io] if rs else []})
    chk.res.bounds = {'call': 'one compile() call', 'stubs': 'internal_compile, format_bindings, is_dir, fs::write, stdout.write_all'}


GOOD = "M DEFINITIONS AUTOMATIC TAGS ::= BEGIN A ::= SEQUENCE { a INTEGER (0..5), b BOOLEAN OPTIONAL } v INTEGER ::= 5 END"
BAD = "M DEFINITIONS AUTOMATIC TAGS ::= BEGIN A ::= SEQUENCE { a INTEGER (0..5), b BOOLEAN OPTIONAL v INTEGER ::= 5 END"
EMPTY = "Empty-Module DEFINITIONS AUTOMATIC TAGS ::= BEGIN END"


def native_case(runner, backend, state, existing, source, mode_first=False, swap=False):
    return runner.call({'cmd': 'compile_file', 'sources': [source], 'backend': backend, 'state': state, 'existing': existing, 'mode_first': mode_first, 'swap': swap})


def judge_native(o, state, existing, good):
    """problems of one real compile() run against a real destination"""
    probs = []
    if o.get('result') == 'panic' or 'panic' in o:
        return ['compile() panicked']
    if 'result' not in o:
        return [f"runner: {str(o)[:120]}"]
    if not good:
        if o['result'] != 'err':
            probs.append('malformed input but compile() returned Ok')
        want = existing if state in ('existing', 'dir-existing') else None
        if o.get('content') != want:
            probs.append(f"compilation failed but the destination changed: {str(o.get('content'))[:60]!r}")
        if state in ('absent', 'dir', 'late-dir', 'missing-parent') and o.get('entries'):
            probs.append(f"compilation failed but files were created: {o.get('entries')}")
        return probs
    if state == 'missing-parent':
        if o['result'] != 'err':
            probs.append('unwritable destination but compile() returned Ok')
        return probs
    if o['result'] != 'ok':
        probs.append(f"compile() returned Err for a writable destination: {str(o.get('error'))[:100]}")
    elif o.get('content') != o.get('expected'):
        c, e = o.get('content') or '', o.get('expected') or ''
        probs.append(f"destination holds {len(c)} characters, compile_to_string() returns {len(e)}" + (f"; the destination ends with {c[-40:]!r}" if c.startswith(e) else ''))
    return probs


def job_native(prog, chk, tier):
    """the real compile() of both backends against real destinations (temporary directory created and removed by the runner):
    destination states absent / existing file shorter and longer than the output / directory / directory holding a longer
    generated.<ext> / missing parent, for a good and a malformed module"""
    runner = native.Runner()
    try:
        for backend in ('rasn', 'ts'):
            for state, existing in (('absent', ''), ('existing', 'short'), ('existing', '// stale\n' * 400), ('dir', ''), ('dir-existing', '// stale\n' * 400), ('missing-parent', '')):
                for good, src in ((True, GOOD), (False, BAD), (True, EMPTY)):
                    o = native_case(runner, backend, state, existing, src)
                    chk.res.obligations += 1
                    probs = judge_native(o, state, existing, good)
                    if not probs:
                        chk.res.discharged += 1
                        chk.res.diff_ok += 1
                        continue
                    kind = ('longer ' if len(existing) > 1000 else 'shorter ') if existing else ''
                    chk.violation(f"C20 native {backend} {kind}{state} {'empty' if src is EMPTY else 'good' if good else 'malformed'} input", '; '.join(probs),
                                  {'kind': 'compile_file', 'backend': backend, 'state': state, 'existing': existing, 'source': src})
            # the same destinations when the compiler is built in the other call order, built for the other backend and
            # swapped with with_backend, or when the destination directory appears only after the compiler was built
            for state in ('absent', 'dir', 'late-dir'):
                for mode_first in (False, True):
                    for swap in (False, True):
                        if not (mode_first or swap or state == 'late-dir'):
                            continue
                        o = native_case(runner, backend, state, '', GOOD, mode_first, swap)
                        chk.res.obligations += 1
                        probs = judge_native(o, state, '', True)
                        if not probs:
                            chk.res.discharged += 1
                            chk.res.diff_ok += 1
                            continue
                        chk.violation(f"C20 native {backend} {state} built[{'mode first' if mode_first else 'sources first'}{', with_backend' if swap else ''}]", '; '.join(probs),
                                      {'kind': 'compile_file', 'backend': backend, 'state': state, 'existing': '', 'source': GOOD, 'mode_first': mode_first, 'swap': swap})
        chk.witness('native destinations exercised', True)
    finally:
        runner.close()


def replay_file(path):
    import json
    d = json.load(open(path))
    rp = d.get('replay', {})
    print(f"property {d.get('property')}  [{d.get('sig')}]\nclaimed: {d.get('what')}")
    if rp.get('kind') != 'compile_file':
        print('kernel-level counterexample (I/O trace):', json.dumps(rp)[:1500])
        return 1
    runner = native.Runner()
    try:
        o = native_case(runner, rp['backend'], rp['state'], rp['existing'], rp['source'], rp.get('mode_first', False), rp.get('swap', False))
    finally:
        runner.close()
    probs = judge_native(o, rp['state'], rp['existing'], rp['source'] != BAD)
    print('result:', o.get('result'), '| problems:', probs)
    print('REPRODUCED' if probs else 'not reproduced')
    return 1 if probs else 0


# ---- builder state machine ---------------------------------------------------------------------------------------
TRANS = {   # state -> [(function, kind, next state)]
    'm': [('m_literal', 'lit', 's'), ('m_path', 'path', 's'), ('m_paths', 'paths', 's'), ('m_mode', 'mode', 'o')],
    'o': [('o_literal', 'lit', 'r'), ('o_path', 'path', 'r'), ('o_paths', 'paths', 'r')],
    's': [('s_literal', 'lit', 's'), ('s_path', 'path', 's'), ('s_paths', 'paths', 's'), ('s_mode', 'mode', 'r')],
    'r': [('r_literal', 'lit', 'r'), ('r_path', 'path', 'r'), ('r_paths', 'paths', 'r')],
}


def job_builder(prog, chk, tier):
    """every sequence of <= 4 (5) builder calls: the sources of the resulting compiler are exactly the sources given, in call
    order, and the output mode is the one set - whatever the order of the calls (compile() and compile_to_string() then
    work on the same sources)"""
    install_stubs()
    fns = {f: prog.find('c20_harness::' + f) for f in BUILDER_FNS}
    depth = 4 if tier == 'quick' else 5
    ir = IR(chk.ex)
    om_ty = prog.inst[fns['m_mode']]['locals'][2]
    cfg_ty = prog.inst[fns['b_new_cfg']]['locals'][1]
    cfgsyms = {cf['name']: z3.Bool('cfg_' + cf['name']) for cf in prog.ty(cfg_ty)['adt']['variants'][0]['fields'] if cf['name'] not in ('custom_imports', 'type_annotations')}

    def seqs(state, n):
        if n == 0:
            yield []
            return
        for t in TRANS[state]:
            yield [t]
            for rest in seqs(t[2], n - 1):
                yield [t] + rest
    all_seqs = [q for q in seqs('m', depth)]
    for q in all_seqs:
        names = [t[0] for t in q]
        sig = 'C20 builder ' + ' > '.join(t[1] for t in q)

        def run(ex, q=q):
            # the compiler starts from a configured backend: the four boolean options are free solver variables that the
            # resulting compiler must still hold (a transition that rebuilds the compiler from Compiler::new() loses them)
            cvals = []
            for cf in prog.ty(cfg_ty)['adt']['variants'][0]['fields']:
                if cf['name'] in ('custom_imports',):
                    cvals.append(VecV([]))
                elif cf['name'] == 'type_annotations':
                    cvals.append(VecV([Cell(StringV([ord(ch) for ch in '#[derive(AsnType, Debug, Clone, Decode, Encode, PartialEq, Eq, Hash)]']))]))
                else:
                    cvals.append(cfgsyms[cf['name']])
            c = ex.call(fns['b_new_cfg'], [Adt(cfg_ty, 0, cvals)])
            want = []
            k = 0
            for fn, kind, _ in q:
                if kind == 'lit':
                    arg = StringV([ord(x) for x in f"L{k}"])
                    want.append(('lit', f"L{k}"))
                elif kind == 'path':
                    arg = PathV(f"P{k}")
                    want.append(('path', f"P{k}"))
                elif kind == 'paths':
                    arg = VecV([Cell(PathV(f"P{k}a")), Cell(PathV(f"P{k}b"))])
                    want += [('path', f"P{k}a"), ('path', f"P{k}b")]
                else:
                    arg = Adt(om_ty, prog.variant_index(om_ty, 'SingleFile'), [PathV(f"OUT{k}")])
                k += 1
                c = ex.call(fns[fn], [c, arg])
            return c, want
        for r in chk.explore(run):
            if r.kind == 'panic':
                chk.violation(sig + ' panic', f"builder panics: {r.value[0]}", {'kind': 'kernel', 'calls': names})
                continue
            if r.kind != 'ok':
                continue
            c, want = r.value
            chk.res.obligations += 1
            st = ir.f(ir.get(ir.f(c), 'state'))
            got = []
            try:
                srcs = ir.get(st, 'sources')
            except Exception:
                srcs = None
            if srcs is not None:
                for x in ir.items(srcs):
                    x = ir.f(x)
                    v = ir.f(x.fields[0])
                    got.append(('lit', chars_repr(v.chars)) if ir.vn(x) == 'Literal' else ('path', v.name if isinstance(v, PathV) else repr(v)))
            bad = None
            if got != want:
                bad = f"after {' > '.join(names)} the compiler holds the sources {got}, given were {want}"
            # the output mode set last is the one held
            modes = [f"OUT{k}" for k, (_, kind, _) in enumerate(q) if kind == 'mode']
            if bad is None and modes:
                try:
                    om = ir.f(ir.get(st, 'output_mode'))
                    held = ir.f(om.fields[0])
                    if ir.vn(om) != 'SingleFile' or not isinstance(held, PathV) or held.name != modes[-1]:
                        bad = f"after {' > '.join(names)} the output mode is {ir.vn(om)}({getattr(held, 'name', held)}), set was SingleFile({modes[-1]})"
                except Exception as e:
                    bad = f"after {' > '.join(names)} the output mode cannot be read ({e})"
            # the configured backend is the one held: z3 decides equality of every option for all values
            if bad is None:
                cfg = ir.f(ir.get(ir.f(ir.get(ir.f(c), 'backend')), 'config'))
                for nm, sym in cfgsyms.items():
                    held = ir.get(cfg, nm)
                    m = chk.holds(r.pc, held == sym if not isinstance(held, bool) else (sym if held else z3.Not(sym)), 'builder-config')
                    if m is not None:
                        bad = f"after new_with_config(..) > {' > '.join(names)} the backend option {nm} is {held} whatever was configured (e.g. configured {m.eval(sym, model_completion=True)})"
                        break
            if bad:
                chk.violation(sig, bad, {'kind': 'kernel', 'calls': names})
            else:
                chk.res.discharged += 1
        chk.witness('builder sequences explored', True)
    chk.sample({'builder_sequences': len(all_seqs), 'depth': depth})
    chk.res.bounds['builder'] = f"every sequence of <= {depth} builder calls (typestate order)"


def run_job(prog_main, job, tier, seed):
    path = frontend.dump(C20_ROOTS, tag='c20', harness='c20-harness')
    prog = program(path)
    chk = Checker(prog, job)
    if job.startswith('kernel-'):
        job_kernel(prog, chk, job[7:], tier)
    elif job == 'built':
        job_built(prog, chk, tier)
    elif job == 'builder':
        job_builder(prog, chk, tier)
    else:
        job_native(prog, chk, tier)
    return chk.res
