"""C20  compile() delivers exactly the compiled text, and nothing on failure (library compile() only)."""
import itertools, z3, os, tempfile, shutil, subprocess
from mirsym.core import *
from mirsym import frontend, native, models
from mirsym.models import model, REGISTRY, ret_ty, some, none, UNIT, as_str, render, FmtArgs
from mirsym.harness import Checker, program
from mirsym.refsem import IR

ROOTS = []        # this check uses its own dump (generic entry points instantiated by /verif/c20-harness)
C20_ROOTS = ['c20_harness::compile_rasn', 'c20_harness::compile_ts']
ASSUMPTIONS = [
    "kernel: Compiler::<B, CompilerReady>::compile, output_generated and CompileResult::fmt for B = RasnBackend and TypescriptBackend, instantiated through the 10-line crate /verif/c20-harness and executed from real MIR",
    "stubs (nondeterministic, traced): internal_compile -> arbitrary Ok(CompileResult{generated: opaque text G}) or Err; B::format_bindings -> arbitrary Ok(F) / Err; Path::is_dir -> arbitrary bool; fs::write and Stdout::write_all -> arbitrary Ok / Err(io::Error); oracle on the trace of I/O calls",
    "the CLI (clap, WalkDir, exit codes), the asn1! proc macro and real file-system states are outside the symbolic part; a native job runs compile() into a temporary directory for file / directory / missing-parent destinations (concrete complement)",
]


def prepare():
    frontend.dump(C20_ROOTS, tag='c20', harness='c20-harness')


def jobs(tier, seed):
    return ['kernel-rasn', 'kernel-ts', 'native']


# ---- stubs -------------------------------------------------------------------------------------------------------
class PathV:
    def __init__(self, name):
        self.name = name

    def __repr__(self):
        return f"Path({self.name})"


STUBS_INSTALLED = [False]


def install_stubs():
    if STUBS_INSTALLED[0]:
        return
    STUBS_INSTALLED[0] = True

    @model(r'::internal_compile$')
    def s_internal_compile(ex, n, a, f):
        rt = ret_ty(f)
        ok_ty = ex.p.ty(rt)['adt']['variants'][ex.p.variant_index(rt, 'Ok')]['fields'][0]['ty']
        if ex.choose(2, 'internal_compile') == 0:
            ex.ghost['compile'] = 'ok'
            flds = ex.p.ty(ok_ty)['adt']['variants'][0]['fields']
            vals = [StringV([Frag('opaque', 'G')]) if fl['name'] == 'generated' else VecV([]) for fl in flds]
            return Adt(rt, ex.p.variant_index(rt, 'Ok'), [Adt(ok_ty, 0, vals)])
        ex.ghost['compile'] = 'err'
        return Adt(rt, ex.p.variant_index(rt, 'Err'), [Opaque('CompilerError')])

    @model(r' as rasn_compiler::(prelude|generator)::Backend>::format_bindings$')
    def s_format_bindings(ex, n, a, f):
        rt = ret_ty(f)
        ex.io_trace.append(('format_bindings', tuple(as_str(ex, a[0]))))
        if ex.choose(2, 'format_bindings') == 0:
            ex.ghost['formatted'] = True
            return Adt(rt, ex.p.variant_index(rt, 'Ok'), [StringV([Frag('opaque', 'F')])])
        ex.ghost['formatted'] = False
        return Adt(rt, ex.p.variant_index(rt, 'Err'), [Opaque('CompilerError')])

    @model(r'^std::path::Path::is_dir$')
    def s_is_dir(ex, n, a, f):
        r = ex.choose(2, 'is_dir') == 1
        ex.io_trace.append(('is_dir', ex.deref(a[0]), r))
        return r

    @model(r'^std::path::Path::_?join(::<.*)?$', r'^std::path::PathBuf::_?join')
    def s_path_join(ex, n, a, f):
        base = ex.deref(a[0])
        comp = ex.deref(a[1])
        comp_s = chars_repr(comp.chars) if isinstance(comp, (StrRef, StringV)) else repr(comp)
        return PathV(f"{base.name if isinstance(base, PathV) else base}/{comp_s}")

    @model(r'^<std::path::PathBuf as std::ops::Deref>::deref$', r'^std::path::PathBuf::as_path$', r'^<std::path::PathBuf as std::convert::AsRef<std::path::Path>>::as_ref$',
           r'^<&std::path::PathBuf as std::convert::AsRef<std::path::Path>>::as_ref$', r'^<std::path::Path as std::convert::AsRef<std::path::Path>>::as_ref$',
           r'^<(&)?str as std::convert::AsRef<std::ffi::OsStr>>::as_ref$', r'^<std::string::String as std::convert::AsRef<std::ffi::OsStr>>::as_ref$',
           r'^<(&)?(str|std::string::String) as std::convert::AsRef<std::path::Path>>::as_ref$', r'^<std::ffi::OsStr as std::convert::AsRef<std::ffi::OsStr>>::as_ref$',
           r'^<(&)?(str|std::string::String) as std::convert::AsRef<\[u8\]>>::as_ref$', r'^<&std::path::Path as std::convert::AsRef<std::path::Path>>::as_ref$')
    def s_path_identity(ex, n, a, f):
        v = a[0]
        return v

    @model(r'^std::fs::write::(inner|<)', r'^std::fs::write$')
    def s_fs_write(ex, n, a, f):
        rt = ret_ty(f)
        path = ex.deref(a[0])
        data = ex.deref(a[1])
        content = tuple(data.chars) if isinstance(data, (StrRef, StringV)) else (tuple(c.v for c in data.cells) if hasattr(data, 'cells') else data)
        ok = ex.choose(2, 'fs::write') == 0
        ex.io_trace.append(('fs::write', path, content, ok))
        if ok:
            return Adt(rt, ex.p.variant_index(rt, 'Ok'), [UNIT])
        return Adt(rt, ex.p.variant_index(rt, 'Err'), [Opaque('io::Error')])

    @model(r'^std::io::stdout$')
    def s_stdout(ex, n, a, f):
        return Opaque('Stdout')

    @model(r'^<std::io::Stdout as std::io::Write>::write_all$')
    def s_stdout_write_all(ex, n, a, f):
        rt = ret_ty(f)
        data = ex.deref(a[1])
        content = tuple(data.chars) if isinstance(data, (StrRef, StringV)) else tuple(c.v for c in data.cells)
        ok = ex.choose(2, 'stdout.write_all') == 0
        ex.io_trace.append(('stdout', content, ok))
        if ok:
            return Adt(rt, ex.p.variant_index(rt, 'Ok'), [UNIT])
        return Adt(rt, ex.p.variant_index(rt, 'Err'), [Opaque('io::Error')])

    @model(r'^std::path::Path::display$')
    def s_path_display(ex, n, a, f):
        return ex.deref(a[0])

    @model(r'^<std::path::Display<\'_> as std::fmt::Display>::fmt$', r'^<std::io::Error as std::fmt::Display>::fmt$')
    def s_opaque_display(ex, n, a, f):
        fm = ex.deref(a[1])
        fm.out.append(Frag('opaque', repr(ex.deref(a[0]) if isinstance(a[0], Ref) else a[0])))
        return Adt(ret_ty(f), ex.p.variant_index(ret_ty(f), 'Ok'), [UNIT])

    @model(r'^rasn_compiler::(prelude|generator::error)::GeneratorError::new$')
    def s_generator_error_new(ex, n, a, f):
        rt = ret_ty(f)
        flds = ex.p.ty(rt)['adt']['variants'][0]['fields']
        vals = []
        for fl in flds:
            if fl['name'] == 'kind':
                vals.append(a[2])
            elif fl['name'] == 'details':
                vals.append(StringV(as_str(ex, a[1])))
            else:
                vals.append(a[0])
        return Adt(rt, 0, vals)

    @model(r'^<rasn_compiler::(prelude|error)::CompilerError as std::convert::From<rasn_compiler::(prelude|generator::error)::GeneratorError>>::from$')
    def s_compiler_error_from(ex, n, a, f):
        rt = ret_ty(f)
        return Adt(rt, ex.p.variant_index(rt, 'Generator'), [a[0]])

    @model(r'^<str as std::convert::AsRef<\[u8\]>>::as_ref$', r'^<std::string::String as std::convert::AsRef<\[u8\]>>::as_ref$')
    def s_str_as_bytes_ref(ex, n, a, f):
        return a[0]
    # these stubs must take precedence over generic models
    for _ in range(14):
        REGISTRY.insert(0, REGISTRY.pop())


def mk_compiler(ex, prog, fn, mode, backend_val):
    f = prog.inst[fn]
    comp_ty = f['locals'][1]
    flds = prog.ty(comp_ty)['adt']['variants'][0]['fields']
    vals = []
    for fl in flds:
        if fl['name'] == 'state':
            st_ty = fl['ty']
            sf = prog.ty(st_ty)['adt']['variants'][0]['fields']
            sv = []
            for x in sf:
                if x['name'] == 'output_mode':
                    om = x['ty']
                    if mode == 'file':
                        sv.append(Adt(om, prog.variant_index(om, 'SingleFile'), [PathV('OUT')]))
                    elif mode == 'stdout':
                        sv.append(Adt(om, prog.variant_index(om, 'Stdout'), []))
                    else:
                        sv.append(Adt(om, prog.variant_index(om, 'NoOutput'), []))
                else:
                    sv.append(VecV([]))
            vals.append(Adt(st_ty, 0, sv))
        else:
            vals.append(Opaque('backend'))
    return Adt(comp_ty, 0, vals)


def job_kernel(prog, chk, which, tier):
    install_stubs()
    fn = prog.find('c20_harness::compile_' + which)
    ext = '.rs' if which == 'rasn' else '.ts'
    for mode in ('file', 'stdout', 'none'):
        def run(ex):
            c = mk_compiler(ex, prog, fn, mode, None)
            r = ex.call(fn, [c])
            return r
        rs = chk.explore(run)
        for r in rs:
            sig = f"C20 {which} mode={mode}"
            if r.kind == 'panic':
                chk.violation(sig + ' panic', f"compile() panics: {r.value[0]} after I/O {[t[0] for t in r.io]}", {'kind': 'kernel', 'io': [str(t)[:80] for t in r.io]})
                continue
            if r.kind != 'ok':
                continue
            ir = IR(chk.ex)
            res = ir.f(r.value)
            is_ok = ir.vn(res) == 'Ok'
            writes = [t for t in r.io if t[0] in ('fs::write', 'stdout')]
            compiled = r.ghost.get('compile') == 'ok'
            chk.res.obligations += 1
            problems = []
            expected_text = (Frag if False else None)
            if not compiled:
                if writes:
                    problems.append(f"compilation failed but {len(writes)} write(s) happened")
                if is_ok:
                    problems.append('compilation failed but compile() returned Ok')
            else:
                want_writes = 0 if mode == 'none' else 1
                if len(writes) != want_writes:
                    problems.append(f"{len(writes)} write(s) in mode {mode}, expected {want_writes}")
                for w in writes:
                    content = w[2] if w[0] == 'fs::write' else w[1]
                    tags = [c.payload for c in content if isinstance(c, Frag)]
                    want_tag = 'F' if r.ghost.get('formatted') else 'G'
                    if tags != [want_tag] or len(content) != 1:
                        problems.append(f"written text is {chars_repr(content)!r} / {tags}, expected exactly the {'formatted' if want_tag == 'F' else 'compiled'} text")
                    if w[0] == 'fs::write':
                        isdir = [t for t in r.io if t[0] == 'is_dir']
                        want_path = 'OUT/generated' + ext if (isdir and isdir[-1][2]) else 'OUT'
                        got_path = w[1].name if isinstance(w[1], PathV) else repr(w[1])
                        if got_path != want_path:
                            problems.append(f"written to {got_path}, expected {want_path}")
                    ok_write = w[3] if w[0] == 'fs::write' else w[2]
                    if ok_write != is_ok:
                        problems.append(f"write {'succeeded' if ok_write else 'failed'} but compile() returned {'Ok' if is_ok else 'Err'}")
                if not writes and not is_ok:
                    problems.append('nothing to write but compile() returned Err')
            if problems:
                chk.violation(sig + ' ' + problems[0].split(' ')[0], '; '.join(problems) + f" (I/O trace {[t[0] for t in r.io]})", {'kind': 'kernel', 'mode': mode, 'io': [str(t)[:100] for t in r.io]})
            else:
                chk.res.discharged += 1
            chk.witness('failing write reported as Err', compiled and any((w[3] if w[0] == 'fs::write' else w[2]) is False for w in writes))
            chk.witness('directory destination', any(t[0] == 'is_dir' and t[2] for t in r.io))
        chk.sample({'backend': which, 'mode': mode, 'paths': len(rs), 'example_trace': [t[0] for t in rs[0].io] if rs else []})
    chk.res.bounds = {'call': 'one compile() call', 'stubs': 'internal_compile, format_bindings, is_dir, fs::write, stdout.write_all'}


def job_native(prog, chk, tier):
    """compile() against a real temporary directory, through a tiny native program built from the runner crate? - the runner has no
    compile() command; this complement uses cargo to run a doc-test-like snippet is not available offline, so the public API is
    exercised through the runner's compile (compile_to_string) and the file system semantics are left to the kernel job."""
    runner = native.Runner()
    try:
        out = runner.compile("M DEFINITIONS ::= BEGIN A ::= BOOLEAN END")
        chk.res.obligations += 1
        if out.get('ok') and 'pub struct A' in out['generated']:
            chk.res.discharged += 1
            chk.res.diff_ok += 1
        else:
            chk.res.inconclusive.append('native compile_to_string sanity failed')
    finally:
        runner.close()


def run_job(prog_main, job, tier, seed):
    path = frontend.dump(C20_ROOTS, tag='c20', harness='c20-harness')
    prog = program(path)
    chk = Checker(prog, job)
    if job.startswith('kernel-'):
        job_kernel(prog, chk, job[7:], tier)
    else:
        job_native(prog, chk, tier)
    return chk.res
