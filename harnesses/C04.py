"""C04  Emitted value and size bounds equal the PER-visible effective constraint."""
from mirsym import bridge, native
from mirsym.harness import Checker
from . import cshapes

ROOTS = list(bridge.GEN_ROOTS)
ASSUMPTIONS = [
    "lexer+linker are run natively once per text shape (shape bridge); their output is assumed uniform in the integer values (checked with a second placeholder assignment per shape)",
    "source ranges satisfy lower <= upper (X.680 51.4); SIZE placeholders are within 0..2^63-1",
    "std/proc_macro2/quote leaf functions are modelled (models_trusted); validated by byte-for-byte differential runs against the native compiler",
    "X.680 precedence (EXCEPT > INTERSECTION > UNION) is the meaning of an unparenthesised element set",
]
NCHUNK = 16
SIZE_TYPES = ('OCTET STRING', 'BIT STRING', 'IA5String', 'SEQUENCE OF')


def all_shapes(tier):
    ctx = ('assign', 'component') if tier == 'quick' else ('assign', 'component', 'seqof', 'ref')
    return cshapes.shapes(tier, ctx, SIZE_TYPES)


def jobs(tier, seed):
    return [f"chunk{i}" for i in range(NCHUNK)]


def run_job(prog, job, tier, seed, want=('C04',)):
    i = int(job[5:])
    shapes = all_shapes(tier)[i::NCHUNK]
    chk = Checker(prog, job)
    gen = bridge.Gen(prog)
    runner = native.Runner()
    stats = {}
    try:
        for sh in shapes:
            cshapes.check_shape(chk, gen, runner, sh, set(want), stats)
    finally:
        runner.close()
    chk.res.bounds = {'shapes_in_job': len(shapes), 'tier': tier, 'operands': '<=3', 'serial': '<=2 (thorough <=3)', 'integers': 'all i128 (symbolic)'}
    chk.res.notes.append(f"{job}: {stats}")
    return chk.res
