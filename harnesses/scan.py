"""Shared by C13 / C08: the hand-written scanners of the lexer run from real MIR on symbolic strings, and an
independent reference for X.680 12.6 white-space / comment skipping written as a z3 automaton."""
import itertools, z3
from mirsym.core import *
from mirsym import models
from mirsym.harness import model_int
from mirsym.refsem import IR

COMMENT = 'lexer::common::comment'
LINE_COMMENT = 'lexer::common::line_comment'
BLOCK_COMMENT = 'lexer::common::block_comment'
EXT_MARKER = 'lexer::common::extension_marker'
ASSIGNMENT = 'lexer::common::assignment'
OPT_COMMA = 'lexer::common::optional_comma'
ROOTS = [COMMENT, LINE_COMMENT, BLOCK_COMMENT, EXT_MARKER, ASSIGNMENT, OPT_COMMA]

ALPHABET = [32, 9, 10, 13, 45, 47, 42, 97, 34]     # ' ' \t \n \r - / * a "
MB = 0xE9                                       # 'é' (2 bytes), used as a concrete character


def in_alphabet(c, alphabet=ALPHABET):
    return z3.Or([c == a for a in alphabet])


def mk_input(ex, prog, input_ty, chars):
    flds = prog.ty(input_ty)['adt']['variants'][0]['fields']
    vals = []
    for fl in flds:
        nm = fl['name']
        if nm == 'src_file':
            vals.append(models.none(ex, fl['ty']))
        elif nm == 'inner':
            vals.append(StrRef(chars))
        else:
            vals.append({'line': 1, 'column': 1, 'offset': 0, 'context_start_line': 1, 'context_start_offset': 0}[nm])
    return Adt(input_ty, 0, vals)


# ---- reference: X.680 12.6 -------------------------------------------------------------------------------------
SKIP, DASH1, LC, LC_DASH, SLASH1, BC, BC_STAR, BC_SLASH, STOP = range(9)


def ref_skip(chars):
    """position (char index) of the first character that is neither white-space nor part of a comment, as z3 terms:
    returns (pos Int, unterminated_block Bool).  pos == len(chars) when everything is skipped."""
    n = len(chars)
    st = z3.IntVal(SKIP)
    depth = z3.IntVal(0)
    pos = z3.IntVal(-1)

    def eq(c, v):
        return to_bv(c, 32) == v
    for i, c in enumerate(chars):
        ws = z3.Or(eq(c, 32), eq(c, 9), eq(c, 10), eq(c, 13), eq(c, 11), eq(c, 12))
        nl = eq(c, 10)     # end of line for comments: LF (CRLF ends at its LF); bare CR / VT / FF line ends are not in the property's list
        dash, slash, star = eq(c, 45), eq(c, 47), eq(c, 42)
        stopped = st == STOP
        # next state / stop position
        nst = z3.If(stopped, z3.IntVal(STOP),
              z3.If(st == SKIP, z3.If(ws, SKIP, z3.If(dash, DASH1, z3.If(slash, SLASH1, STOP))),
              z3.If(st == DASH1, z3.If(dash, LC, STOP),
              z3.If(st == SLASH1, z3.If(star, BC, STOP),
              z3.If(st == LC, z3.If(nl, SKIP, z3.If(dash, LC_DASH, LC)),
              z3.If(st == LC_DASH, z3.If(dash, SKIP, z3.If(nl, SKIP, LC)),
              z3.If(st == BC, z3.If(star, BC_STAR, z3.If(slash, BC_SLASH, BC)),
              z3.If(st == BC_STAR, z3.If(slash, z3.If(depth == 1, z3.IntVal(SKIP), z3.IntVal(BC)), z3.If(star, BC_STAR, BC)),
              z3.If(slash, BC_SLASH, z3.If(star, BC, BC))))))))))     # BC_SLASH
        npos = z3.If(stopped, pos,
               z3.If(z3.And(st == SKIP, nst == STOP), z3.IntVal(i),
               z3.If(z3.And(z3.Or(st == DASH1, st == SLASH1), nst == STOP), z3.IntVal(i - 1), pos)))
        ndepth = z3.If(z3.And(st == SLASH1, star), z3.IntVal(1),
                 z3.If(z3.And(st == BC_STAR, slash), depth - 1,
                 z3.If(z3.And(st == BC_SLASH, star), depth + 1, depth)))
        st, pos, depth = nst, npos, ndepth
    final_pos = z3.If(st == STOP, pos, z3.If(z3.Or(st == DASH1, st == SLASH1), z3.IntVal(n - 1), z3.IntVal(n)))
    unterminated = z3.Or(st == BC, st == BC_STAR, st == BC_SLASH)
    return final_pos, unterminated


def ref_skip_py(s):
    """concrete twin (used to validate the automaton against itself on samples)"""
    chars = [ord(c) for c in s]
    p, u = ref_skip(chars)
    return z3.simplify(p).as_long(), z3.is_true(z3.simplify(u))


def parse_outcome(ex, prog, res):
    """('ok', remaining chars, consumed value) | ('err',)"""
    ir = IR(ex)
    r = ir.f(res)
    if ir.vn(r) != 'Ok':
        return ('err',)
    tup = ir.f(r.fields[0])
    rest = ir.f(tup.fields[0])
    inner = ir.f(ir.get(rest, 'inner'))
    return ('ok', list(inner.chars), tup.fields[1], rest)
