"""C03  Tags and tagging mode follow X.680 under the module's tagging environment."""
import itertools, z3
from mirsym.core import *
from mirsym import bridge, native, tokproj
from mirsym.harness import Checker, model_int
from mirsym.tokens import TS, TLit, TIdent, TGroup

ROOTS = list(bridge.GEN_ROOTS)
ASSUMPTIONS = [
    "lexer+linker (incl. apply_tagging_environment) run natively once per shape of the exhaustive 5-dimensional space; the tag number is a free u64 variable in the generator run (uniformity of the front end in the number checked with a second number)",
    "Tag IMPLICIT on an untagged CHOICE / open type is illegal source (X.680 31.2.9) and excluded",
    "the explicit/implicit marking on a CHOICE-typed or open-type component, alternative or alias is not asserted (the rasn runtime applies it on its own); class, number and presence are; a tagged CHOICE type assignment (the enum itself carries the tag) must be explicit under every module default",
    "std/proc_macro2/quote leaves modelled; validated by differential runs",
]
DEFAULTS = ['EXPLICIT TAGS', 'IMPLICIT TAGS', 'AUTOMATIC TAGS', '']
KEYWORDS = ['', 'IMPLICIT', 'EXPLICIT']
CLASSES = ['', 'APPLICATION', 'PRIVATE', 'UNIVERSAL']
POSITIONS = ['assign', 'seq-comp', 'set-comp', 'choice-alt', 'nested-comp', 'nested2-comp', 'seqof-elem', 'setof-elem', 'comp-seqof-elem',
             # a component of the anonymous element type of a collection (the default has to reach below SEQUENCE OF and SET OF)
             'seqof-nested-comp', 'setof-nested-comp', 'comp-setof-nested-comp']
KINDS = ['prim', 'ref-seq', 'ref-choice', 'inline-choice', 'open']
KIND_TEXT = {'prim': 'INTEGER', 'ref-seq': 'R', 'ref-choice': 'C', 'inline-choice': 'CHOICE { x NULL, y BOOLEAN }', 'open': 'ANY'}
CLASS_IDENT = {'': 'context', 'APPLICATION': 'application', 'PRIVATE': 'private', 'UNIVERSAL': 'universal'}
PH = 1000003
NCHUNK = 16


def shape_text(default, kw, cls, pos, kind, num):
    if pos.endswith('+cf'):
        # the sibling component is written as a fixed-type class field: the linker rebuilds the enclosing types while it resolves the
        # field (resolve_class_reference) - the tags written next to it must survive
        t = shape_text(default, kw, cls, pos[:-3], kind, num)
        return t.replace('f BOOLEAN', 'f CLS.&flag').replace(' BEGIN ', ' BEGIN CLS ::= CLASS { &flag BOOLEAN, &Type } ', 1)
    tag = f"[{cls + ' ' if cls else ''}{num}]" + (' ' + kw if kw else '')
    ty = f"{tag} {KIND_TEXT[kind]}"
    if pos == 'assign':
        body = f"T ::= {ty}"
    elif pos == 'seq-comp':
        body = f"T ::= SEQUENCE {{ f BOOLEAN, a {ty} }}"
    elif pos == 'set-comp':
        body = f"T ::= SET {{ f BOOLEAN, a {ty} }}"
    elif pos == 'choice-alt':
        body = f"T ::= CHOICE {{ f BOOLEAN, a {ty} }}"
    elif pos == 'nested-comp':
        body = f"T ::= SEQUENCE {{ n SEQUENCE {{ f BOOLEAN, a {ty} }} }}"
    elif pos == 'nested2-comp':
        body = f"T ::= SEQUENCE {{ m CHOICE {{ n SET {{ f BOOLEAN, a {ty} }}, g NULL }} }}"
    elif pos == 'seqof-elem':
        body = f"T ::= SEQUENCE OF {ty}"
    elif pos == 'setof-elem':
        body = f"T ::= SET OF {ty}"
    elif pos == 'comp-seqof-elem':
        body = f"T ::= SEQUENCE {{ l SEQUENCE OF {ty} }}"
    elif pos == 'seqof-nested-comp':
        body = f"T ::= SEQUENCE OF SEQUENCE {{ f BOOLEAN, a {ty} }}"
    elif pos == 'setof-nested-comp':
        body = f"T ::= SET OF SEQUENCE {{ f BOOLEAN, a {ty} }}"
    elif pos == 'comp-setof-nested-comp':
        body = f"T ::= SEQUENCE {{ l SET OF CHOICE {{ f BOOLEAN, a {ty} }} }}"
    return f"M DEFINITIONS {default} ::= BEGIN R ::= SEQUENCE {{ z BOOLEAN }} C ::= CHOICE {{ p NULL, q BOOLEAN }} {body} END"


def all_shapes(tier):
    out = []
    for d, kw, cls, pos, kind in itertools.product(DEFAULTS, KEYWORDS, CLASSES, POSITIONS, KINDS):
        if kw == 'IMPLICIT' and kind in ('ref-choice', 'inline-choice', 'open'):
            continue
        if tier == 'quick' and pos in ('nested2-comp', 'comp-seqof-elem', 'setof-elem') and cls in ('PRIVATE',):
            continue
        if tier == 'quick' and pos in ('seqof-nested-comp', 'setof-nested-comp', 'comp-setof-nested-comp') and (cls in ('PRIVATE', 'UNIVERSAL') or kind not in ('prim', 'ref-seq')):
            continue
        out.append((d, kw, cls, pos, kind))
        if pos in ('seq-comp', 'set-comp', 'choice-alt', 'nested2-comp') and cls in ('', 'APPLICATION') and kind in ('prim', 'ref-choice') and not (tier == 'quick' and pos == 'nested2-comp' and cls):
            out.append((d, kw, cls, pos + '+cf', kind))
    return out


def jobs(tier, seed):
    return [f"chunk{i}" for i in range(NCHUNK)] + ['cross']


def cross_text(d1, d2, kw, num):
    base = f"Base DEFINITIONS {d1} ::= BEGIN Header ::= SEQUENCE {{ version [{num}] {kw} INTEGER, w [5] BOOLEAN }} Pair {{T}} ::= SEQUENCE {{ first [1] {kw} T, second [6] BOOLEAN }} END"
    proto = f"Proto DEFINITIONS {d2} ::= BEGIN IMPORTS Header, Pair{{}} FROM Base; Message ::= SEQUENCE {{ body [2] OCTET STRING, COMPONENTS OF Header }} IntPair ::= Pair {{ INTEGER }} END"
    return [base, proto]


def judge_cross(items, d1, d2, kw, numsym, chk=None, pc=None):
    """tags written in Base follow Base's default wherever the components end up (COMPONENTS OF an imported type, an
    instantiated imported template); tags written in Proto follow Proto's"""
    mods = {it.name: it for it in items if it.kind == 'mod'}
    pm = mods.get('proto')
    if pm is None:
        return [('missing', 'module proto not generated')]
    structs = {it.name: it for it in pm.items if it.kind == 'struct'}
    fails = []
    for st, field, dflt, k, num in (('Message', 'version', d1, kw, numsym), ('Message', 'w', d1, '', 5), ('Message', 'body', d2, '', 2), ('IntPair', 'first', d1, kw, 1), ('IntPair', 'second', d1, '', 6)):
        it = structs.get(st)
        f = next((x for x in (it.fields if it else []) if x.name == field), None)
        if f is None:
            fails.append(('missing', f"{st}.{field} not generated"))
            continue
        ritems = []
        for a in f.attrs:
            if a.path == 'rasn':
                ritems.extend(a.items())
        tag = read_tag(ritems)
        want = expected_explicit(dflt, k, 'prim')
        if tag is None or tag[0] == '?':
            fails.append(('tag-missing', f"{st}.{field}: no tag rendered"))
            continue
        if tag[0] != want:
            fails.append(('explicitness', f"{st}.{field}: tag rendered {'explicit' if tag[0] else 'implicit'}, but it is written {'with ' + k if k else 'without keyword'} in a module with {dflt} (used from a module with {d2})"))
        if tag[1] != 'context':
            fails.append(('class', f"{st}.{field}: class {tag[1]}"))
        if chk is not None and not isinstance(num, int):
            m = chk.holds(pc, to_bv(tag[2], 64) == num, 'tag-number') if tag[2] is not None else True
            if m:
                fails.append(('number', f"{st}.{field}: tag number differs from the source"))
        elif isinstance(num, int) and tag[2] != num and not (chk is not None):
            fails.append(('number', f"{st}.{field}: tag number {tag[2]}, source {num}"))
    if chk is not None:
        chk.res.obligations += 1
        if not fails:
            chk.res.discharged += 1
    return fails


def job_cross(prog, chk, tier):
    gen = bridge.Gen(prog)
    runner = native.Runner()
    try:
        for d1 in DEFAULTS[:3]:
            for d2 in DEFAULTS[:3]:
                for kw in KEYWORDS:
                    srcs = cross_text(d1, d2, kw, PH)
                    ra = runner.compile(srcs, backend='ir')
                    sig = f"C03 cross-module written[{d1}] used[{d2}] kw[{kw or 'none'}]"
                    if not ra.get('ok'):
                        chk.res.inconclusive.append(f"{sig}: rejected natively")
                        continue
                    n = z3.BitVec('n', 64)

                    def on_leaf(path, kind, conc):
                        if kind[0] == 'int' and conc == PH:
                            if kind[1] != 64:
                                raise Unsupported(f"placeholder in {kind} at {path}")
                            return n
                        return conc

                    def run(ex):
                        out = []
                        for m in ra['ir']:
                            v = gen.load_module(ex, m['tlds'], on_leaf)
                            out.append(gen.result_text(ex, gen.generate_module(ex, v)))
                        return {'mods': out, 'ts': list(ex.ghost.get('to_string_ts', []))}
                    for r in chk.explore(run):
                        if r.kind == 'panic':
                            chk.violation(sig + ' panic', f"generator panics: {r.value[0]}", {'kind': 'cross', 'd1': d1, 'd2': d2, 'kw': kw})
                            continue
                        if r.kind != 'ok':
                            continue
                        items = []
                        for t in r.value['ts']:
                            if t.toks and len(t.toks) > 2:
                                its = tokproj.parse_items(t)
                                if any(it.kind == 'mod' for it in its):
                                    items.extend(its)
                        fails = judge_cross(items, d1, d2, kw, n, chk, r.pc)
                        for oracle, msg in fails:
                            out = runner.compile(cross_text(d1, d2, kw, 7), backend='rasn')
                            nf = [('native', 'native compile failed')] if not out.get('ok') else judge_cross(tokproj.project_text(out['generated']), d1, d2, kw, 7)
                            if any(o == oracle for o, _ in nf):
                                chk.violation(f"{sig} {oracle}", f"{msg}: {cross_text(d1, d2, kw, 7)}", {'kind': 'cross', 'd1': d1, 'd2': d2, 'kw': kw, 'oracle': oracle})
                            else:
                                chk.res.inconclusive.append(f"not reproduced natively: {sig} {oracle}: {msg}")
                        chk.sample({'shape': sig})
        chk.witness('cross-module shapes explored', True)
    finally:
        runner.close()
    chk.res.bounds = {'cross': '3 defaults (defining module) x 3 defaults (using module) x 3 keywords; COMPONENTS OF an imported type and an instantiated imported template; one tag number symbolic'}


def expected_explicit(default, kw, kind, pos=None):
    """X.680 31.2.7; None = not asserted (a component / alternative / alias whose type is a CHOICE or open type: the rasn
    runtime turns the tag of a CHOICE into an explicit one itself); the one place where the generator has to do it - a tagged
    CHOICE type assignment, which becomes the #[rasn(choice, tag(..))] enum itself - is asserted (31.2.7 c)"""
    if kind == 'inline-choice' and pos == 'assign':
        return True
    if kind in ('ref-choice', 'inline-choice', 'open'):
        return None
    if kw == 'EXPLICIT':
        return True
    if kw == 'IMPLICIT':
        return False
    return default in ('EXPLICIT TAGS', '')


def container_name(pos):
    return {'assign': None, 'seq-comp': 'T', 'set-comp': 'T', 'choice-alt': 'T', 'nested-comp': 'TN', 'nested2-comp': None, 'seqof-elem': None, 'setof-elem': None, 'comp-seqof-elem': None,
            'seqof-nested-comp': 'AnonymousT', 'setof-nested-comp': 'AnonymousT', 'comp-setof-nested-comp': 'AnonymousTL'}[pos]


def find_tag_items(items, pos, kind):
    """list of rasn attribute items of the place where the tag must be rendered, plus the container item (for automatic_tags)"""
    structs = {it.name: it for it in tokproj.find_items(items) if it.kind in ('struct', 'enum')}

    def field_items(item, name):
        fl = item.fields if item.kind == 'struct' else item.variants
        for f in fl:
            if f.name == name:
                out = []
                for a in f.attrs:
                    if a.path == 'rasn':
                        out.extend(a.items())
                return out
        return None
    if pos == 'assign':
        t = structs.get('T')
        return (t.rasn_items() if t else None), None
    if pos in ('seq-comp', 'set-comp', 'choice-alt'):
        t = structs.get('T')
        return (field_items(t, 'a') if t else None), t
    if pos == 'nested-comp':
        t = structs.get('TN')
        return (field_items(t, 'a') if t else None), t
    if pos == 'nested2-comp':
        t = structs.get('TMN') or structs.get('TMn') or next((v for k, v in structs.items() if k.lower() == 'tmn'), None)
        return (field_items(t, 'a') if t else None), t
    if pos in ('seqof-elem', 'setof-elem'):
        t = structs.get('AnonymousT')
        return (t.rasn_items() if t else None), None
    if pos == 'comp-seqof-elem':
        t = structs.get('AnonymousTL')
        return (t.rasn_items() if t else None), None
    if pos in ('seqof-nested-comp', 'setof-nested-comp', 'comp-setof-nested-comp'):
        t = structs.get('AnonymousT' if pos != 'comp-setof-nested-comp' else 'AnonymousTL')
        return (field_items(t, 'a') if t else None), t
    return None, None


def read_tag(ritems):
    """(explicit, class ident, number term) of tag(..) among attribute items, or None"""
    for it in ritems or []:
        if it and tokproj.is_id(it[0], 'tag') and len(it) > 1 and isinstance(it[1], TGroup):
            inner = it[1].ts.toks
            explicit = False
            if inner and tokproj.is_id(inner[0], 'explicit') and len(inner) > 1 and isinstance(inner[1], TGroup):
                explicit = True
                inner = inner[1].ts.toks
            parts = tokproj.split_commas(inner)
            if len(parts) != 2:
                return ('?', None, None)
            cls = tokproj.idname(parts[0][0]) if parts[0] and isinstance(parts[0][0], TIdent) else None
            lit = parts[1][0] if parts[1] else None
            num = None
            if isinstance(lit, TLit) and lit.kind == 'int':
                num = lit.payload[0]
            elif isinstance(lit, TLit) and lit.kind == 'raw':
                try:
                    num = int(lit.payload)
                except ValueError:
                    pass
            return (explicit, cls, num)
    return None


def has_item(item, name):
    return any(it and tokproj.is_id(it[0], name) and len(it) == 1 for it in item.rasn_items()) if item is not None else False


def judge(shape, items, numsym, chk=None, pc=None):
    """returns list of (oracle, message) failures; when chk is given the number equality is a solver obligation"""
    d, kw, cls, pos, kind = shape
    pos = pos[:-3] if pos.endswith('+cf') else pos
    fails = []
    ritems, container = find_tag_items(items, pos, kind)
    if ritems is None:
        if pos in ('seqof-elem', 'setof-elem', 'comp-seqof-elem'):
            return [('tag-dropped', 'the tag is not rendered at all (no item carries the element tag)')]
        return [('locate', 'generated item for the tagged position not found')]
    tag = read_tag(ritems)
    if tag is None:
        return [('tag-dropped', 'the tag is not rendered at all')]
    explicit, c, num = tag
    if c != CLASS_IDENT[cls]:
        fails.append(('class', f"class rendered as {c}, source says {CLASS_IDENT[cls]}"))
    if num is None:
        fails.append(('number', 'tag number not understood'))
    elif chk is not None:
        m = chk.holds(pc, z3.ZeroExt(64, to_bv(num, 64)) == z3.ZeroExt(64, numsym) if not isinstance(num, int) else z3.BitVecVal(num, 64) == numsym, 'tag-number')
        if m:
            fails.append(('number', f"tag number differs from the source for n = {model_int(m, numsym, False)}"))
    elif num != numsym:
        fails.append(('number', f"tag number {num} differs from the source {numsym}"))
    exp = expected_explicit(d, kw, kind, pos)
    if exp is not None and explicit != exp:
        fails.append(('mode', f"rendered {'explicit' if explicit else 'implicit'}, X.680 31.2.7 says {'explicit' if exp else 'implicit'}"))
    # a SEQUENCE/SET/CHOICE with a tagged component is never tagged automatically
    if container is not None and has_item(container, 'automatic_tags'):
        fails.append(('automatic', 'automatic_tags on a type whose own component carries a tag'))
    return fails


def sig_of(shape, oracle):
    d, kw, cls, pos, kind = shape
    return f"C03 {oracle} default[{d or 'none'}] kw[{kw or '-'}] class[{cls or 'context'}] pos[{pos}] kind[{kind}]"


def run_job(prog, job, tier, seed):
    if job == 'cross':
        chk = Checker(prog, job)
        job_cross(prog, chk, tier)
        return chk.res
    i = int(job[5:])
    shapes = all_shapes(tier)[i::NCHUNK]
    chk = Checker(prog, job)
    gen = bridge.Gen(prog)
    runner = native.Runner()
    stats = {}
    n2 = 77 + (seed % 1000)
    try:
        for sh in shapes:
            ta = shape_text(*sh, PH)
            ra = runner.compile(ta, backend='ir')
            rb = runner.compile(shape_text(*sh, n2), backend='ir')
            if not ra.get('ok') or not rb.get('ok'):
                stats['rejected-natively'] = stats.get('rejected-natively', 0) + 1
                continue
            if [t.replace(str(PH), '<n>') for m in ra['ir'] for t in m['tlds']] != [t.replace(str(n2), '<n>') for m in rb['ir'] for t in m['tlds']]:
                chk.res.inconclusive.append(f"front end not uniform in the tag number: {sig_of(sh, 'uniform')}")
                continue
            stats['shapes'] = stats.get('shapes', 0) + 1
            n = z3.BitVec('n', 64)

            def on_leaf(path, kind, conc):
                if kind[0] == 'int' and conc == PH:
                    if kind[1] != 64:
                        raise Unsupported(f"placeholder in {kind} at {path}")
                    return n
                return conc

            def run(ex):
                out = []
                for m in ra['ir']:
                    v = gen.load_module(ex, m['tlds'], on_leaf)
                    out.append(gen.result_text(ex, gen.generate_module(ex, v)))
                return {'mods': out, 'ts': list(ex.ghost.get('to_string_ts', []))}
            rs = chk.explore(run)
            for r in rs:
                if r.kind == 'panic':
                    chk.violation(sig_of(sh, 'panic'), f"generator panics: {r.value[0]}: {ta}", {'kind': 'tag', 'text': ta})
                    continue
                if r.kind != 'ok':
                    continue
                kindr, text, warns = r.value['mods'][0]
                if kindr != 'ok' or not r.value['ts'] or warns:
                    chk.violation(sig_of(sh, 'error'), f"definition not generated ({kindr}, {len(warns)} warnings): {ta}", {'kind': 'tag', 'text': ta})
                    continue
                items = tokproj.parse_items(r.value['ts'][-1])
                fails = judge(sh, items, n, chk, r.pc)
                chk.witness('explicit tag rendered', any(True for _ in [0]) and (read_tag(find_tag_items(items, sh[3], sh[4])[0]) or (None,))[0] is True)
                chk.witness('implicit tag rendered', (read_tag(find_tag_items(items, sh[3], sh[4])[0]) or (None,))[0] is False)
                for oracle, msg in fails:
                    # native confirmation with a concrete number
                    num = 5 if oracle != 'number' else 4294967301
                    tn = shape_text(*sh, num)
                    out = runner.compile(tn, backend='rasn')
                    nf = [('native', 'native compile failed')] if not out.get('ok') else judge(sh, tokproj.project_text(out['generated']), num)
                    if any(o == oracle for o, _ in nf):
                        chk.violation(sig_of(sh, oracle), f"{msg}: {tn}", {'kind': 'tag', 'text': tn, 'oracle': oracle})
                    else:
                        chk.res.inconclusive.append(f"not reproduced natively: {sig_of(sh, oracle)}: {msg}")
                chk.sample({'shape': sig_of(sh, 'ok'), 'text': shape_text(*sh, '<n>')})
            # automatic_tags <=> AUTOMATIC TAGS and no own component tagged: the untagged twin of this shape
        # automatic tagging of untagged containers, per default
        if i == 0:
            for d in DEFAULTS:
                for cont in ('SEQUENCE', 'SET', 'CHOICE'):
                    text = f"M DEFINITIONS {d} ::= BEGIN T ::= {cont} {{ f BOOLEAN, a INTEGER }} U ::= {cont} {{ f BOOLEAN, n {cont} {{ g NULL, a [3] INTEGER }} }} END"
                    out = runner.compile(text, backend='ir')
                    if not out.get('ok'):
                        continue

                    def run2(ex):
                        outm = []
                        for m in out['ir']:
                            v = gen.load_module(ex, m['tlds'])
                            outm.append(gen.result_text(ex, gen.generate_module(ex, v)))
                        return {'mods': outm, 'ts': list(ex.ghost.get('to_string_ts', []))}
                    for r in chk.explore(run2):
                        if r.kind != 'ok' or not r.value['ts']:
                            continue
                        items = tokproj.parse_items(r.value['ts'][-1])
                        its = {it.name: it for it in tokproj.find_items(items) if it.kind in ('struct', 'enum')}
                        for nm, want in (('T', d == 'AUTOMATIC TAGS'), ('U', d == 'AUTOMATIC TAGS'), ('UN', False)):
                            got = has_item(its.get(nm), 'automatic_tags')
                            chk.res.obligations += 1
                            if got == want:
                                chk.res.discharged += 1
                            else:
                                chk.violation(f"C03 automatic_tags default[{d or 'none'}] {cont} {nm}", f"automatic_tags={got}, expected {want}: {text}", {'kind': 'tag', 'text': text})
    finally:
        runner.close()
    chk.res.bounds = {'space': 'default x keyword x class x position x kind, exhaustive', 'tag_number': 'all u64 (symbolic)', 'shapes_in_job': len(shapes)}
    chk.res.notes.append(f"{job}: {stats}")
    return chk.res
