"""C09  Notations defined by expansion compile like their hand-expanded form.

Relational and whole-pipeline: the sugared module and its hand-expanded twin are both compiled by the real
`compile_to_string` executed from MIR (lexer on the concrete text, then validator/linker and generator with the integer
values that occur in the text replaced by solver variables); z3 decides that the two generated texts and the numbers of
warnings are equal for every value of those integers."""
import itertools, re, z3
from mirsym.core import *
from mirsym import pipe, native
from mirsym.harness import Checker, model_int, program

ROOTS = []          # own dump (pipe harness)
ASSUMPTIONS = [
    "whole pipeline from real MIR through /verif/pipe-harness (compile_to_string for the rasn backend): lexer on the concrete text, then Validator::new / link / validate and the generator with the integers written as placeholders in the text replaced by 128-bit solver variables between lexer and validator (hook on lexer::asn_spec); Backend::format_bindings (prettyplease) is the identity",
    "pairs (sugared, hand-expanded) of: value reference in a constraint (range end, single value, SIZE, in components / CHOICE / SEQUENCE OF / serial / union / extensible constraints, through a type reference, reference chains of 1..3 (4) levels), named number in a constraint, COMPONENTS OF (first / middle / last position, of a type with an extension marker, of a type that itself uses COMPONENTS OF, SET), parameterized types (type, value and both parameters, instantiated 1..2 times), selection types, fixed-type class fields; referenced names sort before and after the referencing name",
    "the two texts must be equal character by character, rendered integers compared as terms by z3 under the joint path condition; differences are confirmed natively (both modules compiled by the native compiler with the solver's values) before they are reported",
]
P1, P2 = 1000003, 1000033
NCHUNK = 16


def prepare():
    pipe.dump()


class Pair:
    def __init__(self, role, sugared, expanded, assume=None, nvars=1):
        self.role, self.sugared, self.expanded, self.assume, self.nvars = role, sugared, expanded, assume, nvars


def nonneg(v):
    return [v[0] >= 0]


def ordered(v):
    return [v[0] <= v[1]]


def pairs(tier):
    out = []
    H = "M DEFINITIONS AUTOMATIC TAGS ::= BEGIN "
    E = " END"

    def add(role, common, sugared, expanded, assume=None, nvars=1):
        out.append(Pair(role, H + common + ' ' + sugared + E, H + common + ' ' + expanded + E, assume, nvars))
    # ---- value references in constraints; the value name sorts after (lo) / before... value names always sort after type
    # names (lower case), so "before/after" is exercised between value definitions (chains) and for type-like references
    for vn in ('lo', 'zz-top'):
        c = f"{vn} INTEGER ::= {P1}"
        add(f"value-ref range-min [{vn}]", c, f"A ::= INTEGER ({vn}..MAX)", f"A ::= INTEGER ({P1}..MAX)")
        add(f"value-ref range-max [{vn}]", c, f"A ::= INTEGER (MIN..{vn})", f"A ::= INTEGER (MIN..{P1})")
        add(f"value-ref single [{vn}]", c, f"A ::= INTEGER ({vn})", f"A ::= INTEGER ({P1})")
        add(f"value-ref closed-min [{vn}]", c, f"A ::= INTEGER ({vn}..2000000)", f"A ::= INTEGER ({P1}..2000000)", lambda v: [v[0] <= 2000000])
        add(f"value-ref closed-max [{vn}]", c, f"A ::= INTEGER (-7..{vn})", f"A ::= INTEGER (-7..{P1})", lambda v: [v[0] >= -7])
        add(f"value-ref size [{vn}]", c, f"A ::= OCTET STRING (SIZE({vn}))", f"A ::= OCTET STRING (SIZE({P1}))", nonneg)
        add(f"value-ref size-min [{vn}]", c, f"A ::= SEQUENCE (SIZE({vn}..MAX)) OF BOOLEAN", f"A ::= SEQUENCE (SIZE({P1}..MAX)) OF BOOLEAN", nonneg)
        add(f"value-ref size-max [{vn}]", c, f"A ::= IA5String (SIZE(1..{vn}))", f"A ::= IA5String (SIZE(1..{P1}))", lambda v: [v[0] >= 1])
        add(f"value-ref component [{vn}]", c, f"A ::= SEQUENCE {{ a INTEGER ({vn}..MAX), b BOOLEAN }}", f"A ::= SEQUENCE {{ a INTEGER ({P1}..MAX), b BOOLEAN }}")
        add(f"value-ref nested-component [{vn}]", c, f"A ::= SEQUENCE {{ a SEQUENCE {{ b INTEGER (MIN..{vn}) }} }}", f"A ::= SEQUENCE {{ a SEQUENCE {{ b INTEGER (MIN..{P1}) }} }}")
        add(f"value-ref choice [{vn}]", c, f"A ::= CHOICE {{ a INTEGER ({vn}..MAX), b NULL }}", f"A ::= CHOICE {{ a INTEGER ({P1}..MAX), b NULL }}")
        add(f"value-ref seqof-element [{vn}]", c, f"A ::= SEQUENCE OF INTEGER ({vn}..MAX)", f"A ::= SEQUENCE OF INTEGER ({P1}..MAX)")
        add(f"value-ref serial [{vn}]", c, f"A ::= INTEGER (0..2000000)({vn}..MAX)", f"A ::= INTEGER (0..2000000)({P1}..MAX)", lambda v: [v[0] >= 0, v[0] <= 2000000])
        add(f"value-ref type-reference [{vn}]", c + " P ::= INTEGER", f"A ::= P ({vn}..MAX)", f"A ::= P ({P1}..MAX)")
        add(f"value-ref union [{vn}]", c, f"A ::= INTEGER (1..5 | 7..{vn})", f"A ::= INTEGER (1..5 | 7..{P1})", lambda v: [v[0] >= 7])
        add(f"value-ref extensible [{vn}]", c, f"A ::= INTEGER ({vn}..MAX, ...)", f"A ::= INTEGER ({P1}..MAX, ...)")
        add(f"value-ref other-gate [{vn}]", c, f"A ::= SEQUENCE {{ a INTEGER ({vn}..MAX), b OCTET STRING (SIZE(4)) }}", f"A ::= SEQUENCE {{ a INTEGER ({P1}..MAX), b OCTET STRING (SIZE(4)) }}")
    c2 = f"lo INTEGER ::= {P1} hi INTEGER ::= {P2}"
    add("value-ref both-ends", c2, "A ::= INTEGER (lo..hi)", f"A ::= INTEGER ({P1}..{P2})", ordered, 2)
    add("value-ref both-ends size", c2, "A ::= SEQUENCE (SIZE(lo..hi)) OF NULL", f"A ::= SEQUENCE (SIZE({P1}..{P2})) OF NULL", lambda v: [v[0] >= 0, v[0] <= v[1]], 2)
    for depth in ((2, 3) if tier == 'quick' else (2, 3, 4)):
        for order in ('asc', 'desc'):
            names = [f"v{chr(ord('a') + i)}" for i in range(depth)]
            if order == 'desc':
                names = names[::-1]
            # names[0] is referenced by the constraint, names[-1] holds the number
            chain = ' '.join(f"{names[i]} INTEGER ::= {names[i + 1]}" for i in range(depth - 1)) + f" {names[-1]} INTEGER ::= {P1}"
            add(f"value-ref chain depth={depth} names={order}", chain, f"A ::= INTEGER ({names[0]}..MAX)", f"A ::= INTEGER ({P1}..MAX)")
    # ---- named numbers
    nn = f"INTEGER {{ first({P1}), last({P2}) }}"
    add("named-number range own-type", "", f"A ::= {nn} (first..last)", f"A ::= {nn} ({P1}..{P2})", ordered, 2)
    add("named-number half-open own-type", "", f"A ::= {nn} (first..MAX)", f"A ::= {nn} ({P1}..MAX)", None, 2)
    add("named-number single own-type", "", f"A ::= {nn} (last)", f"A ::= {nn} ({P2})", None, 2)
    add("named-number component", "", f"A ::= SEQUENCE {{ a {nn} (first..MAX) }}", f"A ::= SEQUENCE {{ a {nn} ({P1}..MAX) }}", None, 2)
    for tn in ('N', 'Zn'):
        clash = "Aa ::= INTEGER { first(1), last(2) } (0..100) "
        add(f"named-number through type-reference, names also declared by an earlier type [{tn}]", clash + f"{tn} ::= {nn}", f"Mm ::= {tn} (first..last)", f"Mm ::= {tn} ({P1}..{P2})", ordered, 2)
        add(f"named-number through type-reference component, names also declared by an earlier type [{tn}]", clash + f"{tn} ::= {nn}", f"Mm ::= SEQUENCE {{ a {tn} (first..MAX) }}", f"Mm ::= SEQUENCE {{ a {tn} ({P1}..MAX) }}", None, 2)
        add(f"named-number through type-reference [{tn}]", f"{tn} ::= {nn}", f"Mm ::= {tn} (first..last)", f"Mm ::= {tn} ({P1}..{P2})", ordered, 2)
        add(f"named-number through type-reference component [{tn}]", f"{tn} ::= {nn}", f"Mm ::= SEQUENCE {{ a {tn} (first..MAX) }}", f"Mm ::= SEQUENCE {{ a {tn} ({P1}..MAX) }}", None, 2)
    # ---- COMPONENTS OF
    for bn in ('B', 'Zb'):
        for kw in ('SEQUENCE', 'SET'):
            b = f"{bn} ::= {kw} {{ x INTEGER (0..{P1}), y BOOLEAN OPTIONAL }}"
            inl = f"x INTEGER (0..{P1}), y BOOLEAN OPTIONAL"
            add(f"components-of {kw} last [{bn}]", b, f"Mm ::= {kw} {{ p NULL, COMPONENTS OF {bn} }}", f"Mm ::= {kw} {{ p NULL, {inl} }}", nonneg)
            add(f"components-of {kw} first [{bn}]", b, f"Mm ::= {kw} {{ COMPONENTS OF {bn}, q REAL }}", f"Mm ::= {kw} {{ {inl}, q REAL }}", nonneg)
            add(f"components-of {kw} middle [{bn}]", b, f"Mm ::= {kw} {{ p NULL, COMPONENTS OF {bn}, q REAL }}", f"Mm ::= {kw} {{ p NULL, {inl}, q REAL }}", nonneg)
            add(f"components-of {kw} only [{bn}]", b, f"Mm ::= {kw} {{ COMPONENTS OF {bn} }}", f"Mm ::= {kw} {{ {inl} }}", nonneg)
            add(f"components-of {kw} into-extensible [{bn}]", b, f"Mm ::= {kw} {{ p NULL, COMPONENTS OF {bn}, ... }}", f"Mm ::= {kw} {{ p NULL, {inl}, ... }}", nonneg)
        bx = f"{bn} ::= SEQUENCE {{ x INTEGER (0..{P1}), ..., y BOOLEAN OPTIONAL }}"
        add(f"components-of source-extensible [{bn}]", bx, f"Mm ::= SEQUENCE {{ p NULL, COMPONENTS OF {bn} }}", f"Mm ::= SEQUENCE {{ p NULL, x INTEGER (0..{P1}) }}", nonneg)
        cn = 'C' if bn == 'B' else 'Zc'
        nest = f"{cn} ::= SEQUENCE {{ z INTEGER ({P1}..MAX) }} {bn} ::= SEQUENCE {{ x INTEGER, COMPONENTS OF {cn} }}"
        add(f"components-of nested [{bn}]", nest, f"Mm ::= SEQUENCE {{ p NULL, COMPONENTS OF {bn} }}", f"Mm ::= SEQUENCE {{ p NULL, x INTEGER, z INTEGER ({P1}..MAX) }}")
        add(f"components-of twice [{bn}]", f"{bn} ::= SEQUENCE {{ x INTEGER (0..{P1}) }} {cn} ::= SEQUENCE {{ z NULL }}", f"Mm ::= SEQUENCE {{ COMPONENTS OF {bn}, p NULL, COMPONENTS OF {cn} }}",
            f"Mm ::= SEQUENCE {{ x INTEGER (0..{P1}), p NULL, z NULL }}", nonneg)
    # ---- parameterized types
    for pn in ('P', 'Zp'):
        tt = f"{pn} {{T}} ::= SEQUENCE {{ a T, n INTEGER (0..{P1}) }}"
        add(f"parameterized type-parameter [{pn}]", tt, f"Mm ::= {pn} {{BOOLEAN}}", f"Mm ::= SEQUENCE {{ a BOOLEAN, n INTEGER (0..{P1}) }}", nonneg)
        tv = f"{pn} {{INTEGER: v}} ::= INTEGER (0..v)"
        add(f"parameterized value-parameter [{pn}]", tv, f"Mm ::= {pn} {{{P1}}}", f"Mm ::= INTEGER (0..{P1})", nonneg)
        tb = f"{pn} {{T, INTEGER: v}} ::= SEQUENCE {{ a T, b INTEGER (0..v) }}"
        add(f"parameterized both-parameters [{pn}]", tb, f"Mm ::= {pn} {{BOOLEAN, {P1}}}", f"Mm ::= SEQUENCE {{ a BOOLEAN, b INTEGER (0..{P1}) }}", nonneg)
        add(f"parameterized two-instantiations [{pn}]", tt, f"Mm ::= {pn} {{BOOLEAN}} Nn ::= {pn} {{NULL}}",
            f"Mm ::= SEQUENCE {{ a BOOLEAN, n INTEGER (0..{P1}) }} Nn ::= SEQUENCE {{ a NULL, n INTEGER (0..{P1}) }}", nonneg)
        add(f"parameterized value two-instantiations [{pn}]", tv, f"Mm ::= {pn} {{{P1}}} Nn ::= {pn} {{{P2}}}", f"Mm ::= INTEGER (0..{P1}) Nn ::= INTEGER (0..{P2})", lambda v: [v[0] >= 0, v[1] >= 0], 2)
        add(f"parameterized reference-argument [{pn}]", tt + " R ::= SEQUENCE { z NULL }", f"Mm ::= {pn} {{R}}", f"Mm ::= SEQUENCE {{ a R, n INTEGER (0..{P1}) }}", nonneg)
        # X.683 8.3: inside the template a dummy reference hides a module definition that is spelled the same
        add(f"parameterized type dummy shadows a type [{pn}]", tt + " T ::= NULL", f"Mm ::= {pn} {{BOOLEAN}}", f"Mm ::= SEQUENCE {{ a BOOLEAN, n INTEGER (0..{P1}) }}", nonneg)
        add(f"parameterized value dummy shadows a value [{pn}]", tv + " v INTEGER ::= 7", f"Mm ::= {pn} {{{P1}}}", f"Mm ::= INTEGER (0..{P1})", nonneg)
        add(f"parameterized both dummies shadow definitions [{pn}]", tb + " T ::= NULL v INTEGER ::= 7", f"Mm ::= {pn} {{BOOLEAN, {P1}}}", f"Mm ::= SEQUENCE {{ a BOOLEAN, b INTEGER (0..{P1}) }}", nonneg)
        # ... and a named number / enumeral of ANOTHER type that is spelled the same
        tr = f"{pn} {{INTEGER: lo, INTEGER: hi}} ::= SEQUENCE {{ a INTEGER (lo..hi) }}"
        add(f"parameterized value dummies shadow named numbers of another type [{pn}]", tr + " Level ::= INTEGER { lo(0), hi(10) }", f"Mm ::= {pn} {{1, {P1}}}", f"Mm ::= SEQUENCE {{ a INTEGER (1..{P1}) }}", lambda v: [v[0] >= 1])
        add(f"parameterized value dummies shadow enumerals [{pn}]", tr + " Ee ::= ENUMERATED { lo, hi }", f"Mm ::= {pn} {{1, {P1}}}", f"Mm ::= SEQUENCE {{ a INTEGER (1..{P1}) }}", lambda v: [v[0] >= 1])
        add(f"parameterized instantiated before and after the template [{pn}]", tv, f"Aa ::= {pn} {{{P1}}} Zz ::= {pn} {{{P1}}}", f"Aa ::= INTEGER (0..{P1}) Zz ::= INTEGER (0..{P1})", nonneg)
    # templates that instantiate other templates; plain type references inside a template
    nest = f"Wrap {{T}} ::= SEQUENCE {{ l Lst {{T}} }} Lst {{U}} ::= SEQUENCE (SIZE (0..{P1})) OF U"
    add("parameterized nested templates, instantiated before and after", nest, "Aa ::= Wrap {BOOLEAN} Zz ::= Wrap {BOOLEAN}",
        f"Aa ::= SEQUENCE {{ l SEQUENCE (SIZE (0..{P1})) OF BOOLEAN }} Zz ::= SEQUENCE {{ l SEQUENCE (SIZE (0..{P1})) OF BOOLEAN }}", nonneg)
    nestv = f"Outer {{INTEGER: n}} ::= SEQUENCE {{ i Inner {{n}} }} Inner {{INTEGER: n}} ::= INTEGER (0..n)"
    add("parameterized nested value templates, instantiated before and after", nestv, f"Aa ::= Outer {{{P1}}} Zz ::= Outer {{{P1}}}", f"Aa ::= SEQUENCE {{ i INTEGER (0..{P1}) }} Zz ::= SEQUENCE {{ i INTEGER (0..{P1}) }}", nonneg)
    add("parameterized template with a plain type reference", f"Other ::= INTEGER (0..{P1}) P {{T}} ::= SEQUENCE {{ o Other, t T }}", "Mm ::= P {BOOLEAN}", "Mm ::= SEQUENCE { o Other, t BOOLEAN }", nonneg)
    # ---- selection types
    for cn in ('C', 'Zc'):
        ch = f"{cn} ::= CHOICE {{ a INTEGER (0..{P1}), b BOOLEAN, c SEQUENCE {{ z NULL }} }}"
        add(f"selection first [{cn}]", ch, f"Mm ::= a < {cn}", f"Mm ::= INTEGER (0..{P1})", nonneg)
        add(f"selection second [{cn}]", ch, f"Mm ::= b < {cn}", "Mm ::= BOOLEAN", nonneg)
        add(f"selection component [{cn}]", ch, f"Mm ::= SEQUENCE {{ s a < {cn}, t NULL }}", f"Mm ::= SEQUENCE {{ s INTEGER (0..{P1}), t NULL }}", nonneg)
    # ---- object class field type naming a fixed-type field
    for cl in ('CLS', 'ZCLS'):
        cd = f"{cl} ::= CLASS {{ &id INTEGER (0..{P1}) UNIQUE, &flag BOOLEAN OPTIONAL, &Type }}"
        add(f"class-field component [{cl}]", cd, f"Mm ::= SEQUENCE {{ i {cl}.&id, f {cl}.&flag OPTIONAL }}", f"Mm ::= SEQUENCE {{ i INTEGER (0..{P1}), f BOOLEAN OPTIONAL }}", nonneg)
        add(f"class-field top-level [{cl}]", cd, f"Mm ::= {cl}.&id", f"Mm ::= INTEGER (0..{P1})", nonneg)
        # a further subtype constraint on the field reference is applied serially to the field's type
        add(f"class-field component with a further constraint [{cl}]", cd, f"Mm ::= SEQUENCE {{ i {cl}.&id (0..3), t NULL }}", f"Mm ::= SEQUENCE {{ i INTEGER (0..{P1}) (0..3), t NULL }}", lambda v: [v[0] >= 3])
        add(f"class-field set component with a further constraint [{cl}]", cd, f"Mm ::= SET {{ i {cl}.&id (2..MAX) }}", f"Mm ::= SET {{ i INTEGER (0..{P1}) (2..MAX) }}", lambda v: [v[0] >= 2])
        add(f"class-field top-level with a further constraint [{cl}]", cd, f"Mm ::= {cl}.&id (1..2)", f"Mm ::= INTEGER (0..{P1}) (1..2)", lambda v: [v[0] >= 2])
    # ---- compositions: the expanded-in part itself contains a reference that has to be linked afterwards
    up = f"upper INTEGER ::= {P1}"
    for cn in ('C', 'Zc'):
        ch = f"{up} {cn} ::= CHOICE {{ a INTEGER (0..upper), b BOOLEAN }}"
        add(f"composed selection of value-ref alternative [{cn}]", ch, f"Mm ::= a < {cn}", f"Mm ::= INTEGER (0..{P1})", nonneg)
        add(f"composed selection of value-ref alternative component [{cn}]", ch, f"Mm ::= SEQUENCE {{ s a < {cn} }}", f"Mm ::= SEQUENCE {{ s INTEGER (0..{P1}) }}", nonneg)
        pr = f"Rr {{INTEGER: v}} ::= INTEGER (1..v) {cn} ::= CHOICE {{ a Rr {{{P1}}}, b BOOLEAN }}"
        add(f"composed selection of parameterized alternative [{cn}]", pr, f"Mm ::= a < {cn}", f"Mm ::= INTEGER (1..{P1})", lambda v: [v[0] >= 1])
    for bn in ('B', 'Zb'):
        b = f"{up} {bn} ::= SEQUENCE {{ x INTEGER (0..upper), y BOOLEAN OPTIONAL }}"
        add(f"composed components-of with value-ref component [{bn}]", b, f"Mm ::= SEQUENCE {{ p NULL, COMPONENTS OF {bn} }}", f"Mm ::= SEQUENCE {{ p NULL, x INTEGER (0..{P1}), y BOOLEAN OPTIONAL }}", nonneg)
        bp = f"Rr {{INTEGER: v}} ::= INTEGER (1..v) {bn} ::= SEQUENCE {{ x Rr {{{P1}}} }}"
        add(f"composed components-of with parameterized component [{bn}]", bp, f"Mm ::= SEQUENCE {{ p NULL, COMPONENTS OF {bn} }}", f"Mm ::= SEQUENCE {{ p NULL, x INTEGER (1..{P1}) }}", lambda v: [v[0] >= 1])
    for cl in ('CLS', 'ZCLS'):
        cd = f"{up} {cl} ::= CLASS {{ &id INTEGER (0..upper) UNIQUE, &Type }}"
        add(f"composed class-field with value-ref [{cl}]", cd, f"Mm ::= SEQUENCE {{ i {cl}.&id }}", f"Mm ::= SEQUENCE {{ i INTEGER (0..{P1}) }}", nonneg)
        add(f"composed class-field with value-ref top-level [{cl}]", cd, f"Mm ::= {cl}.&id", f"Mm ::= INTEGER (0..{P1})", nonneg)
    for pn in ('P', 'Zp'):
        tv = f"{up} {pn} {{INTEGER: v}} ::= INTEGER (0..v)"
        add(f"composed parameterized value-ref argument [{pn}]", tv, f"Mm ::= {pn} {{upper}}", f"Mm ::= INTEGER (0..{P1})", nonneg)
        tt = f"{up} {pn} {{T}} ::= SEQUENCE {{ a T }}"
        add(f"composed parameterized constrained-type argument [{pn}]", tt, f"Mm ::= {pn} {{INTEGER (0..upper)}}", f"Mm ::= SEQUENCE {{ a INTEGER (0..{P1}) }}", nonneg)
    # ---- every notation at every POSITION of a constructed type (the gate predicates and the resolvers of the linker recurse over the
    # containers separately - has_choice_selection_type vs link_choice_selection_type etc. - and must agree on every container kind)
    notations = {
        'selection': (f"Cz ::= CHOICE {{ a INTEGER (0..{P1}), b BOOLEAN }}", "a < Cz", f"INTEGER (0..{P1})"),
        'class-field': (f"CLZ ::= CLASS {{ &id INTEGER (0..{P1}) UNIQUE, &Type }}", "CLZ.&id", f"INTEGER (0..{P1})"),
        'parameterized': ("Pz {INTEGER: v} ::= INTEGER (0..v)", f"Pz {{{P1}}}", f"INTEGER (0..{P1})"),
        'value-ref': (f"upper INTEGER ::= {P1}", "INTEGER (0..upper)", f"INTEGER (0..{P1})"),
    }
    positions = {
        'set component': "Mm ::= SET {{ s {X}, t NULL }}",
        'choice alternative': "Mm ::= CHOICE {{ s {X}, t NULL }}",
        'optional component': "Mm ::= SEQUENCE {{ s {X} OPTIONAL, t NULL }}",
        'sequence-of element': "Mm ::= SEQUENCE OF {X}",
        'set-of element': "Mm ::= SET OF {X}",
        'sequence in sequence': "Mm ::= SEQUENCE {{ i SEQUENCE {{ s {X} }}, t NULL }}",
        'set in sequence': "Mm ::= SEQUENCE {{ i SET {{ s {X} }}, t NULL }}",
        'set in choice': "Mm ::= CHOICE {{ i SET {{ s {X} }}, t NULL }}",
        'choice in set': "Mm ::= SET {{ i CHOICE {{ s {X}, u NULL }}, t NULL }}",
        'sequence-of in sequence': "Mm ::= SEQUENCE {{ i SEQUENCE OF {X}, t NULL }}",
        'set in set-of': "Mm ::= SET OF SET {{ s {X} }}",
    }
    for nn, (common, sug, exp) in notations.items():
        for pn, tpl in positions.items():
            if tier == 'quick' and nn == 'value-ref' and pn in ('optional component', 'sequence in sequence', 'choice alternative'):
                continue        # covered by the value-ref family above
            add(f"position {nn} as {pn}", common, tpl.format(X=sug), tpl.format(X=exp), nonneg)
    # ---- two notations inside ONE definition (each expansion step must leave what the other one still needs)
    for tag_, (cl, bn, cn, pn) in (('a', ('CLS', 'B', 'C', 'P')), ('z', ('ZCLS', 'Zb', 'Zc', 'Zp'))):
        defs = (f"{cl} ::= CLASS {{ &id INTEGER (0..{P1}) UNIQUE, &Type }} {bn} ::= SEQUENCE {{ x INTEGER (0..255), y BOOLEAN }} "
                f"{cn} ::= CHOICE {{ a INTEGER (0..7), b BOOLEAN }} {pn} {{INTEGER: v}} ::= INTEGER (1..v)")
        parts = {'class-field': (f"i {cl}.&id", f"i INTEGER (0..{P1})"), 'components-of': (f"COMPONENTS OF {bn}", "x INTEGER (0..255), y BOOLEAN"),
                 'selection': (f"s a < {cn}", "s INTEGER (0..7)"), 'parameterized': (f"r {pn} {{{P1}}}", f"r INTEGER (1..{P1})")}
        names = list(parts)
        for i1 in range(len(names)):
            for i2 in range(len(names)):
                if i1 == i2:
                    continue
                n1, n2 = names[i1], names[i2]
                if 'components-of' in (n1, n2) and n2 != 'components-of':
                    continue        # COMPONENTS OF not in last position: a known finding of its own (position lost)
                (s1, e1), (s2, e2) = parts[n1], parts[n2]
                add(f"two notations {n1} + {n2} [{tag_}]", defs, f"Mm ::= SEQUENCE {{ {s1}, {s2} }}", f"Mm ::= SEQUENCE {{ {e1}, {e2} }}", lambda v: [v[0] >= 1])
    return out


def jobs(tier, seed):
    return [f"chunk{i}" for i in range(NCHUNK)]


def norm(s):
    return re.sub(r'\s+', ' ', s or '').strip()


def concrete(text, vals):
    return text.replace(str(P1), str(vals[0])).replace(str(P2), str(vals[1]))


def native_differs(runner, pr, vals):
    """(True, description) if the native compiler too gives different bindings / warning counts for the two texts"""
    ra, rb = runner.compile(concrete(pr.sugared, vals)), runner.compile(concrete(pr.expanded, vals))
    if not rb.get('ok'):
        return None, f"expanded form rejected natively: {str(rb)[:200]}"
    if not ra.get('ok'):
        return True, f"sugared form rejected ({str(ra.get('error', ra))[:160]}) while the expanded form compiles"
    wa, wb = len(ra.get('warnings', [])), len(rb.get('warnings', []))
    if wa != wb:
        w = [x.get('display') for x in ra.get('warnings', [])][:1]
        return True, f"{wa} warning(s) {w} for the sugared form, {wb} for the expanded form"
    if norm(ra.get('generated')) != norm(rb.get('generated')):
        a, b = norm(ra.get('generated')), norm(rb.get('generated'))
        i = next((k for k in range(min(len(a), len(b))) if a[k] != b[k]), min(len(a), len(b)))
        return True, f"bindings differ: sugared `..{a[max(0, i - 60):i + 80]}` expanded `..{b[max(0, i - 60):i + 80]}`"
    return False, ''


def run_job(prog_unused, job, tier, seed):
    prog = program(pipe.dump())
    chk = Checker(prog, job)
    chk.ex.max_path_steps = 30000000
    pp = pipe.Pipe(prog)
    runner = native.Runner()
    i = int(job[5:])
    v = [z3.BitVec('p1', 128), z3.BitVec('p2', 128)]
    sub = {P1: v[0], P2: v[1]}
    try:
        for pr in pairs(tier)[i::NCHUNK]:
            sig = f"C09 {pr.role}"
            # both texts must be accepted natively in the first place (otherwise the shape is not in the language)
            def run(ex, pr=pr):
                for c in (pr.assume(v) if pr.assume else []):
                    ex.assume(c)
                ex.ghost['pipe_subst_count'] = 0
                a = pp.compile(ex, pr.sugared, sub)
                na = ex.ghost.get('pipe_subst_count', 0)
                b = pp.compile(ex, pr.expanded, sub)
                return a, b, na, ex.ghost.get('pipe_subst_count', 0) - na
            rs = chk.explore(run)
            for r in rs:
                if r.kind == 'panic':
                    d, what = native_differs(runner, pr, [5, 9])
                    chk.violation(sig + ' panic', f"compilation panics ({r.value[0]}): {pr.sugared}", {'kind': 'pair', 'sugared': concrete(pr.sugared, [5, 9]), 'expanded': concrete(pr.expanded, [5, 9])})
                    continue
                if r.kind != 'ok':
                    continue
                a, b, na, nb = r.value
                if na == 0 or nb == 0:
                    chk.res.inconclusive.append(f"{sig}: placeholder not found in the lexed definitions ({na}, {nb})")
                    continue
                chk.witness('placeholders symbolic', True)
                diff = None
                if a[0] != b[0]:
                    diff = (f"sugared form gives {a[0]}, expanded form gives {b[0]}", None)
                elif a[0] == 'ok':
                    if a[2] != b[2]:
                        diff = (f"{a[2]} warning(s) for the sugared form, {b[2]} for the expanded form", None)
                    else:
                        d = pipe.texts_equal(chk, r.pc, a[1], b[1])
                        if d is not None:
                            pos, m = d
                            diff = (f"bindings differ at offset {pos}: sugared `..{pipe.text_repr(a[1][max(0, pos - 60):pos + 60])}` expanded `..{pipe.text_repr(b[1][max(0, pos - 60):pos + 60])}`", m)
                chk.res.obligations += 1
                if diff is None:
                    chk.res.discharged += 1
                    continue
                msg, m = diff
                if m is None:
                    m = chk.model_of(r.pc) if hasattr(chk, 'model_of') else None
                vals = [model_int(m, x, True) if m is not None else d0 for x, d0 in zip(v, (5, 9))]
                d, what = native_differs(runner, pr, vals)
                if d:
                    chk.violation(sig, f"{what} [values {vals[:pr.nvars]}]: {concrete(pr.sugared, vals)}",
                                  {'kind': 'pair', 'sugared': concrete(pr.sugared, vals), 'expanded': concrete(pr.expanded, vals)})
                elif d is None:
                    chk.res.notes.append(f"{sig}: {what}")
                else:
                    chk.res.inconclusive.append(f"not reproduced natively: {sig}: {msg[:300]}")
            chk.sample({'pair': pr.role, 'sugared': pr.sugared[:200]})
    finally:
        runner.close()
    chk.res.bounds = {'placeholders': '1-2 integers, 128-bit symbolic', 'pairs': len(pairs(tier)), 'chain depth': '<= 3 (4)'}
    return chk.res


def replay_file(path):
    import json
    d = json.load(open(path))
    rp = d.get('replay', d)
    runner = native.Runner()
    try:
        ra, rb = runner.compile(rp['sugared']), runner.compile(rp['expanded'])
    finally:
        runner.close()
    same = ra.get('ok') and rb.get('ok') and norm(ra.get('generated')) == norm(rb.get('generated')) and len(ra.get('warnings', [])) == len(rb.get('warnings', []))
    print('sugared :', norm(ra.get('generated'))[-400:] if ra.get('ok') else ra)
    print('expanded:', norm(rb.get('generated'))[-400:] if rb.get('ok') else rb)
    print('REPRODUCED' if not same else 'not reproduced')
    return 1 if not same else 0
