"""C13  Whitespace, line endings and comments between tokens do not matter (scanners + whole lexer on fixed modules)."""
import itertools, z3
from mirsym.core import *
from mirsym import native
from mirsym.harness import Checker, model_int
from . import scan
from .scan import ALPHABET, in_alphabet, mk_input, ref_skip, parse_outcome

ROOTS = list(scan.ROOTS)
ASSUMPTIONS = [
    "claimed for the scanners only: skip_ws_and_comments (through the non-generic parsers extension_marker / assignment / optional_comma), line_comment and block_comment are executed from real MIR - nom's generic combinators included - on every string of <= 4 (thorough 5) symbolic characters over {space, tab, LF, CR, '-', '/', '*', 'a', double quote} (plus a concrete 2-byte character in comments); the reference is an independent z3 automaton for X.680 12.6",
    "that every one of the several hundred combinator call sites of the lexer wraps its tokens in skip_ws_and_comments is not decided (character-level whole-grammar parsing is out of reach); a native job re-lays-out a fixed set of modules token boundary by token boundary as a concrete complement",
    "nom's leaf impls for &str are modelled (no MIR for non-generic dependency functions)",
    "whole lexer (jobs lexer-*): lexer::asn_module runs from real MIR (dump of /verif/pipe-harness) on 4 fixed module texts; at every token boundary (each white-space gap and each zero-width position next to punctuation) a filler with symbolic characters is put - 1 (2) white-space characters over {space, tab, LF, CR}; ` --c1c2 LF`; ` --c1-- `; `/*c1c2*/` with c over {a, space, double quote, {, -, *, /, E, e-acute}, constrained by the X.680 12.6 automaton to be entirely white-space and comments - and the parsed (header, definitions) value must equal the baseline value except for `comments` fields, on every path; differences are confirmed natively",
]


def jobs(tier, seed):
    L = 4 if tier == 'quick' else 5
    js = []
    for k in ('marker', 'assign', 'comma'):
        for n in range(0, L + 1):
            js.append(f"skip-{k}-{n}")
    for n in range(0, L + 1):
        js += [f"line-{n}", f"block-{n}"]
    nl = 8 if tier == "quick" else 16
    for m in range(len(LEX_MODULES)):
        for k in range(nl):
            js.append(f"lexer-{m}-{k}of{nl}")
    nf = 16 if tier == 'quick' else 32
    js += [f"frag-{k}of{nf}" for k in range(nf)]
    return js + ['native']


TOKEN = {'marker': ('...', scan.EXT_MARKER), 'assign': ('::=', scan.ASSIGNMENT), 'comma': (',', scan.OPT_COMMA)}


def job_skip(prog, chk, kind, n, tier):
    tok, root = TOKEN[kind]
    fn = prog.find(root)
    input_ty = prog.inst[fn]['locals'][1]
    w = [z3.BitVec(f"w{i}", 32) for i in range(n)]
    tail = [ord(c) for c in tok]
    pos, unterminated = ref_skip(w + tail)

    def run(ex):
        for c in w:
            ex.assume(in_alphabet(c))
        return ex.call(fn, [mk_input(ex, prog, input_ty, w + tail)])
    chk.ex.max_path_steps = 300000
    for r in chk.explore(run):
        def cex(m):
            return ''.join(chr(model_int(m, c, False)) for c in w) + tok
        if r.kind == 'panic':
            s = z3.Solver()
            for c in r.pc:
                s.add(c)
            if s.check() == z3.sat:
                report(chk, f"C13 skip-{kind} panic", f"scanner panics: {r.value[0]}", cex(s.model()), kind)
            continue
        if r.kind != 'ok':
            continue
        out = parse_outcome(chk.ex, prog, r.value)
        if kind == 'comma':
            # optional_comma always succeeds: the comma is consumed iff skipping reaches it
            from mirsym.refsem import IR
            consumed = out[0] == 'ok' and IR(chk.ex).opt(out[2]) is not None
            want = z3.And(z3.Not(unterminated), pos == n)
        else:
            consumed = out[0] == 'ok' and len(out[1]) == 0
            want = z3.And(z3.Not(unterminated), pos == n)
        m = chk.holds(r.pc, want == z3.BoolVal(consumed), f'skip-{kind}')
        if m:
            report(chk, f"C13 skip-{kind} n={n}", f"token after white-space/comments {'found' if consumed else 'not found'}, X.680 12.6 says {'not ' if consumed else ''}reachable", cex(m), kind)
        chk.witness('comment skipped', consumed and n >= 4)
        chk.witness('token hidden in a comment', (not consumed) and n >= 2)
    chk.sample({'kernel': root, 'prefix_len': n, 'token': tok})
    chk.res.bounds = {'prefix_chars': n, 'alphabet': "space tab LF CR - / * a"}


def report(chk, sig, what, text, kind):
    """confirm through the public API: the same layout in front of the corresponding token of a module"""
    w = text[:-len(TOKEN[kind][0])] if kind in TOKEN else text
    if kind == 'marker':
        mod = f"M DEFINITIONS ::= BEGIN T ::= SEQUENCE {{ a BOOLEAN, {w}... }} END"
        plain = "M DEFINITIONS ::= BEGIN T ::= SEQUENCE { a BOOLEAN, ... } END"
    elif kind == 'assign':
        mod = f"M DEFINITIONS ::= BEGIN T {w}::= BOOLEAN END"
        plain = "M DEFINITIONS ::= BEGIN T ::= BOOLEAN END"
    else:
        mod = f"M DEFINITIONS ::= BEGIN T ::= SEQUENCE {{ a BOOLEAN {w}, b NULL }} END"
        plain = "M DEFINITIONS ::= BEGIN T ::= SEQUENCE { a BOOLEAN , b NULL } END"
    runner = native.Runner()
    try:
        a = runner.compile(mod)
        b = runner.compile(plain)
    finally:
        runner.close()
    if a.get('panic') or a.get('crash') is not None or a.get('hang'):
        chk.violation(sig, f"{what}: {mod!r}: native {str(a)[:120]}", {'kind': 'text', 'text': mod})
        return
    pos, unt = scan.ref_skip_py(w + TOKEN[kind][0])
    should = (not unt) and pos == len(w)
    same = a.get('ok') == b.get('ok') and (not a.get('ok') or strip_doc(a['generated']) == strip_doc(b['generated']))
    if should and not same:
        chk.violation(sig, f"{what}: re-layout {w!r} changes the outcome: {mod!r}", {'kind': 'text', 'text': mod})
    elif not should and a.get('ok') and same:
        # the layout hides the token (e.g. inside a comment) but the module still compiles identically: harmless for this module
        chk.res.notes.append(f"{sig}: not observable through the public API for {w!r}")
        chk.res.inconclusive.append(f"kernel counterexample not reproduced natively: {sig} {w!r}")
    else:
        chk.res.inconclusive.append(f"kernel counterexample not reproduced natively: {sig} {w!r}")


def strip_doc(g):
    import re
    return re.sub(r'# \[doc = "(?:[^"\\]|\\.)*"\] ', '', g)


def job_line(prog, chk, n, tier):
    fn = prog.find(scan.LINE_COMMENT)
    input_ty = prog.inst[fn]['locals'][1]
    w = [z3.BitVec(f"w{i}", 32) for i in range(n)]

    def run(ex):
        for c in w:
            ex.assume(in_alphabet(c))
        return ex.call(fn, [mk_input(ex, prog, input_ty, [45, 45] + w)])
    for r in chk.explore(run):
        if r.kind == 'panic':
            chk.violation(f"C13 line_comment panic n={n}", f"{r.value[0]}", {'kind': 'kernel'})
            continue
        if r.kind != 'ok':
            continue
        out = parse_outcome(chk.ex, prog, r.value)
        if out[0] != 'ok':
            chk.violation(f"C13 line_comment error n={n}", "line_comment fails on text starting with '--'", {'kind': 'kernel'})
            continue
        rest = out[1]
        k = n - len(rest)       # characters of w consumed (incl. a closing "--")
        # reference: the comment body ends at the first LF or at the first "--"; LF is not consumed, "--" is
        conds = []
        for e in range(0, n + 1):          # e = index in w where the body ends
            no_end_before = z3.And([z3.And(w[i] != 10, z3.Not(z3.And(w[i] == 45, w[i + 1] == 45)) if i + 1 < n else z3.BoolVal(True)) for i in range(e)]) if e else z3.BoolVal(True)
            if e == n:
                conds.append(z3.And(no_end_before, z3.BoolVal(k == n)))
            else:
                at_nl = w[e] == 10
                at_dd = z3.And(w[e] == 45, w[e + 1] == 45) if e + 1 < n else z3.BoolVal(False)
                conds.append(z3.And(no_end_before, z3.Or(z3.And(at_nl, z3.BoolVal(k == e)), z3.And(z3.Not(at_nl), at_dd, z3.BoolVal(k == e + 2)))))
        m = chk.holds(r.pc, z3.Or(conds), 'line-comment-extent')
        if m:
            s = ''.join(chr(model_int(m, c, False)) for c in w)
            chk.violation(f"C13 line_comment extent n={n}", f"'--{s}': comment consumes {k} characters, X.680 12.6.3 says it ends at the next '--' or at the end of line", {'kind': 'kernel', 'text': '--' + s})
    chk.sample({'kernel': scan.LINE_COMMENT, 'len': n})


def job_block(prog, chk, n, tier):
    fn = prog.find(scan.BLOCK_COMMENT)
    input_ty = prog.inst[fn]['locals'][1]
    w = [z3.BitVec(f"w{i}", 32) for i in range(n)]
    alphabet = [47, 42, 97, 10, 34]

    def run(ex):
        for c in w:
            ex.assume(in_alphabet(c, alphabet))
        return ex.call(fn, [mk_input(ex, prog, input_ty, [47, 42] + w)])
    # reference: nesting depth automaton over "/*" and "*/" pairs (X.680 12.6.4)
    for r in chk.explore(run):
        if r.kind == 'panic':
            s = z3.Solver()
            for c in r.pc:
                s.add(c)
            txt = ''
            if s.check() == z3.sat:
                txt = ''.join(chr(model_int(s.model(), c, False)) for c in w)
            chk.violation(f"C13 block_comment panic", f"block_comment panics on '/*{txt}': {r.value[0]}", {'kind': 'text', 'text': f"M DEFINITIONS ::= BEGIN T ::= BOOLEAN /*{txt}"})
            continue
        if r.kind != 'ok':
            continue
        out = parse_outcome(chk.ex, prog, r.value)
        consumed = (n - len(out[1])) if out[0] == 'ok' else None
        # reference end position by scanning pairs
        conds = []
        depth = z3.IntVal(1)
        done = z3.BoolVal(False)
        endpos = z3.IntVal(-1)
        skip = z3.BoolVal(False)
        for i in range(n):
            opening = z3.And(w[i] == 47, w[i + 1] == 42) if i + 1 < n else z3.BoolVal(False)
            closing = z3.And(w[i] == 42, w[i + 1] == 47) if i + 1 < n else z3.BoolVal(False)
            active = z3.And(z3.Not(done), z3.Not(skip))
            ndepth = z3.If(z3.And(active, opening), depth + 1, z3.If(z3.And(active, closing), depth - 1, depth))
            fin = z3.And(active, closing, depth == 1)
            endpos = z3.If(fin, z3.IntVal(i + 2), endpos)
            done = z3.Or(done, fin)
            skip = z3.And(active, z3.Or(opening, closing))
            depth = ndepth
        want_ok = done
        if consumed is None:
            prop = z3.Not(want_ok)
        else:
            prop = z3.And(want_ok, endpos == consumed)
        m = chk.holds(r.pc, prop, 'block-comment-extent')
        if m:
            s = ''.join(chr(model_int(m, c, False)) for c in w)
            chk.violation(f"C13 block_comment extent n={n}", f"'/*{s}': {'consumes ' + str(consumed) if consumed is not None else 'rejected'}, nesting per X.680 12.6.4 says otherwise", {'kind': 'kernel', 'text': '/*' + s})
        chk.witness('block comment closed', consumed is not None)
        chk.witness('block comment left open', consumed is None)
    chk.sample({'kernel': scan.BLOCK_COMMENT, 'len': n})


def job_native(prog, chk, tier, seed):
    """concrete complement: every token boundary of a few modules re-laid-out with each whitespace / comment form"""
    import re, random
    rnd = random.Random(seed)
    runner = native.Runner()
    mods = ["M DEFINITIONS AUTOMATIC TAGS ::= BEGIN A ::= SEQUENCE { a INTEGER (0..5) OPTIONAL, b BOOLEAN DEFAULT TRUE, ..., c NULL } B ::= CHOICE { x A, y [3] IMPLICIT OCTET STRING (SIZE (4)) } v INTEGER ::= 5 E ::= ENUMERATED { p(1), q, ..., r } s UTF8String ::= \"x\" END"]
    fillers = [' ', '\t', '\n', '\r\n', '  \n ', ' -- c\n', ' -- c -- ', ' /* c */ ', ' /* a /* b */ c */ ', ' -- "{ END é\n', '/* -- */', ' /* 3.5" */ ', ' /* "a" */ ']
    try:
        for mod in mods:
            base = runner.compile(mod)
            toks = [m.span() for m in re.finditer(r'\S+', mod)]
            bounds = [e for _, e in toks[:-1]]
            pick = bounds if tier != 'quick' else rnd.sample(bounds, 14)
            for b in pick:
                for fl in (fillers if tier != 'quick' else rnd.sample(fillers, 5)):
                    t = mod[:b] + fl + mod[b + 1:]
                    out = runner.compile(t)
                    chk.res.obligations += 1
                    same = out.get('ok') == base.get('ok') and (not out.get('ok') or strip_doc(out['generated']) == strip_doc(base['generated']))
                    if same:
                        chk.res.discharged += 1
                        chk.res.diff_ok += 1
                    else:
                        left = mod[:b].split()[-1]
                        right = mod[b + 1:].split()[0]
                        chk.violation(f"C13 native relayout between '{left}' and '{right}' with {'comment' if ('--' in fl or '/*' in fl) else 'white-space'}", f"replacing the white-space at offset {b} by {fl!r} changes the outcome: {t!r}", {'kind': 'text', 'text': t})
        chk.sample({'native_relayouts': chk.res.obligations})
    finally:
        runner.close()


# ---- whole lexer on fixed modules ------------------------------------------------------------------------------------
LEX_MODULES = [
    "M DEFINITIONS AUTOMATIC TAGS ::= BEGIN A ::= SEQUENCE { a INTEGER (0..5) OPTIONAL, b BOOLEAN DEFAULT TRUE, ..., c NULL } END",
    "M DEFINITIONS ::= BEGIN IMPORTS T FROM N; B ::= CHOICE { x T, y [3] IMPLICIT OCTET STRING (SIZE (4)) } v INTEGER ::= 5 END",
    "M DEFINITIONS EXPLICIT TAGS ::= BEGIN E ::= ENUMERATED { p(1), q, ..., r } L ::= SEQUENCE OF E s UTF8String ::= \"x\" END",
    # constraints: extension markers and additions, SIZE, unions, nested parentheses, value references, named numbers
    "M DEFINITIONS ::= BEGIN W ::= INTEGER (0..7, ..., 8 | 9) N ::= IA5String (SIZE (4, ...)) END",
]
WS = [32, 9, 10, 13]
CALPHA = [97, 32, 34, 123, 45, 42, 47, 69, 0xE9]
ASN_MODULE = 'rasn_compiler::lexer::asn_module'


def prepare():
    from mirsym import pipe
    pipe.dump()


PUNCT_MORE = False   # the fragment jobs also split next to  : | ^ <  (set while their work lists are built)


def boundaries(mod):
    """(position, width): width 1 = replace the single space at position; width 0 = insert at position"""
    import re
    out = []
    for m in re.finditer(r' ', mod):
        out.append((m.start(), 1))
    instr = False
    for i, ch in enumerate(mod):
        if ch == '"':
            instr = not instr
        if instr or i == 0:
            continue
        prev = mod[i - 1]
        if prev == ' ' or ch == ' ':
            continue
        # zero-width positions between two tokens that stay separable: next to one-character punctuation
        pair = prev + ch
        if pair in ('::', ':=', '..', '[[', ']]'):
            continue
        if prev in '{}(),;[]' or ch in '{}(),;[]':
            out.append((i, 0))
        elif PUNCT_MORE and (prev in ':|^<' or ch in ':|^<'):
            out.append((i, 0))
    return out


def templates(tier):
    t = [('ws1', lambda c: [c[0]], 1, 'ws'), ('line', lambda c: [32, 45, 45, c[0], c[1], 10], 2, 'c'), ('block', lambda c: [47, 42, c[0], c[1], 42, 47], 2, 'c'),
         ('inline', lambda c: [32, 45, 45, c[0], 45, 45, 32], 1, 'c')]
    if tier != 'quick':
        t.append(('ws2', lambda c: [c[0], c[1]], 2, 'ws'))
        t.append(('tight-line', lambda c: [45, 45, c[0], 10], 1, 'c'))
        t.append(('tight-inline', lambda c: [45, 45, c[0], 45, 45], 1, 'c'))
    return t


# quick tier: white-space at every boundary plus ONE comment form per boundary (rotating), each with one symbolic character
QUICK_COMMENTS = [('block', lambda c: [47, 42, c[0], 42, 47], 1, 'c'), ('line', lambda c: [32, 45, 45, c[0], 10], 1, 'c'), ('inline', lambda c: [32, 45, 45, c[0], 45, 45, 32], 1, 'c'),
                  ('tight-line', lambda c: [45, 45, c[0], 10], 1, 'c'), ('tight-inline', lambda c: [45, 45, c[0], 45, 45], 1, 'c')]


def job_lexer(prog, chk, mi, k, n, tier):
    from mirsym import pipe
    fn = prog.find(ASN_MODULE)
    input_ty = prog.inst[fn]['locals'][1]
    mod = LEX_MODULES[mi]
    chk.ex.max_path_steps = 5000000

    def parsed(ex, res):
        ir = scan.IR(ex)
        r = ir.f(res)
        if ir.vn(r) != 'Ok':
            return ('err', None)
        return ('ok', ir.f(r.fields[0]).fields[1])
    base = chk.explore(lambda ex: parsed(ex, ex.call(fn, [mk_input(ex, prog, input_ty, [ord(c) for c in mod])])))
    if len(base) != 1 or base[0].kind != 'ok' or base[0].value[0] != 'ok':
        chk.res.inconclusive.append(f"baseline parse of module {mi}: {[(r.kind, str(r.value)[:200]) for r in base[:2]]}")
        return
    bval = base[0].value[1]
    runner = native.Runner()
    nbase = runner.compile(mod)
    bs = boundaries(mod)
    work = [(b, t) for b in bs for t in templates(tier)]
    # quick: white-space at every boundary, comment templates at every third boundary
    if tier == 'quick':
        work = []
        for j, b in enumerate(bs):
            work.append((b, templates(tier)[0]))
            work.append((b, QUICK_COMMENTS[(j + mi) % len(QUICK_COMMENTS)]))
    try:
        for (pos, width), (tname, mk, nsym, alpha) in work[k::n]:
            cs = [z3.BitVec(f"c{i}", 32) for i in range(nsym)]
            filler = mk(cs)
            chars = [ord(c) for c in mod[:pos]] + filler + [ord(c) for c in mod[pos + width:]]
            skipped, unterminated = ref_skip(filler + [88])
            left, right = mod[:pos].split()[-1][-8:], mod[pos + width:].split()[0][:8]
            sig = f"C13 lexer module {mi} {tname} between '{left}' and '{right}'"

            def run(ex, cs=cs, chars=chars, alpha=alpha):
                for c in cs:
                    ex.assume(z3.Or([c == a for a in (WS if alpha == 'ws' else CALPHA)]))
                ex.assume(z3.And(skipped == len(filler), z3.Not(unterminated)))
                return parsed(ex, ex.call(fn, [mk_input(ex, prog, input_ty, chars)]))
            for r in chk.explore(run):
                if r.kind != 'ok':
                    if r.kind == 'panic':
                        chk.violation(sig + ' panic', f"lexer panics: {r.value[0]}", {'kind': 'text', 'text': mod})
                    continue
                chk.res.obligations += 1
                d = 'parse error' if r.value[0] != 'ok' else pipe.values_differ(prog, bval, r.value[1])
                if d is None:
                    chk.res.discharged += 1
                    continue
                m = chk.model_of(r.pc)
                fl = ''.join(chr(model_int(m, c, False)) if not isinstance(c, int) else chr(c) for c in filler) if m is not None else None
                text = mod[:pos] + (fl or '') + mod[pos + width:]
                out = runner.compile(text)
                same = out.get('ok') == nbase.get('ok') and (not out.get('ok') or strip_doc(out['generated']) == strip_doc(nbase['generated']))
                if not same:
                    chk.violation(sig, f"filler {fl!r} at offset {pos} changes the outcome ({d}): {text!r}", {'kind': 'text', 'text': text})
                else:
                    chk.res.inconclusive.append(f"not reproduced natively: {sig}: {d} with {fl!r}")
            chk.witness('lexer boundary explored', True)
        chk.sample({'module': mi, 'boundaries': len(bs), 'work_items': len(work[k::n])})
    finally:
        runner.close()
    chk.res.bounds = {'modules': len(LEX_MODULES), 'filler': 'ws1, line(2), block(2), inline(1) [+ws2]', 'boundaries': len(bs)}


# ---- fragment jobs: the parsers of single assignments run from real MIR on one assignment each, so that the constructs
# the four fixed modules do not contain get the same treatment (a filler with symbolic characters at every token boundary)
TYPE_DECL = 'rasn_compiler::lexer::top_level_type_declaration'
VALUE_DECL = 'rasn_compiler::lexer::top_level_value_declaration'
INFO_DECL = 'rasn_compiler::lexer::top_level_information_declaration'
CLASS_DECL = 'rasn_compiler::lexer::information_object_class::object_class_assignement'
HEADER = 'rasn_compiler::lexer::module_header::module_header'
MACRO_DECL = 'rasn_compiler::lexer::macros::macro_definition'
FRAGMENTS = [
    (TYPE_DECL, "T ::= BIT STRING { a(0), b(1) } (SIZE (2))"),
    (TYPE_DECL, "T ::= INTEGER { a(1), b(-2) } (a..b)"),
    (TYPE_DECL, "T ::= SET { a [0] EXPLICIT Tt, COMPONENTS OF B, ..., c NULL }"),
    (TYPE_DECL, "T ::= SEQUENCE { a Tt, ..., [[ 2: c NULL, d Tt OPTIONAL ]] }"),
    (TYPE_DECL, "T ::= SEQUENCE (SIZE (1..4)) OF b BOOLEAN"),
    (TYPE_DECL, "T ::= SET SIZE (1) OF Mm.Tt"),
    (TYPE_DECL, "T ::= CHOICE { a NULL, ..., [[ b INTEGER ]] }"),
    (TYPE_DECL, "T ::= OCTET STRING (CONTAINING Tt)"),
    (TYPE_DECL, "T ::= Base (WITH COMPONENTS { ..., a (0) PRESENT, b ABSENT })"),
    (TYPE_DECL, "T ::= SEQUENCE OF Ee (WITH COMPONENT (SIZE (2)))"),
    (TYPE_DECL, "T ::= VisibleString (FROM (\"a\"..\"z\" | \"0\") ^ SIZE (1..MAX))"),
    (TYPE_DECL, "T ::= UTF8String (PATTERN \"ab\")"),
    (TYPE_DECL, "T ::= INTEGER (ALL EXCEPT 5)"),
    (TYPE_DECL, "T ::= INTEGER (0..5 UNION 7 INTERSECTION 8)"),
    (TYPE_DECL, "T ::= INTEGER (MIN..<MAX)"),
    (TYPE_DECL, "T ::= INTEGER (0..5) (2..3)"),
    (TYPE_DECL, "T ::= [APPLICATION 3] IMPLICIT SEQUENCE {}"),
    (TYPE_DECL, "T {INTEGER: n, Tp} ::= SEQUENCE { a Tp (SIZE (n)) }"),
    (TYPE_DECL, "T ::= Pp {5, BOOLEAN}"),
    (TYPE_DECL, "T ::= a < Cc"),
    (TYPE_DECL, "T ::= SEQUENCE { id CL.&id ({Set}), v CL.&Vv ({Set}{@id}) }"),
    (TYPE_DECL, "T ::= OBJECT IDENTIFIER"),
    (TYPE_DECL, "T ::= RELATIVE-OID"),
    (TYPE_DECL, "T ::= ANY DEFINED BY a"),
    (TYPE_DECL, "T ::= EMBEDDED PDV"),
    (TYPE_DECL, "T ::= EXTERNAL"),
    (TYPE_DECL, "T ::= REAL (0..5)"),
    (TYPE_DECL, "T ::= GeneralizedTime"),
    (TYPE_DECL, "T ::= SEQUENCE { a INTEGER (0..5) DEFAULT 2, b [1] Tt OPTIONAL }"),
    (VALUE_DECL, "v BIT STRING ::= '0101'B"),
    (VALUE_DECL, "v OCTET STRING ::= 'AB'H"),
    (VALUE_DECL, "v Tt ::= { a 1, b TRUE }"),
    (VALUE_DECL, "v Tt ::= a:5"),
    (VALUE_DECL, "v Tt ::= a:b:TRUE"),
    (VALUE_DECL, "v OBJECT IDENTIFIER ::= { iso standard 8571 a(1) }"),
    (VALUE_DECL, "v REAL ::= { mantissa 1, base 2, exponent 3 }"),
    (VALUE_DECL, "v Tt ::= { a, b }"),
    (VALUE_DECL, "v INTEGER ::= -5"),
    (VALUE_DECL, "v Mm.Tt ::= other"),
    (VALUE_DECL, "v Tt ::= { 1, 2 }"),
    (VALUE_DECL, "v UTF8String ::= { 0, 0, 1, 2 }"),
    (VALUE_DECL, "v INTEGER (0..5) ::= 3"),
    (CLASS_DECL, "CL ::= CLASS { &id INTEGER UNIQUE, &Type OPTIONAL, &val Tt DEFAULT 5 } WITH SYNTAX { ID &id [TYPE &Type] }"),
    (INFO_DECL, "o CL ::= { ID 5 TYPE BOOLEAN }"),
    (INFO_DECL, "o CL ::= { &id 5, &Type INTEGER }"),
    (INFO_DECL, "Ss CL ::= { o1 | o2, ... }"),
    (HEADER, "Mm { iso(1) a(2) } DEFINITIONS IMPLICIT TAGS EXTENSIBILITY IMPLIED ::= BEGIN EXPORTS ALL; IMPORTS A, b FROM Nn { 1 2 } c FROM Oo WITH SUCCESSORS;"),
    (HEADER, "Mm DEFINITIONS ::= BEGIN EXPORTS A, b; IMPORTS Aa{}, CL FROM Nn;"),
    (MACRO_DECL, "OP MACRO ::= BEGIN TYPE NOTATION ::= \"X\" VALUE NOTATION ::= value (VALUE INTEGER) END"),
]
FRAG_TAIL = " Zz"


# the last two start and end directly at the neighbouring tokens (`low--x--..8`): `--` cannot be part of a name
CMT_FORMS = [[47, 42, 120, 42, 47], [32, 45, 45, 120, 10], [32, 45, 45, 120, 45, 45, 32], [45, 45, 120, 10], [45, 45, 120, 45, 45]]


def frag_work(tier):
    """quick: per fragment five runs that put a filler at EVERY token boundary at once - one symbolic white-space character over
    {space, tab, CR} per boundary (all 3^k assignments are decided on ONE path: the character predicates are summarised into one
    term each, core.summarize_bool; LF is kept apart because the line counter of Input::slice forks on it), LF at every boundary,
    and the three comment forms rotating over the boundaries;
    thorough: additionally every (boundary, template) pair on its own with symbolic comment bodies"""
    work = []
    global PUNCT_MORE
    PUNCT_MORE = True
    for fi, (entry, text) in enumerate(FRAGMENTS):
        for mode in ('wsall', 'lfall', 'cmt0', 'cmt1', 'cmt2', 'cmt3', 'cmt4'):
            work.append((fi, None, mode))
        if tier != 'quick':
            for b in boundaries(text):
                for t in templates(tier):
                    work.append((fi, b, t))
    return work


def job_frag(prog, chk, k, n, tier):
    from mirsym import pipe
    chk.ex.max_path_steps = 5000000
    runner = native.Runner()
    base = {}

    def parsed(ex, res):
        ir = scan.IR(ex)
        r = ir.f(res)
        if ir.vn(r) != 'Ok':
            return ('err', None, None)
        t = ir.f(r.fields[0])
        rest = ir.f(t.fields[0])
        inner = [f for f in rest.fields if isinstance(f, (StrRef, StringV))]
        return ('ok', t.fields[1], len(inner[0].chars) if inner else None)

    def wrap(text):
        return f"M DEFINITIONS ::= BEGIN {text} END"
    try:
        for fi, bnd, tmpl in frag_work(tier)[k::n]:
            entry, text = FRAGMENTS[fi]
            fn = prog.find(entry)
            input_ty = prog.inst[fn]['locals'][1]
            full = text + FRAG_TAIL
            if fi not in base:
                b = chk.explore(lambda ex: parsed(ex, ex.call(fn, [mk_input(ex, prog, input_ty, [ord(c) for c in full])])))
                if len(b) != 1 or b[0].kind != 'ok' or b[0].value[0] != 'ok':
                    # the fragment as written is not accepted: nothing to compare with (recorded, not a verdict)
                    base[fi] = None
                    chk.res.inconclusive.append(f"baseline parse of fragment {fi} {text!r}: {[(r.kind, str(r.value)[:160]) for r in b[:2]]}")
                else:
                    base[fi] = b[0].value
            if base[fi] is None:
                continue
            bval, brest = base[fi][1], base[fi][2]
            # pieces: list of (literal text | filler list) making up the modified fragment
            cs, pieces, constraints = [], [], []
            if bnd is None:
                bs = sorted(b for b in boundaries(text))
                last = 0
                for j, (pos, width) in enumerate(bs):
                    pieces.append(full[last:pos])
                    if tmpl == 'wsall':
                        c = z3.BitVec(f"w{j}", 32)
                        cs.append((c, 'ws3'))
                        pieces.append([c])
                    elif tmpl == 'lfall':
                        pieces.append([10])
                    else:
                        pieces.append(list(CMT_FORMS[(j + int(tmpl[3])) % len(CMT_FORMS)]))
                    last = pos + width
                pieces.append(full[last:])
                where = f"{tmpl} at all {len(bs)} boundaries"
            else:
                (pos, width), (tname, mk, nsym, alpha) = bnd, tmpl
                syms = [z3.BitVec(f"c{i}", 32) for i in range(nsym)]
                cs = [(c, alpha) for c in syms]
                pieces = [full[:pos], mk(syms), full[pos + width:]]
                left, right = full[:pos].split()[-1][-8:], full[pos + width:].split()[0][:8]
                where = f"{tname} between '{left}' and '{right}'"
            chars = []
            for pc_ in pieces:
                if isinstance(pc_, str):
                    chars += [ord(c) for c in pc_]
                else:
                    chars += pc_
                    skipped, unterminated = ref_skip(pc_ + [88])
                    constraints.append(z3.And(skipped == len(pc_), z3.Not(unterminated)))
            sig = f"C13 fragment {text.split('::=')[0].strip()[:10]}::={text.split('::=', 1)[1][:24] if '::=' in text else ''} {where}"

            def run(ex, cs=cs, chars=chars, fn=fn, input_ty=input_ty, constraints=constraints):
                for c, alpha in cs:
                    ex.assume(z3.Or([c == a for a in ((32, 9, 13) if alpha == 'ws3' else WS if alpha == 'ws' else CALPHA)]))
                for cst in constraints:
                    ex.assume(cst)
                return parsed(ex, ex.call(fn, [mk_input(ex, prog, input_ty, chars)]))
            for r in chk.explore(run):
                if r.kind != 'ok':
                    if r.kind == 'panic':
                        chk.violation(sig + ' panic', f"lexer panics: {r.value[0]}", {'kind': 'text', 'text': wrap(text)})
                    continue
                chk.res.obligations += 1
                if r.value[0] != 'ok':
                    d = 'parse error'
                elif r.value[2] != brest:
                    d = f'stopped {r.value[2]} instead of {brest} characters before the end'
                else:
                    d = pipe.values_differ(prog, bval, r.value[1])
                if d is None:
                    chk.res.discharged += 1
                    continue
                m = chk.model_of(r.pc)
                if m is None:
                    chk.res.inconclusive.append(f"no model: {sig}")
                    continue
                ftext = ''.join(pc_ if isinstance(pc_, str) else ''.join(chr(model_int(m, c, False)) if not isinstance(c, int) else chr(c) for c in pc_) for pc_ in pieces)
                ftext = ftext[:len(ftext) - len(FRAG_TAIL)]
                same = True
                for be in ('ir', 'rasn'):
                    o1, o2 = runner.compile(wrap(text), backend=be), runner.compile(wrap(ftext), backend=be)
                    if o1.get('ok') != o2.get('ok'):
                        same = False
                    elif o1.get('ok'):
                        if be == 'ir':
                            same = same and strip_comments_ir(o1.get('ir')) == strip_comments_ir(o2.get('ir'))
                        else:
                            same = same and strip_doc(o1['generated']) == strip_doc(o2['generated']) and len(o1['warnings']) == len(o2['warnings'])
                if not same:
                    chk.violation(sig, f"white-space / comments between tokens change the outcome ({d}): {ftext!r}", {'kind': 'text', 'text': wrap(ftext)})
                else:
                    chk.res.inconclusive.append(f"not reproduced natively: {sig}: {d} with {ftext!r}")
            chk.witness('fragment boundary explored', True)
    finally:
        runner.close()
    chk.res.bounds = {'fragments': len(FRAGMENTS), 'filler': 'quick: a symbolic white-space character at every boundary at once + 3 rotations of concrete comment forms; thorough: + every (boundary, template) pair', 'work_items': len(frag_work(tier))}


def strip_comments_ir(ir):
    import re
    return re.sub(r'comments: "(?:[^"\\]|\\.)*"', 'comments: _', json_str(ir))


def json_str(x):
    import json
    return json.dumps(x, sort_keys=True)


def run_job(prog, job, tier, seed):
    p = job.split('-')
    if p[0] == 'lexer':
        from mirsym import pipe
        from mirsym.harness import program
        pprog = program(pipe.dump())
        chk = Checker(pprog, job)
        k, n = p[2].split('of')
        job_lexer(pprog, chk, int(p[1]), int(k), int(n), tier)
        return chk.res
    if p[0] == 'frag':
        from mirsym import pipe
        from mirsym.harness import program
        pprog = program(pipe.dump())
        chk = Checker(pprog, job)
        k, n = p[1].split('of')
        job_frag(pprog, chk, int(k), int(n), tier)
        return chk.res
    chk = Checker(prog, job)
    if p[0] == 'skip':
        job_skip(prog, chk, p[1], int(p[2]), tier)
    elif p[0] == 'line':
        job_line(prog, chk, int(p[1]), tier)
    elif p[0] == 'block':
        job_block(prog, chk, int(p[1]), tier)
    else:
        job_native(prog, chk, tier, seed)
    return chk.res
