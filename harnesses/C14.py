"""C14  ENUMERATED items get the numbers X.680 §20 assigns."""
import itertools, z3
from mirsym.core import *
from mirsym import bridge, native, tokproj, models
from mirsym.models import some, none
from mirsym.harness import Checker, model_int
from mirsym.tokens import TS, TLit, TPunct, TIdent

NUMBER = 'lexer::enumerated::assign_enumeral_indices'
FROM = '<rasn_compiler::intermediate::types::Enumerated as std::convert::From<(std::vec::Vec<rasn_compiler::intermediate::types::Enumeral>, std::option::Option<rasn_compiler::intermediate::constraints::ExtensionMarker>, std::option::Option<std::vec::Vec<rasn_compiler::intermediate::types::Enumeral>>)>>::from'
FMT = '<impl rasn_compiler::generator::rasn::Rasn>::format_enum_members'
ROOTS = [NUMBER, FROM, FMT] + bridge.GEN_ROOTS
ASSUMPTIONS = [
    "kernel = lexer::enumerated::assign_enumeral_indices (pure numbering function called by enumerated_body), Enumerated::from, Rasn::format_enum_members, executed from real MIR",
    "the glue of enumerated_body (root numbered first, additions numbered against the root) is reproduced by the harness and validated against native compilations of concrete enumerations (differential runs)",
    "source validity (X.680 20.2-20.6): explicit numbers pairwise distinct, explicit addition numbers not used in the root and larger than all preceding additions; |numbers| < 2^126",
    "character-level parsing of the item list (nom) is outside the claim",
]
W = 128
ALPHABET = (-1, 0, 1, 2, 5)
NCHUNK = 16


def jobs(tier, seed):
    rmax, amax = (3, 2) if tier == 'quick' else (4, 2)      # a job covers all 2^(r+a) explicit/identifier-only patterns; paths grow factorially with the number of symbolic numbers
    js = []
    for r in range(0, rmax + 1):
        for a in range(-1, amax + 1):    # -1: no extension marker
            if r == 0 and a <= 0:
                continue
            js.append(f"r{r}a{a}")
    # the property's own bound (5 root items, 3 additions, numbers from {-1,0,1,2,5}) in 16 slices of the 256 patterns
    return js + [f'p5a3.{k}' for k in range(NCHUNK)] + ['diff']


def ref_numbers(rexp, aexp):
    """reference numbering: rexp/aexp lists of None (identifier only) or z3 term (explicit).  Returns (root terms, addition terms)"""
    E = [e for e in rexp if e is not None]
    r = len(rexp)
    N = r + len(E) + 1
    root = []
    k = 0
    for e in rexp:
        if e is not None:
            root.append(e)
            continue
        # k-th smallest non-negative integer not in E
        val = z3.BitVecVal(N, W)
        for c in range(N - 1, -1, -1):
            cv = z3.BitVecVal(c, W)
            free = z3.And([cv != x for x in E]) if E else z3.BoolVal(True)
            smaller_free = z3.Sum([z3.If(z3.And([z3.BitVecVal(c2, W) != x for x in E]) if E else z3.BoolVal(True), 1, 0) for c2 in range(c)]) if c else z3.IntVal(0)
            val = z3.If(z3.And(free, smaller_free == k), cv, val)
        root.append(val)
        k += 1
    adds = []
    prev = []
    for e in aexp:
        if e is not None:
            adds.append(e)
            prev.append(e)
            continue
        L = z3.BitVecVal(0, W)
        for p in prev:
            L = z3.If(p + 1 > L, p + 1, L)
        val = L + len(root)
        for t in range(len(root) - 1, -1, -1):
            cand = L + t
            val = z3.If(z3.And([cand != x for x in root]) if root else z3.BoolVal(True), cand, val)
        adds.append(val)
        prev.append(val)
    return root, adds


def validity(rexp, aexp, root, adds):
    cs = []
    allexp = [e for e in rexp + aexp if e is not None]
    for e in allexp:
        cs.append(z3.And(e > -(1 << 126), e < (1 << 126)))
    for i in range(len(allexp)):
        for j in range(i + 1, len(allexp)):
            cs.append(allexp[i] != allexp[j])
    for j, e in enumerate(aexp):
        if e is not None:
            for x in root:
                cs.append(e != x)
            for p in adds[:j]:
                cs.append(e > p)
    return cs


class Kernel:
    def __init__(self, prog):
        p = self.p = prog
        self.number = p.find(NUMBER)
        self.frm = p.find(FROM)
        self.fmt = p.find(FMT)
        f = p.inst[self.number]
        self.vec_raw = f['locals'][2]
        self.raw_ty = p.ty(self.vec_raw)['adt']['targs'][0]
        k = p.kind(self.raw_ty)[1]
        self.opt_str, self.opt_i128 = k[1], k[2]
        ff = p.inst[self.frm]
        self.from_arg = ff['locals'][1]
        self.opt_marker = p.kind(self.from_arg)[1][1]
        self.opt_vec = p.kind(self.from_arg)[1][2]
        self.marker_ty = p.ty(self.opt_marker)['adt']['targs'][0]
        self.gen = bridge.Gen(prog)

    def raw_items(self, ex, prefix, exps):
        cells = []
        for i, e in enumerate(exps):
            name = StringV([ord(c) for c in f"{prefix}{i}"])
            cells.append(Cell(Tup([name, none(ex, self.opt_str), none(ex, self.opt_i128) if e is None else some(ex, self.opt_i128, e)])))
        return VecV(cells, self.raw_ty)

    def run(self, ex, rexp, aexp, marker, with_tokens=True):
        """the numbering pipeline as enumerated_body composes it"""
        root = ex.call(self.number, [SliceRef([]), self.raw_items(ex, 'r', rexp), False, 0])
        adds = None
        if aexp is not None:
            adds = ex.call(self.number, [SliceRef(list(root.cells)), self.raw_items(ex, 'a', aexp), True, 0])
        mk = some(ex, self.opt_marker, Adt(self.marker_ty, 0, [])) if marker else none(ex, self.opt_marker)
        ov = some(ex, self.opt_vec, adds) if adds is not None else none(ex, self.opt_vec)
        en = ex.call(self.frm, [Tup([root, mk, ov])])
        ts = None
        if with_tokens:
            r = ex.force(ex.call(self.fmt, [Ref(Cell(self.gen.mkrasn(ex))), Ref(Cell(en))]))
            ts = r.fields[0] if ex.p.variant_name(r) == 'Ok' else None
        return en, ts


def variants_of(ts):
    """[(name, discriminant term, [attr strings])] from the token stream of format_enum_members"""
    out = []
    for part in tokproj.split_commas_top(ts.toks):
        attrs, k = tokproj.take_attrs(part, 0)
        if k >= len(part):
            continue
        name = tokproj.idname(part[k])
        disc = part[k + 2:] if k + 1 < len(part) and tokproj.is_p(part[k + 1], '=') else None
        val = None
        if disc:
            neg = False
            if tokproj.is_p(disc[0], '-'):
                neg = True
                disc = disc[1:]
            lit = disc[0]
            if isinstance(lit, TLit) and lit.kind == 'int':
                val = lit.payload[0]
                if neg:
                    val = -val
        out.append((name, val, [tokproj.safe_str(a.ts) for a in attrs]))
    return out


def run_job(prog, job, tier, seed):
    chk = Checker(prog, job)
    if job == 'diff':
        return run_diff(prog, chk, tier, seed)
    alphabet = job[0] == 'p'          # the property's own bound: numbers from {-1,0,1,2,5}
    chunk = None
    if '.' in job:                    # "p5a3.k": k-th of NCHUNK slices of the explicit / identifier-only patterns
        job, k = job.split('.')
        chunk = int(k)
    r = int(job[1:job.index('a')])
    a = int(job[job.index('a') + 1:])
    pat_no = -1
    K = Kernel(prog)
    ir = None
    from mirsym.refsem import IR
    for rmask in itertools.product([False, True], repeat=r):
        for amask in itertools.product([False, True], repeat=max(a, 0)):
            pat_no += 1
            if chunk is not None and pat_no % NCHUNK != chunk:
                continue
            rexp = [z3.BitVec(f"r{i}", W) if m else None for i, m in enumerate(rmask)]
            aexp = [z3.BitVec(f"a{i}", W) if m else None for i, m in enumerate(amask)]
            root, adds = ref_numbers(rexp, aexp)
            valid = validity(rexp, aexp, root, adds)
            if alphabet:
                valid = valid + [z3.Or([e == z3.BitVecVal(v, W) for v in ALPHABET]) for e in rexp + aexp if e is not None]
            marker = a >= 0

            def run(ex):
                for c in valid:
                    ex.assume(c)
                en, ts = K.run(ex, rexp, aexp if a > 0 else None, marker)
                return en, ts
            rs = chk.explore(run)
            role = 'root[' + ','.join('n' if m else '-' for m in rmask) + ']' + (' ...' if marker else '') + ' add[' + ','.join('n' if m else '-' for m in amask) + ']'
            for res in rs:
                if res.kind == 'panic':
                    chk.violation(f"C14 panic {role}", f"numbering panics: {res.value}", {'kind': 'panic', 'role': role})
                    continue
                if res.kind != 'ok':
                    continue
                en, ts = res.value
                irx = IR(chk.ex)
                members = irx.items(irx.get(en, 'members'))
                want = root + (adds if a > 0 else [])
                names = [f"r{i}" for i in range(r)] + ([f"a{i}" for i in range(a)] if a > 0 else [])
                ok = len(members) == len(want)
                got = []
                for mem in members:
                    got.append(to_bv(irx.get(mem, 'index'), W))
                gnames = [pystr(irx.f(irx.get(mem, 'name'))) for mem in members]
                if gnames != names:
                    chk.violation(f"C14 names {role}", f"enumeral identifiers not preserved in order: {gnames} vs {names}", {'kind': 'names', 'role': role})
                    continue
                prop = z3.And([g == w for g, w in zip(got, want)]) if ok and want else z3.BoolVal(ok)
                m = chk.holds(res.pc, prop, 'numbers')
                if m:
                    report(chk, role, rexp, aexp, marker, m, got, want, 'numbers')
                    continue
                # distinctness follows from equality with the reference under validity, but is the property's own sentence: check directly
                if len(got) > 1:
                    m = chk.holds(res.pc, z3.Distinct(*got), 'distinct')
                    if m:
                        report(chk, role, rexp, aexp, marker, m, got, want, 'distinct')
                ext = irx.opt(irx.get(en, 'extensible'))
                if marker != (ext is not None) or (marker and ext != r):
                    chk.violation(f"C14 marker {role}", f"extensible index {ext} for {r} root items, marker={marker}", {'kind': 'marker', 'role': role})
                # emitted discriminants
                if ts is None:
                    # the generator rejects an enumeration the lexer's numbering accepted: confirmed natively below if the same text
                    # yields no enum; otherwise the harness could not read the result
                    report_rejected(chk, role, rexp, aexp, marker, chk.model_of(res.pc))
                    continue
                vs = variants_of(ts)
                if [v[0] for v in vs] != names:
                    chk.violation(f"C14 emitted-names {role}", f"generated variants {[v[0] for v in vs]} vs {names}", {'kind': 'emitted-names', 'role': role})
                    continue
                if any(v[1] is None for v in vs):
                    chk.res.inconclusive.append(f"discriminant not understood for {role}")
                    continue
                m = chk.holds(res.pc, z3.And([to_bv(v[1], W) == g for v, g in zip(vs, got)]), 'emitted')
                if m:
                    report(chk, role, rexp, aexp, marker, m, [to_bv(v[1], W) for v in vs], got, 'emitted')
                for i, v in enumerate(vs):
                    is_add = marker and i >= r
                    has = any('extension_addition' in s for s in v[2])
                    if is_add != has:
                        chk.violation(f"C14 extension_addition {role}", f"variant {v[0]} extension_addition={has}, expected {is_add}", {'kind': 'ext', 'role': role})
                chk.witness('identifier-only item skipping an explicit number', any(e is not None for e in rexp) and any(e is None for e in rexp))
                chk.witness('addition numbered after explicit addition', a > 1)
            chk.sample({'shape': role, 'paths': len(rs)})
    chk.res.bounds = {'root_items': r, 'additions': a, 'numbers': 'all i128 with |n| < 2^126'}
    if alphabet:
        chk.res.bounds = {'alphabet_jobs': f'root items <= {r}, additions <= {a}, numbers from {list(ALPHABET)} (the bound of the property statement)'}
    return chk.res


def enum_text(rvals, avals, marker):
    def item(n, v):
        return n if v is None else f"{n}({v})"
    items = [item(f"r{i}", v) for i, v in enumerate(rvals)]
    s = ', '.join(items)
    if marker:
        s += (', ' if items else '') + '...'
        if avals:
            s += ', ' + ', '.join(item(f"a{i}", v) for i, v in enumerate(avals))
    return f"M DEFINITIONS AUTOMATIC TAGS ::= BEGIN T ::= ENUMERATED {{ {s} }} END"


def native_numbers(runner, text):
    out = runner.compile(text, backend='rasn')
    if not out.get('ok'):
        return None, out
    items = tokproj.project_text(out['generated'])
    en = tokproj.find_items(items, 'enum', 'T')
    if not en:
        return None, out
    res = []
    for v in en[0].variants:
        d = v.discriminant
        val = None
        if d:
            s = tokproj.safe_str(TS(d)).replace(' ', '')
            try:
                val = int(s)
            except ValueError:
                pass
        res.append((v.name, val))
    return res, out


def report(chk, role, rexp, aexp, marker, m, got, want, oracle):
    rv = [None if e is None else model_int(m, e) for e in rexp]
    av = [None if e is None else model_int(m, e) for e in aexp]
    text = enum_text(rv, av, marker)
    wantv = [model_int(m, w) for w in want]
    runner = native.Runner()
    try:
        nat, out = native_numbers(runner, text)
    finally:
        runner.close()
    if nat is None:
        chk.res.inconclusive.append(f"counterexample could not be compiled natively ({role}): {text}")
        return
    natv = [v for _, v in nat]
    bad = (natv != wantv) if oracle != 'distinct' else (len(set(natv)) != len(natv))
    if bad:
        chk.violation(f"C14 {oracle} {role}", f"{text}: generated numbers {natv}, X.680 20 assigns {wantv}", {'kind': 'enum', 'text': text, 'expected': wantv, 'native': natv})
    else:
        chk.res.inconclusive.append(f"counterexample did not reproduce natively ({role} {oracle}): {text} native {natv} expected {wantv}")


def report_rejected(chk, role, rexp, aexp, marker, m):
    """the generator returned Err for an enumeration whose numbering is valid: replay the text natively"""
    if m is None:
        chk.res.inconclusive.append(f"format_enum_members failed for {role} (no model)")
        return
    rv = [None if e is None else model_int(m, e) for e in rexp]
    av = [None if e is None else model_int(m, e) for e in aexp]
    text = enum_text(rv, av, marker)
    runner = native.Runner()
    try:
        nat, out = native_numbers(runner, text)
    finally:
        runner.close()
    if nat is None and out.get('ok'):
        w = [x.get('display') for x in out.get('warnings', [])][:1]
        chk.violation(f"C14 rejected {role}", f"{text}: a valid enumeration is not generated at all {w}", {'kind': 'text', 'text': text})
    else:
        chk.res.inconclusive.append(f"format_enum_members failed in the kernel but not natively ({role}): {text}")


def run_diff(prog, chk, tier, seed):
    """differential validation of the harness glue: concrete enumerations, native discriminants vs the kernel pipeline in mirsym"""
    import random
    rnd = random.Random(seed)
    K = Kernel(prog)
    runner = native.Runner()
    pool = [-1, 0, 1, 2, 5]
    cases = []
    for r in range(0, 4):
        for a in range(-1, 3):
            if r == 0 and a <= 0:
                continue
            for _ in range(3 if tier == 'quick' else 8):
                cand = rnd.sample(pool, min(len(pool), r))
                rv = [cand[i] if rnd.random() < 0.5 else None for i in range(r)]
                used = set(v for v in rv if v is not None)
                av = []
                base = 10
                for j in range(max(a, 0)):
                    if rnd.random() < 0.4:
                        base += rnd.randint(1, 3)
                        av.append(base)
                        base += 1
                    else:
                        av.append(None)
                        base += 1
                cases.append((rv, av, a >= 0))
    try:
        for rv, av, marker in cases:
            text = enum_text(rv, av, marker)
            nat, out = native_numbers(runner, text)
            if nat is None:
                chk.res.diff_fail.append(f"native compile failed: {text}")
                continue

            def run(ex):
                en, ts = K.run(ex, rv, av if (marker and av) else None, marker)
                return variants_of(ts)
            rs = chk.explore(run)
            if len(rs) != 1 or rs[0].kind != 'ok':
                chk.res.diff_fail.append(f"mirsym run not a single ok path for {text}: {[(x.kind, str(x.value)[:100]) for x in rs]}")
                continue
            mine = [(n, v) for n, v, _ in rs[0].value]
            # the native result is also judged against the reference numbering (concrete instance of the same formulas)
            rexp = [None if v is None else z3.BitVecVal(v, W) for v in rv]
            aexp = [None if v is None else z3.BitVecVal(v, W) for v in (av if marker else [])]
            rr, aa = ref_numbers(rexp, aexp)
            want = [z3.simplify(t).as_signed_long() for t in rr + aa]
            if [v for _, v in nat] != want:
                chk.violation(f"C14 native-numbers root{['n' if v is not None else '-' for v in rv]} add{['n' if v is not None else '-' for v in av]}",
                              f"{text}: generated numbers {[v for _, v in nat]}, X.680 20 assigns {want}", {'kind': 'enum', 'text': text, 'expected': want, 'native': [v for _, v in nat]})
                continue
            if mine == nat:
                chk.res.diff_ok += 1
            else:
                chk.res.diff_fail.append(f"{text}: native {nat} vs kernel pipeline {mine}")
        chk.sample({'differential_cases': len(cases), 'example': enum_text(*cases[0])})
    finally:
        runner.close()
    return chk.res
