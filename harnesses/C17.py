"""C17  Syntax errors are reported at the malformed definition, consistently."""
import itertools, z3
from mirsym.core import *
from mirsym import bridge, native, models
from mirsym.harness import Checker, model_int
from mirsym.refsem import IR

TAKE = "<rasn_compiler::input::Input<'a> as nom::Input>::take"
TAKE_FROM = "<rasn_compiler::input::Input<'a> as nom::Input>::take_from"
TAKE_SPLIT = "<rasn_compiler::input::Input<'a> as nom::Input>::take_split"
DISPLAY = '<rasn_compiler::lexer::error::LexerError as std::fmt::Display>::fmt'
CTX = 'lexer::error::LexerError::contextualize'
ROOTS = [TAKE, TAKE_FROM, TAKE_SPLIT, DISPLAY, CTX]
ASSUMPTIONS = [
    "one inductive step of Input::slice (through take / take_from / take_split) from an arbitrary state: line, column, offset and the context fields are free usize variables (bounded only so that the step does not overflow), the remaining text has <= 4 (thorough 6) characters, each either a symbolic ASCII character or a concrete multi-byte character, the cut position ranges over every byte index; a sequence of slices is covered by induction",
    "renderings: ReportData numbers are free variables (context_start_line < 1000 to bound the digit-count forks of ilog10); the text handed to contextualize is a concrete 3-line sample with every (context_start_offset <= offset) pair on it",
    "where a corrupted token is reported (jobs lexpos-*): lexer::asn_spec - nom combinators, the ErrorTree merging (or / append, whose alternative order depends on VecDeque capacities, modelled after RawVec's growth policy) and the conversion to ReportData - runs from real MIR (dump of /verif/pipe-harness) on 2 fixed modules (LF and CRLF, 3 assignments each, a comment) with one junk character, symbolic over {% ~ ` $ ? # backslash}, inserted after or replacing the first character after every white-space gap outside comments, or with the text truncated after a whole token (followed by one symbolic white-space character): the result must be Err with an offset inside [first token of the malformed unit, junk character] and line = 1 + line breaks before the offset; every MIR run is compared with the native compiler's report for the solver's character (differential validation of the error-tree model)",
]
NL = 10


def jobs(tier, seed):
    L = 4 if tier == 'quick' else 6
    nl = 8 if tier == 'quick' else 16
    return [f"slice-{k}" for k in range(0, L + 1)] + ['display', 'contextualize', 'marked', 'native'] + [f"lexpos-{m}-{k}of{nl}" for m in range(len(POS_MODULES)) for k in range(nl)]


# ---- whole lexer: where is a corrupted token reported? ---------------------------------------------------------------
POS_MODULES = [
    "M DEFINITIONS AUTOMATIC TAGS ::= BEGIN\nA ::= SEQUENCE { a INTEGER (0..5) OPTIONAL, b BOOLEAN }\nB ::= CHOICE { x A, y NULL }\nv INTEGER ::= 5\nEND",
    "M DEFINITIONS ::= BEGIN\r\nE ::= ENUMERATED { p(1), q, ... } -- c\r\nL ::= SEQUENCE (SIZE (1..4)) OF E\r\ns UTF8String ::= \"x\"\r\nEND",
    # information object classes, objects, parameterization, tags, an extensible SET, a bit string value
    "M DEFINITIONS IMPLICIT TAGS ::= BEGIN\nCL ::= CLASS { &id INTEGER UNIQUE, &Type } WITH SYNTAX { &Type ID &id }\nP {Tp} ::= SET { a [1] Tp, ..., b NULL }\nI ::= P {BOOLEAN}\no CL ::= { NULL ID 1 }\nw BIT STRING ::= '01'B\nEND",
]
JUNK = [37, 126, 96, 36, 63, 35, 92]      # % ~ ` $ ? # \ : characters that start no ASN.1 lexical item
ASN_SPEC = 'rasn_compiler::lexer::asn_spec'


def prepare():
    from mirsym import pipe
    pipe.dump()


def unit_starts(mod):
    """offsets of the first token of the module header and of every top-level assignment"""
    import re
    return [0] + [m.start() for m in re.finditer(r'(?m)^[A-Za-z][\w-]* (::=|[A-Z{])', mod) if m.start() > 0 and not mod[m.start():].startswith('END')]


def job_lexpos(prog, chk, mi, k, n, tier):
    import re
    fn = prog.find(ASN_SPEC)
    f = prog.inst[fn]
    unit_ty = f['locals'][1]
    mod = POS_MODULES[mi]
    starts = unit_starts(mod)
    chk.ex.max_path_steps = 8000000
    runner = native.Runner()
    # gaps inside a comment are not token boundaries (junk there is comment text)
    positions = [m.start() for m in re.finditer(r' ', mod) if '--' not in mod[:m.start() + 1].split('\n')[-1]]

    def mk_unit(ex, chars):
        vals = []
        for fl in prog.ty(unit_ty)['adt']['variants'][0]['fields']:
            if fl['name'] == 'path':
                vals.append(models.none(ex, fl['ty']))
            else:
                cow = fl['ty']
                vals.append(Adt(cow, prog.variant_index(cow, 'Borrowed'), [StrRef(chars)]))
        return Adt(unit_ty, 0, vals)

    def outcome(ex, res):
        ir = IR(ex)
        r = ir.f(res)
        if ir.vn(r) == 'Ok':
            return ('ok',)
        le = ir.f(r.fields[0])
        kind = ir.f(ir.get(le, 'kind'))
        if ir.vn(kind) != 'MatchingError':
            return ('err-other', ir.vn(kind))
        rd = ir.f(kind.fields[0])
        return ('err', ir.get(rd, 'offset'), ir.get(rd, 'line'), ir.get(rd, 'column'), ir.get(rd, 'context_start_line'), ir.get(rd, 'context_start_offset'))

    def marked_rows(ctx):
        # rows of the excerpt printed by contextualize: (label, text, marked)
        rows = []
        for ln in (ctx or '').split('\n'):
            mm = re.match(r'^\s*(\d+) │ (.*)$', ln)
            if mm:
                txt = mm.group(2)
                marked = '◀' in txt
                rows.append((int(mm.group(1)), txt.split(' ◀')[0] if marked else txt, marked))
        return rows
    try:
        for kind in ('insert', 'replace', 'truncate'):
            for p in positions[k::n]:
                c = z3.BitVec('j', 32)
                if kind == 'insert':
                    chars = [ord(x) for x in mod[:p + 1]] + [c, 32] + [ord(x) for x in mod[p + 1:]]
                    jpos = p + 1
                elif kind == 'truncate':
                    # the text ends after a whole token (followed by one symbolic white-space character): the rest of the
                    # module - at least its END - is missing, the first impossible position is the end of the input
                    chars = [ord(x) for x in mod[:p]] + [c]
                    jpos = p + 1
                else:
                    # the first character of the token after the gap is replaced
                    chars = [ord(x) for x in mod[:p + 1]] + [c] + [ord(x) for x in mod[p + 2:]]
                    jpos = p + 1
                unit = max(s0 for s0 in starts if s0 <= jpos)
                sig = f"C17 lexer position module {mi} {kind} in unit@{unit}"

                def run(ex, chars=chars, kind=kind):
                    ex.assume(z3.Or([c == j for j in (JUNK if kind != 'truncate' else (32, 10, 9))]))
                    return outcome(ex, ex.call(fn, [mk_unit(ex, chars)]))
                for r in chk.explore(run):
                    if r.kind == 'panic':
                        chk.violation(sig + ' panic', f"lexer panics on a corrupted token: {r.value[0]}", {'kind': 'text', 'text': mod})
                        continue
                    if r.kind != 'ok':
                        continue
                    m = chk.model_of(r.pc)
                    jc = chr(model_int(m, c, False)) if m is not None else '%'
                    text = ''.join(chr(x) if isinstance(x, int) else jc for x in chars)
                    chk.res.obligations += 1
                    o = r.value
                    probs = []
                    if o[0] != 'err':
                        probs.append(f"corrupted module is not rejected with a position ({o})")
                    else:
                        off, line = o[1], o[2]
                        if not (isinstance(off, int) and isinstance(line, int)):
                            probs.append('symbolic position')
                        else:
                            if not (unit <= off <= jpos):
                                probs.append(f"reported offset {off} lies outside the malformed unit [{unit}, {jpos}]")
                            if line != 1 + text[:off].count('\n'):
                                probs.append(f"reported line {line}, but offset {off} is on line {1 + text[:off].count(chr(10))}")
                            # the excerpt printed by contextualize starts at (context_start_line, context_start_offset): the
                            # pair must be consistent and not after the error, or the marker lands on another line
                            csl, cso = o[4], o[5]
                            if isinstance(csl, int) and isinstance(cso, int):
                                if not (0 <= cso <= off) or csl != 1 + text[:cso].count('\n'):
                                    probs.append(f"context start (line {csl}, offset {cso}) is inconsistent: offset {cso} is on line {1 + text[:max(cso, 0)].count(chr(10))} (error at offset {off})")
                    # the model of the error tree (alternative order depends on VecDeque capacities) is validated against the native compiler
                    nat = runner.compile(text)
                    nrep = (nat.get('error') or {}).get('report') if not nat.get('ok') else None
                    if o[0] == 'err' and nrep is not None and isinstance(o[1], int):
                        if nrep['offset'] == o[1] and nrep['line'] == o[2]:
                            chk.res.diff_ok += 1
                        else:
                            chk.res.diff_fail.append(f"{sig} at {jpos}: MIR run reports offset {o[1]} line {o[2]}, native reports {nrep['offset']} / {nrep['line']}")
                    if nrep is not None:
                        rows = marked_rows((nat.get('error') or {}).get('contextualize'))
                        marked = [(lb, tx) for lb, tx, mk in rows if mk]
                        src_lines = text.split('\n')
                        want_line = src_lines[nrep['line'] - 1].rstrip('\r') if 0 < nrep['line'] <= len(src_lines) else None
                        chk.res.obligations += 1
                        # the excerpt shows the source from the context start on; the marked row is the (rest of the) error line.
                        # A part without any visible character has no row (blank rows are not printed): then no row is marked
                        visible = None
                        if want_line is not None:
                            line_start = len('\n'.join(src_lines[:nrep['line'] - 1])) + (1 if nrep['line'] > 1 else 0)
                            visible = want_line[max(0, nrep['context_start_offset'] - line_start):] if nrep['context_start_line'] == nrep['line'] else want_line
                        if visible is not None and not visible.strip():
                            okm = not marked
                        else:
                            okm = visible is not None and len(marked) == 1 and marked[0][0] == nrep['line'] and marked[0][1].strip() == visible.strip()
                        if okm:
                            chk.res.discharged += 1
                        else:
                            chk.violation(sig + ' marker', f"contextualize marks {marked} but the error is on line {nrep['line']} ({want_line!r}) (junk character {jc!r} at offset {jpos}): {text!r}", {'kind': 'text', 'text': text})
                    if not probs:
                        chk.res.discharged += 1
                        continue
                    nprobs = []
                    if nat.get('ok'):
                        nprobs.append('accepted')
                    elif nrep is None:
                        nprobs.append('no position')
                    else:
                        if not (unit <= nrep['offset'] <= jpos):
                            nprobs.append('outside')
                        if nrep['line'] != 1 + text[:nrep['offset']].count('\n'):
                            nprobs.append('line')
                        if nrep['context_start_line'] != 1 + text[:nrep['context_start_offset']].count('\n') or nrep['context_start_offset'] > nrep['offset']:
                            nprobs.append('context')
                    if nprobs:
                        chk.violation(sig, f"{'; '.join(probs)} (junk character {jc!r} at offset {jpos}): {text!r}", {'kind': 'text', 'text': text})
                    else:
                        chk.res.inconclusive.append(f"not reproduced natively: {sig} at {jpos}: {probs}")
                chk.witness('corrupted token explored', True)
        chk.sample({'module': mi, 'positions': len(positions[k::n]), 'junk': ''.join(map(chr, JUNK))})
    finally:
        runner.close()
    chk.res.bounds = {'modules': len(POS_MODULES), 'corruption': 'one junk character (symbolic over 7) inserted after / replacing the first character after every white-space gap'}


def input_value(ex, prog, input_ty, chars, line, column, offset, csl, cso, with_file=False):
    flds = prog.ty(input_ty)['adt']['variants'][0]['fields']
    vals = []
    for fl in flds:
        nm = fl['name']
        if nm == 'src_file':
            vals.append(models.none(ex, fl['ty']))
        elif nm == 'inner':
            vals.append(StrRef(chars))
        else:
            vals.append({'line': line, 'column': column, 'offset': offset, 'context_start_line': csl, 'context_start_offset': cso}[nm])
    return Adt(input_ty, 0, vals)


def job_slice(prog, chk, L, tier):
    take_from = prog.find(TAKE_FROM)
    take = prog.find(TAKE)
    f = prog.inst[take_from]
    input_ty = prog.kind(f['locals'][1])[1]
    line, column, offset, csl, cso = [z3.BitVec(n, 64) for n in ('line', 'column', 'offset', 'csl', 'cso')]
    # width patterns: each position symbolic ASCII ('s') or the concrete 2-byte 'é' / 3-byte '€'
    pats = list(itertools.product('se', repeat=L)) if L <= 3 else [p for p in itertools.product('se', repeat=L) if p.count('e') <= 1]
    if tier != 'quick' and L <= 3:
        pats = list(itertools.product('seE', repeat=L))
    for pat in pats:
        chars = []
        for i, k in enumerate(pat):
            chars.append(z3.BitVec(f"c{i}", 32) if k == 's' else (0xE9 if k == 'e' else 0x20AC))
        widths = [1 if k == 's' else (2 if k == 'e' else 3) for k in pat]
        total = sum(widths)
        for cut in range(0, total + 2):
            for which in ('take_from', 'take'):
                def run(ex):
                    for c in chars:
                        if not isinstance(c, int):
                            ex.assume(z3.ULT(c, 128))
                    for v in (line, column, offset):
                        ex.assume(z3.ULT(v, 1 << 60))
                    ex.assume(z3.UGE(line, 1))
                    inp = input_value(ex, prog, input_ty, chars, line, column, offset, csl, cso)
                    return ex.call(take_from if which == 'take_from' else take, [Ref(Cell(inp)), cut])
                # boundaries of the cut in characters
                bounds = [0]
                for w in widths:
                    bounds.append(bounds[-1] + w)
                valid_cut = cut in bounds
                for r in chk.explore(run):
                    if r.kind == 'panic':
                        # slicing at a non-boundary / beyond the end panics in str indexing: that is std's contract, callers (nom) pass boundaries
                        if valid_cut:
                            chk.violation(f"C17 slice panic {which}", f"Input::{which}({cut}) panics on a char boundary: {r.value[0]}", {'kind': 'kernel', 'pattern': ''.join(pat), 'cut': cut})
                        continue
                    if r.kind != 'ok':
                        continue
                    if not valid_cut:
                        chk.violation(f"C17 slice non-boundary {which}", f"Input::{which}({cut}) succeeds inside a character", {'kind': 'kernel', 'pattern': ''.join(pat), 'cut': cut})
                        continue
                    ir = IR(chk.ex)
                    res = ir.f(r.value)
                    nline, ncol, noff = (to_bv(ir.get(res, n), 64) for n in ('line', 'column', 'offset'))
                    ncsl, ncso = to_bv(ir.get(res, 'context_start_line'), 64), to_bv(ir.get(res, 'context_start_offset'), 64)
                    k = bounds.index(cut)
                    inner = ir.f(ir.get(res, 'inner'))
                    if which == 'take_from':
                        consumed = chars[:k]
                        nl = z3.Sum([z3.If(to_bv(c, 32) == NL, z3.BitVecVal(1, 64), z3.BitVecVal(0, 64)) for c in consumed]) if consumed else z3.BitVecVal(0, 64)
                        prop = z3.And(nline == line + nl, noff == offset + cut, ncsl == csl, ncso == cso)
                        rest_ok = list(inner.chars) == chars[k:] or all((a is b) or (isinstance(a, int) and a == b) for a, b in zip(inner.chars, chars[k:])) and len(inner.chars) == len(chars) - k
                    else:
                        prop = z3.And(nline == line, noff == offset, ncol == column, ncsl == csl, ncso == cso)
                        rest_ok = len(inner.chars) == k
                    if not rest_ok:
                        chk.violation(f"C17 slice text {which}", f"Input::{which}({cut}) returns the wrong text", {'kind': 'kernel', 'pattern': ''.join(pat), 'cut': cut})
                        continue
                    m = chk.holds(r.pc, prop, f'slice-invariant-{which}')
                    if m:
                        txt = ''.join(chr(model_int(m, c, False)) if not isinstance(c, int) else chr(c) for c in chars)
                        chk.violation(f"C17 slice invariant {which}", f"after Input::{which}({cut}) on {txt!r} from line {model_int(m, line, False)} offset {model_int(m, offset, False)}: line {model_int(m, nline, False)}, offset {model_int(m, noff, False)}",
                                      {'kind': 'kernel', 'text': txt, 'cut': cut})
                    chk.witness('slice across a line break', which == 'take_from' and k > 0 and chk.reachable(r.pc, nline != line))
        chk.sample({'kernel': 'Input::slice', 'pattern': ''.join(pat), 'cuts': total + 2})
    chk.res.bounds = {'text_chars': L, 'state': 'line/column/offset/context fields: all usize < 2^60'}


def report_value(ex, prog, rd_ty, line, column, offset, csl, cso, src_file):
    flds = prog.ty(rd_ty)['adt']['variants'][0]['fields']
    vals = []
    for fl in flds:
        nm = fl['name']
        if nm == 'src_file':
            vals.append(models.some(ex, fl['ty'], StringV([ord(c) for c in src_file])) if src_file else models.none(ex, fl['ty']))
        elif nm == 'reason':
            vals.append(StringV([ord(c) for c in 'reason']))
        elif nm == 'unexpected_eof':
            vals.append(False)
        else:
            vals.append({'line': line, 'column': column, 'offset': offset, 'context_start_line': csl, 'context_start_offset': cso}[nm])
    return Adt(rd_ty, 0, vals)


def lexer_error(ex, prog, le_ty, rd):
    kind_ty = prog.ty(le_ty)['adt']['variants'][0]['fields'][0]['ty']
    return Adt(le_ty, 0, [Adt(kind_ty, prog.variant_index(kind_ty, 'MatchingError'), [rd])])


def ints_in(chars):
    """the integer Frags of a rendered string, in order, with the text before each"""
    out = []
    cur = []
    for c in chars:
        if isinstance(c, Frag) and c.kind == 'int':
            out.append((''.join(cur), c.payload[0]))
            cur = []
        elif isinstance(c, int):
            cur.append(chr(c))
    return out, ''.join(cur)


def job_display(prog, chk, tier):
    fn = prog.find(DISPLAY)
    f = prog.inst[fn]
    le_ty = prog.kind(f['locals'][1])[1]
    kind_ty = prog.ty(le_ty)['adt']['variants'][0]['fields'][0]['ty']
    rd_ty = prog.ty(kind_ty)['adt']['variants'][prog.variant_index(kind_ty, 'MatchingError')]['fields'][0]['ty']
    line, column, offset, csl, cso = [z3.BitVec(n, 64) for n in ('line', 'column', 'offset', 'csl', 'cso')]
    for src in (None, 'dir/file.asn'):
        def run(ex):
            le = lexer_error(ex, prog, le_ty, report_value(ex, prog, rd_ty, line, column, offset, csl, cso, src))
            fm = models.FormatterV()
            ex.call(fn, [Ref(Cell(le)), Ref(Cell(fm))])
            return fm.out
        for r in chk.explore(run):
            if r.kind == 'panic':
                chk.violation('C17 display panic', f"Display panics: {r.value[0]}", {'kind': 'kernel'})
                continue
            if r.kind != 'ok':
                continue
            nums, tail = ints_in(r.value)
            text = chars_repr(r.value)
            if len(nums) < 2:
                chk.violation('C17 display numbers', f"Display does not print line and column: {text}", {'kind': 'kernel'})
                continue
            m = chk.holds(r.pc, z3.And(to_bv(nums[0][1], 64) == line, to_bv(nums[1][1], 64) == column), 'display-line')
            if m:
                chk.violation(f"C17 display line src={bool(src)}", f"Display prints a line different from ReportData.line (e.g. line {model_int(m, line, False)} -> {model_int(m, to_bv(nums[0][1], 64), False)})", {'kind': 'text', 'text': 'M DEFINITIONS ::= BEGIN\nA ::= INTEGER (\nEND'})
            if bool(src) != (src is not None and src in text):
                chk.violation('C17 display source path', f"source path reported={src in text if src else None}: {text}", {'kind': 'kernel'})
            chk.sample({'display': text})
            chk.witness('display with source file', src is not None)


SAMPLE = "Mod DEFINITIONS ::= BEGIN\n  A ::= INTEGER\n  B ::= BOOLEAN\nEND\n"


def job_contextualize(prog, chk, tier):
    fn = prog.find(CTX)
    f = prog.inst[fn]
    le_ty = prog.kind(f['locals'][1])[1]
    kind_ty = prog.ty(le_ty)['adt']['variants'][0]['fields'][0]['ty']
    rd_ty = prog.ty(kind_ty)['adt']['variants'][prog.variant_index(kind_ty, 'MatchingError')]['fields'][0]['ty']
    line, column, csl = [z3.BitVec(n, 64) for n in ('line', 'column', 'csl')]
    text = SAMPLE if tier == 'quick' else SAMPLE + "é ::= NULL\n"
    starts = [0] + [i + 1 for i, c in enumerate(text) if c == '\n'][:-1]
    blen = len(text.encode())
    for cso in starts:
        offs = [cso, cso + 3, min(blen, cso + 30), blen] if tier == 'quick' else list(range(cso, blen + 1, 2)) + [blen]
        for off in sorted(set(offs)):
            for src in (None, 'f.asn'):
                def run(ex):
                    ex.assume(z3.And(z3.UGE(csl, 1), z3.ULT(csl, 1000), z3.UGE(line, csl), z3.ULT(line, 2000), z3.ULT(column, 1 << 40)))
                    le = lexer_error(ex, prog, le_ty, report_value(ex, prog, rd_ty, line, column, off, csl, cso, src))
                    return ex.call(fn, [Ref(Cell(le)), StrRef([ord(c) for c in text])])
                for r in chk.explore(run):
                    if r.kind == 'panic':
                        chk.violation('C17 contextualize panic', f"contextualize panics for offset {off}, context start {cso}: {r.value[0]}", {'kind': 'kernel', 'offset': off, 'context_start_offset': cso})
                        continue
                    if r.kind != 'ok':
                        continue
                    out = r.value.chars
                    s = chars_repr(out)
                    # header: ╭─[line L, column C]  /  ╭─[Source file: f:L:C]
                    nums, _ = ints_in(out)
                    hdr = [n for pre, n in nums if 'line ' in pre.split('\n')[-1] or 'Source file' in pre.split('\n')[-1] or pre.endswith(':') or ', column ' in pre]
                    head_line = None
                    for pre, n in nums:
                        if pre.endswith('[line ') or pre.endswith(':') and 'Source file' in pre:
                            head_line = n
                            break
                    if head_line is None:
                        chk.res.inconclusive.append(f"contextualize header not understood: {s[:200]}")
                        continue
                    m = chk.holds(r.pc, to_bv(head_line, 64) == line, 'contextualize-header-line')
                    if m:
                        chk.violation('C17 contextualize header line', 'the line in the header differs from ReportData.line', {'kind': 'kernel'})
                    # the marked line: the printed line number in front of the marker equals `line`
                    lines = []
                    cur = []
                    for c in out:
                        if c == 10:
                            lines.append(cur)
                            cur = []
                        else:
                            cur.append(c)
                    lines.append(cur)
                    for ln in lines:
                        if 'FAILED AT THIS LINE' in chars_repr(ln):
                            ns, _ = ints_in(ln)
                            if ns:
                                m = chk.holds(r.pc, to_bv(ns[0][1], 64) == line, 'contextualize-marked-line')
                                if m:
                                    chk.violation('C17 contextualize marked line', 'the marked line is not ReportData.line', {'kind': 'kernel'})
                            chk.witness('a line is marked')
                    if src and src not in s:
                        chk.violation('C17 contextualize source path', 'source path missing', {'kind': 'kernel'})
    chk.res.bounds = {'text': 'concrete sample', 'numbers': 'line, column, context_start_line symbolic'}


def job_marked(prog, chk, tier):
    """contextualize with ReportData consistent with the text (the C17 invariant): exactly one line is marked, it carries the
    number `line` and its text is the source line `line`.  Positions: every (context start, error offset) pair where the
    context starts right after a top-level assignment and the error lies in the following assignment."""
    fn = prog.find(CTX)
    f = prog.inst[fn]
    le_ty = prog.kind(f['locals'][1])[1]
    kind_ty = prog.ty(le_ty)['adt']['variants'][0]['fields'][0]['ty']
    rd_ty = prog.ty(kind_ty)['adt']['variants'][prog.variant_index(kind_ty, 'MatchingError')]['fields'][0]['ty']
    long_members = ',\n'.join(f"    member-number-{i} INTEGER (0..{i}) OPTIONAL -- a comment that makes the line longer" for i in range(8))
    texts = [
        "Mod DEFINITIONS ::= BEGIN\n  A ::= INTEGER\n\n  B ::= SEQUENCE {\n    a BOOLEAN,\n    b NULL\n  }\nEND\n",
        "Mod DEFINITIONS ::= BEGIN\nA ::= INTEGER\n\nB ::= SEQUENCE {\n" + long_members + "\n}\n\nC ::= BOOLEAN\nEND\n",
        "Mod DEFINITIONS ::= BEGIN\r\nA ::= INTEGER\r\n\r\nB ::= CHOICE {\r\n" + long_members.replace('\n', '\r\n') + "\r\n}\r\nEND\r\n",
    ]
    column = z3.BitVec('column', 64)
    chk.ex.max_path_steps = 2000000
    for text in (texts if tier != 'quick' else texts[:2]):
        b = text.encode()
        # context starts: right after 'INTEGER' of assignment A (what reset_context records); error offsets: token starts inside B
        cso = text.index('INTEGER') + len('INTEGER')
        starts = [m.start() for m in __import__('re').finditer(r'\S+', text) if m.start() > cso and m.start() < text.rindex('}')]
        if tier == 'quick':
            starts = starts[::max(1, len(starts) // 6)]
        for off in starts:
            csl = 1 + b[:cso].count(b'\n')
            line = 1 + b[:off].count(b'\n')

            def run(ex):
                ex.assume(z3.And(z3.UGE(column, 1), z3.ULT(column, 1 << 32)))
                le = lexer_error(ex, prog, le_ty, report_value(ex, prog, rd_ty, line, column, off, csl, cso, None))
                return ex.call(fn, [Ref(Cell(le)), StrRef([ord(c) for c in text])])
            for r in chk.explore(run):
                if r.kind != 'ok':
                    if r.kind == 'panic':
                        chk.violation('C17 marked panic', f"contextualize panics: {r.value[0]}", {'kind': 'kernel'})
                    continue
                out = chars_repr(r.value.chars)
                marked = [ln for ln in out.split('\n') if 'FAILED AT THIS LINE' in ln]
                src_line = text.replace('\r', '').split('\n')[line - 1].strip()
                chk.res.obligations += 1
                problem = None
                if len(marked) != 1:
                    problem = f"{len(marked)} lines are marked"
                else:
                    m = __import__('re').match(r'\s*(\d+) │\s*(.*?)\s*◀', marked[0])
                    if not m:
                        problem = 'marked line not understood: ' + marked[0][:80]
                    elif int(m.group(1)) != line:
                        problem = f"the marked line is numbered {m.group(1)}, the report says line {line}"
                    elif m.group(2).strip() != src_line:
                        problem = f"the marked text {m.group(2).strip()[:40]!r} is not source line {line} ({src_line[:40]!r})"
                if problem is None:
                    chk.res.discharged += 1
                    continue
                # native confirmation: corrupt the token at `off`
                bad = text[:off] + '§' + text[off:]
                runner = native.Runner()
                try:
                    o = runner.compile(bad)
                finally:
                    runner.close()
                e = o.get('error', {})
                ctxs = e.get('contextualize') or ''
                rep = e.get('report') or {}
                nm = [ln for ln in ctxs.split('\n') if 'FAILED AT THIS LINE' in ln]
                nsrc = bad.replace('\r', '').split('\n')[rep.get('line', 1) - 1].strip() if rep else ''
                nbad = (len(nm) != 1) or (nsrc.replace('§', '') not in nm[0].replace('§', ''))
                long_ctx = 'long' if (text.index('}', off) - cso) > 300 else 'short'
                if nbad:
                    chk.violation(f"C17 marked line ({long_ctx} assignment)", f"{problem}; native: corrupting the token at offset {off} marks {[x.strip()[:60] for x in nm]} for reported line {rep.get('line')}", {'kind': 'text', 'text': bad})
                else:
                    chk.res.inconclusive.append(f"marked-line problem not reproduced natively: {problem}")
        chk.sample({'marked_positions': len(starts), 'text_len': len(text)})


def job_native(prog, chk, tier, seed):
    """concrete samples through the public API: offset within input, line = 1 + newlines before offset, three renderings agree, path reported"""
    import random, re, tempfile, os
    rnd = random.Random(seed)
    runner = native.Runner()
    base = ["Mod DEFINITIONS AUTOMATIC TAGS ::= BEGIN", "  A ::= SEQUENCE {", "    a INTEGER (0..5),", "    b BOOLEAN OPTIONAL", "  }", "  B ::= ENUMERATED { x, y }", "  c A ::= { a 1 }", "END"]
    cases = []
    for nlc in ('\n', '\r\n'):
        text = nlc.join(base)
        toks = [(m.start(), m.end()) for m in re.finditer(r'\S+', text)]
        for _ in range(12 if tier == 'quick' else 80):
            s, e = rnd.choice(toks[4:])
            kind = rnd.choice(['del', 'rep', 'ins'])
            bad = rnd.choice(['§', '`', '€', '\\'])
            t = text[:s] + (('' if kind == 'del' else bad) + ('' if kind != 'ins' else text[s:e])) + text[e:]
            cases.append((t, s))
    # a block comment whose closer is garbled (unterminated up to the end of the input): the error belongs to the text from the
    # definition before the comment on - not to the head of the source - and a file source keeps its path
    cm = ["Mod DEFINITIONS AUTOMATIC TAGS ::= BEGIN", "  A ::= INTEGER (0..5)", "  /* a comment", "     over two lines */", "  B ::= BOOLEAN /* tail */", "  C ::= NULL", "END"]
    for nlc in ('\n', '\r\n'):
        text = nlc.join(cm)
        for m in re.finditer(r'\*/', text):
            for repl in ('*\\', '* /', '*'):
                cases.append((text[:m.start()] + repl + text[m.end():], (m.start(), text.index('A ::='))))
        two = text + nlc + text.replace('Mod ', 'Mod2 ')
        k = two.rindex('*/')
        cases.append((two[:k] + '*\\' + two[k + 2:], (k, two.index('Mod2 '))))
    try:
        for t, pos in cases:
            min_off = None
            if isinstance(pos, tuple):
                pos, min_off = pos
            out = runner.compile(t)
            if out.get('ok'):
                continue
            chk.res.obligations += 1
            e = out['error']
            rep = e.get('report')
            if rep is None:
                chk.res.discharged += 1
                continue
            b = t.encode()
            problems = []
            if not (0 <= rep['offset'] <= len(b)):
                problems.append(f"offset {rep['offset']} outside the input of {len(b)} bytes")
            elif min_off is not None and rep['offset'] < len(t[:min_off].encode()):
                problems.append(f"offset {rep['offset']} lies before the definition that precedes the unterminated comment (offset {min_off})")
            else:
                want_line = 1 + b[:rep['offset']].count(b'\n')
                if rep['line'] != want_line:
                    problems.append(f"line {rep['line']} but {want_line - 1} line breaks precede offset {rep['offset']}")
            d = e.get('display') or ''
            mm = re.search(r'line (\d+), column (\d+)', d)
            if e.get('display_panicked') or e.get('contextualize_panicked'):
                problems.append('rendering panicked')
            elif not mm or int(mm.group(1)) != rep['line']:
                problems.append(f"Display says {mm.group(0) if mm else d!r}, report says line {rep['line']}")
            c = e.get('contextualize') or ''
            mh = re.search(r'\[line (\d+), column (\d+)\]', c)
            if mh and int(mh.group(1)) != rep['line']:
                problems.append(f"contextualize header says line {mh.group(1)}, report says {rep['line']}")
            # the same text handed over as a FILE: same position, and the path is reported
            fo = runner.call({'cmd': 'compile', 'backend': 'rasn', 'sources': [t], 'config': {}, 'project': False, 'files': True})
            frep = (fo.get('error') or {}).get('report') if not fo.get('ok') else None
            if frep is None:
                problems.append(f"given as a file the same text is {'accepted' if fo.get('ok') else 'rejected without a position'}")
            else:
                for k in ('offset', 'line', 'column', 'context_start_line', 'context_start_offset'):
                    if frep[k] != rep[k]:
                        problems.append(f"file {k} {frep[k]} differs from the literal's {rep[k]} for the same text")
                        break
                if not frep.get('src_file') or 'src0.asn' not in frep['src_file']:
                    problems.append(f"file source path not reported ({frep.get('src_file')!r})")
                elif 'src0.asn' not in ((fo.get('error') or {}).get('display') or ''):
                    problems.append('file Display does not name the source path')
            if problems:
                chk.violation('C17 native ' + ' '.join(problems[0].split(' ')[:2]), f"{problems[0]}: {t!r}", {'kind': 'text', 'text': t})
            else:
                chk.res.discharged += 1
                chk.res.diff_ok += 1
        chk.sample({'native_cases': len(cases), 'example': cases[0][0][:120]})
    finally:
        runner.close()


def run_job(prog, job, tier, seed):
    if job.startswith('lexpos-'):
        from mirsym import pipe
        from mirsym.harness import program
        pprog = program(pipe.dump())
        chk = Checker(pprog, job)
        _, mi, kn = job.split('-')
        k, n = kn.split('of')
        job_lexpos(pprog, chk, int(mi), int(k), int(n), tier)
        return chk.res
    chk = Checker(prog, job)
    if job.startswith('slice-'):
        job_slice(prog, chk, int(job[6:]), tier)
    elif job == 'display':
        job_display(prog, chk, tier)
    elif job == 'contextualize':
        job_contextualize(prog, chk, tier)
    elif job == 'marked':
        job_marked(prog, chk, tier)
    else:
        job_native(prog, chk, tier, seed)
    return chk.res
