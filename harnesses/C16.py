"""C16  Generated identifiers are legal and keep the ASN.1 name recoverable."""
import itertools, z3
from mirsym.core import *
from mirsym import bridge, native, tokproj, models
from mirsym.harness import Checker, model_int
from mirsym.tokens import TS, TIdent, ts_chars

R = '<impl rasn_compiler::generator::rasn::Rasn>::'
FNS = {'snake': R + 'to_rust_snake_case', 'const': R + 'to_rust_const_case', 'enum': R + 'to_rust_enum_identifier', 'title': R + 'to_rust_title_case'}
ROOTS = list(FNS.values()) + bridge.GEN_ROOTS
ASSUMPTIONS = [
    "kernel jobs: to_rust_snake_case / to_rust_const_case / to_rust_enum_identifier / to_rust_title_case executed from real MIR on identifier strings whose every character is a symbolic member of the ASN.1 identifier alphabet (letters, digits, single inner hyphens; initial case per role) - precondition taken from X.680 12.2/12.3",
    "text jobs: every Rust strict/reserved keyword (and near misses) is compiled in every role through the real front end (natively) and the real generator MIR; the identifier annotation must be present whenever the Rust identifier differs from the ASN.1 name",
    "keywords = strict + reserved keywords of the 2021 edition (the edition of the repository, rust-version 1.82); `gen` (reserved from edition 2024) and the weak keywords (union, macro_rules, raw, safe) are legal identifiers there and not demanded",
    "lengths <= 4 (quick) / <= 6 (thorough) symbolic characters; the property states 24",
]
KEYWORDS = ['as', 'break', 'const', 'continue', 'crate', 'else', 'enum', 'extern', 'false', 'fn', 'for', 'if', 'impl', 'in', 'let', 'loop', 'match', 'mod', 'move', 'mut', 'pub', 'ref',
            'return', 'self', 'Self', 'static', 'struct', 'super', 'trait', 'true', 'type', 'unsafe', 'use', 'where', 'while', 'async', 'await', 'dyn',
            'abstract', 'become', 'box', 'do', 'final', 'macro', 'override', 'priv', 'typeof', 'unsized', 'virtual', 'yield', 'try']


TYPE_KINDS = ['INTEGER', 'INTEGER (0..7)', 'BOOLEAN', 'NULL', 'ENUMERATED { a, b }', 'CHOICE { a NULL }', 'SET { a NULL }', 'SEQUENCE OF NULL', 'SET OF BOOLEAN', 'BIT STRING', 'OCTET STRING',
              'UTF8String', 'IA5String', 'NumericString', 'PrintableString', 'VisibleString', 'BMPString', 'GeneralString', 'OBJECT IDENTIFIER', 'UTCTime', 'GeneralizedTime', 'ANY', 'Rr', 'Rr (WITH COMPONENTS { z })',
              'SEQUENCE OF Rr', 'BIT STRING { a(0) }', 'INTEGER { a(0) }', 'OCTET STRING (SIZE (4))', '[APPLICATION 3] UTCTime', '[5] Rr']


def jobs(tier, seed):
    lmax = 4 if tier == 'quick' else 6
    js = []
    for role in FNS:
        for L in range(1, lmax + 1):
            js.append(f"kern-{role}-{L}")
    return js + [f"text{i}" for i in range(8)]


def upper(c):
    return z3.And(z3.UGE(c, 65), z3.ULE(c, 90))


def lower(c):
    return z3.And(z3.UGE(c, 97), z3.ULE(c, 122))


def digit(c):
    return z3.And(z3.UGE(c, 48), z3.ULE(c, 57))


def asn1_identifier(chars, first_upper):
    """X.680 12.2 / 12.3: letters, digits, hyphens; first a letter of the role's case; no trailing hyphen, no double hyphen"""
    cs = []
    cs.append(upper(chars[0]) if first_upper else lower(chars[0]))
    for i, c in enumerate(chars[1:], 1):
        cs.append(z3.Or(upper(c), lower(c), digit(c), c == 45))
        if i == len(chars) - 1:
            cs.append(c != 45)
        cs.append(z3.Not(z3.And(c == 45, chars[i - 1] == 45)))
    return cs


def legal_rust_ident(chars):
    def start(c):
        return z3.Or(upper(c), lower(c), c == 95) if not isinstance(c, int) else z3.BoolVal(chr(c).isalpha() and c < 128 or c == 95)

    def cont(c):
        return z3.Or(upper(c), lower(c), digit(c), c == 95) if not isinstance(c, int) else z3.BoolVal((chr(c).isalnum() and c < 128) or c == 95)
    if not chars:
        return z3.BoolVal(False)
    conds = [start(chars[0])] + [cont(c) for c in chars[1:]]
    if len(chars) == 1:
        conds.append(to_bv(chars[0], 32) != 95)
    for kw in KEYWORDS:
        if len(kw) == len(chars):
            conds.append(z3.Not(z3.And([to_bv(c, 32) == ord(k) for c, k in zip(chars, kw)])))
    return z3.And(conds)


def expected_case_rule(role, inp, out):
    """the documented case rule as a relation between input and output characters (hyphen -> '_' etc.)"""
    # only facts that hold for every input of the role and do not re-implement the algorithm:
    conds = []
    n = len(inp)
    if role == 'title':
        # hyphens removed (not replaced): the name is shorter by the number of hyphens, and an underscore occurs only in the
        # two-character escape prefix `R_` of a keyword (ASN.1 names have no underscore)
        conds.append(z3.And([to_bv(c, 32) != 45 for c in out]))
        h = z3.Sum([z3.If(to_bv(c, 32) == 45, 1, 0) for c in inp])
        plain = z3.And([h == n - len(out)] + [to_bv(c, 32) != 95 for c in out])
        escaped = z3.BoolVal(False)
        if len(out) >= 3:
            escaped = z3.And([h == n - (len(out) - 2), to_bv(out[0], 32) == 82, to_bv(out[1], 32) == 95] + [to_bv(c, 32) != 95 for c in out[2:]])
        conds.append(z3.Or(plain, escaped))
    else:
        conds.append(z3.And([to_bv(c, 32) != 45 for c in out]))
    if role == 'snake':
        conds.append(z3.And([z3.Not(upper(to_bv(c, 32))) for c in out]))
    if role == 'const':
        conds.append(z3.And([z3.Not(lower(to_bv(c, 32))) for c in out]))
    return z3.And(conds)


def job_kernel(prog, chk, role, L, tier):
    fn = prog.find(FNS[role])
    gen = bridge.Gen(prog)
    chars = [z3.BitVec(f"c{i}", 32) for i in range(L)]
    first_upper = role == 'title'
    pre = asn1_identifier(chars, first_upper)

    def run(ex):
        for c in pre:
            ex.assume(c)
        r = ex.call(fn, [Ref(Cell(gen.mkrasn(ex))), StrRef(chars)])
        return r
    chk.ex.max_path_steps = 200000
    rs = chk.explore(run)
    for r in rs:
        if r.kind == 'panic':
            # a panic is reachable for an identifier of the language: find it
            s = z3.Solver()
            for c in r.pc:
                s.add(c)
            if s.check() == z3.sat:
                m = s.model()
                name = ''.join(chr(model_int(m, c, False)) for c in chars)
                confirm_text(chk, role, name, f"C16 {role} panic", f"identifier conversion panics ({r.value[0]})")
            continue
        if r.kind != 'ok':
            continue
        v = r.value
        if isinstance(v, TS):
            if len(v.toks) != 1 or not isinstance(v.toks[0], TIdent):
                out = ts_chars(v)
                chk.violation(f"C16 {role} not-one-identifier L={L}", f"conversion yields the tokens {tokproj.safe_str(v)} instead of one identifier", {'kind': 'kernel', 'role': role})
                continue
            ident = v.toks[0]
        else:
            ident = v
        out = list(ident.chars)
        if ident.raw:
            continue   # raw identifiers are legal by construction
        prop = z3.And(legal_rust_ident(out), expected_case_rule(role, chars, out))
        m = chk.holds(r.pc, prop, f'legal-{role}')
        if m:
            name = ''.join(chr(model_int(m, c, False)) for c in chars)
            outs = ''.join(chr(model_int(m, c, False)) if not isinstance(c, int) else chr(c) for c in out)
            confirm_text(chk, role, name, f"C16 {role} illegal", f"ASN.1 name {name!r} becomes {outs!r}, which is not a legal non-keyword Rust identifier of the role's case")
        chk.witness(f'keyword escaped ({role})', len(out) > L)
    chk.sample({'kernel': FNS[role], 'length': L, 'paths': len(rs)})
    chk.res.bounds = {'identifier_length': L, 'alphabet': 'A-Z a-z 0-9 - (X.680 12.2/12.3)'}


def role_text(role, name):
    """(module text, item kind, where the generated identifier is found)"""
    if role == 'title':
        return f"M DEFINITIONS AUTOMATIC TAGS ::= BEGIN {name} ::= SEQUENCE {{ a BOOLEAN }} END"
    if role.startswith('title:'):
        return f"M DEFINITIONS AUTOMATIC TAGS ::= BEGIN Rr ::= SEQUENCE {{ z NULL }} {name} ::= {role[6:]} END"
    if role == 'snake':
        return f"M DEFINITIONS AUTOMATIC TAGS ::= BEGIN T ::= SEQUENCE {{ {name} BOOLEAN }} END"
    if role == 'const':
        return f"M DEFINITIONS AUTOMATIC TAGS ::= BEGIN {name} BOOLEAN ::= TRUE END"
    if role == 'enum':
        return f"M DEFINITIONS AUTOMATIC TAGS ::= BEGIN T ::= ENUMERATED {{ {name}, zz }} END"
    if role == 'alt':
        return f"M DEFINITIONS AUTOMATIC TAGS ::= BEGIN T ::= CHOICE {{ {name} BOOLEAN, zz NULL }} END"
    if role == 'module':
        return f"{name} DEFINITIONS AUTOMATIC TAGS ::= BEGIN T ::= BOOLEAN END"
    if role == 'namednumber':
        return f"M DEFINITIONS AUTOMATIC TAGS ::= BEGIN T ::= INTEGER {{ {name}(1) }} END"
    raise ValueError(role)


def is_legal_py(s):
    import re
    return bool(re.fullmatch(r'[A-Za-z_][A-Za-z0-9_]*', s)) and s != '_' and s not in KEYWORDS


def judge_text(items, info, chk, pc, nwarn):
    role, name = info['role'], info['name']
    if nwarn:
        return [('warning', 'definition not generated')]
    fails = []

    def rasn_flags(attrs):
        out = {}
        for a in attrs:
            if a.path == 'rasn':
                for it in a.items():
                    if it and isinstance(it[0], TIdent):
                        out[tokproj.idname(it[0])] = it
        return out

    def ident_annotation(attrs):
        fl = rasn_flags(attrs)
        if 'identifier' in fl and len(fl['identifier']) > 2:
            ch = tokproj.lit_chars(fl['identifier'][2])
            return ''.join(map(chr, ch)) if ch is not None and is_conc_chars(ch) else None
        return None
    its = tokproj.find_items(items)
    target = None
    attrs = None
    if role == 'title':
        st = [i for i in its if i.kind == 'struct']
        if st:
            target, attrs = st[0].name, st[0].attrs
    elif role.startswith('title:'):
        # a type assignment of any built-in kind (each kind has its own builder function)
        st = [i for i in its if i.kind in ('struct', 'enum') and i.name != 'Rr' and not i.name.startswith('Anonymous')]
        if st:
            target, attrs = st[-1].name, st[-1].attrs
    elif role == 'snake':
        st = [i for i in its if i.kind == 'struct' and i.name == 'T']
        if st and st[0].fields:
            target, attrs = st[0].fields[0].name, st[0].fields[0].attrs
    elif role in ('enum', 'alt'):
        st = [i for i in its if i.kind == 'enum' and i.name == 'T']
        if st and st[0].variants:
            target, attrs = st[0].variants[0].name, st[0].variants[0].attrs
    elif role == 'const':
        st = [i for i in its if i.kind in ('const', 'static')]
        if st:
            target, attrs = st[0].name, None
    elif role == 'module':
        st = [i for i in items if i.kind == 'mod']
        if st:
            target, attrs = st[0].name, None
    elif role == 'namednumber':
        return []
    if target is None:
        return [('missing', f"no generated item for role {role}")]
    t = target[2:] if target.startswith('r#') else target
    if not target.startswith('r#') and not is_legal_py(t):
        fails.append(('illegal', f"generated identifier {target!r} is not a legal non-keyword Rust identifier"))
    if role == 'title' or role.startswith('title:'):
        # hyphens are removed, not replaced: an underscore occurs only in the escape prefix `R_` of a keyword
        h = name.count('-')
        plain = '_' not in t and len(t) == len(name) - h
        escaped = t.startswith('R_') and '_' not in t[2:] and len(t) == len(name) - h + 2 and t[2:] in KEYWORDS
        if not (plain or escaped):
            fails.append(('case-rule', f"type name {name!r} becomes {target!r}: the hyphens are not removed"))
    if attrs is not None and target != name:
        ann = ident_annotation(attrs)
        if ann != name:
            fails.append(('annotation', f"Rust identifier {target!r} differs from the ASN.1 name {name!r} but the identifier annotation is {ann!r}"))
    return fails


def confirm_text(chk, role, name, sig, what):
    """replay a kernel counterexample through the public API"""
    trole = {'snake': 'snake', 'const': 'const', 'enum': 'enum', 'title': 'title'}[role]
    text = role_text(trole, name)
    runner = native.Runner()
    try:
        out = runner.compile(text)
    finally:
        runner.close()
    if out.get('panic') or out.get('crash') is not None:
        chk.violation(sig, f"{what}: {text}: native {str(out)[:200]}", {'kind': 'text', 'text': text})
        return
    if not out.get('ok'):
        chk.res.notes.append(f"{sig}: {name!r} is rejected by the front end ({out['error'].get('display')}); not a violation")
        return
    fails = judge_text(tokproj.project_text(out['generated']), {'role': trole, 'name': name}, None, None, len(out.get('warnings', [])))
    if fails:
        chk.violation(sig, f"{what}: {text}: {fails[0][1]}", {'kind': 'text', 'text': text})
    else:
        chk.res.inconclusive.append(f"kernel counterexample not reproduced through the public API: {sig} {name!r}")


def text_shapes(tier):
    out = []
    names = list(KEYWORDS) + ['a-b', 'aB', 'a1B', 'ab-Cd', 'x-1', 'r-self', 'macro-rules', 'union', 'a-b-c', 'abC-d', 'aBC', 'z9', 'r-type', 'r-1', 'r-self', 's-elf',
                               # names that look like the compiler's own synthetic names once hyphens / case changes become underscores
                               'ext-group-id', 'extGroupId', 'ext-group-1', 'anonymous-x', 'inner-type']
    for role in ('snake', 'const', 'enum', 'alt', 'title', 'module', 'namednumber'):
        for nm in names:
            n = nm
            if role in ('title', 'module'):
                n = nm[0].upper() + nm[1:]
            elif nm[0].isupper():
                continue
            out.append((f"C16 text {role} {n}", role_text(role, n), {'role': role, 'name': n}))
    # the type-name rule for every kind of type assignment
    for kind in TYPE_KINDS:
        for n in ('Ab-cd', 'Self', 'X-1y'):
            out.append((f"C16 text type assignment [{kind.split('{')[0].strip()}] {n}", role_text('title:' + kind, n), {'role': 'title:' + kind, 'name': n}))
    return out


def run_job(prog, job, tier, seed):
    chk = Checker(prog, job)
    if job.startswith('kern-'):
        _, role, L = job.split('-')
        job_kernel(prog, chk, role, int(L), tier)
        return chk.res
    i = int(job[4:])
    gen = bridge.Gen(prog)
    runner = native.Runner()
    stats = {}
    try:
        bridge.run_text_shapes(chk, gen, runner, text_shapes(tier)[i::8], judge_text, stats)
    finally:
        runner.close()
    chk.res.notes.append(f"{job}: {stats}")
    return chk.res
