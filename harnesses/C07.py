"""C07  Value assignments and DEFAULTs denote the source abstract value."""
import itertools, z3
from mirsym.core import *
from mirsym import bridge, native, tokproj, models
from mirsym.harness import Checker, model_int
from mirsym.tokproj import TS, TIdent, TPunct, TGroup, TLit, safe_str, is_id, is_p, idname, split_commas

HEX = 'lexer::util::hex_to_bools'
O2B = 'validator::linking::utils::octet_string_to_bit_string'
B2O = 'validator::linking::utils::bit_string_to_octet_string'
NAMED = 'validator::linking::bit_string_value_from_named_bits'
BITV = 'lexer::bit_string::bit_string_value::{closure#1}'
WK = 'ObjectIdentifierArc::well_known'
ROOTS = [HEX, O2B, B2O, NAMED, BITV, WK] + bridge.GEN_ROOTS
ASSUMPTIONS = [
    "kernel jobs execute the named lexer/linker functions from real MIR on symbolic characters, bytes, bits and bit positions; the characters that reach the bstring/hstring closure are those nom's one_of(\"0123456789ABCDEF\") admits",
    "value-shape jobs: lexer+linker natively per shape (bridge), generator from real MIR with every integer of the value a free i128 variable; the initialiser token tree is evaluated to an abstract value by a small evaluator written for the forms the generator emits",
    "REAL, TIME, multi-byte cstring contents and nom's digit->i128 conversion are outside",
]
W = 128


def prepare():
    from mirsym import pipe
    pipe.dump()


def jobs(tier, seed):
    return ['kern-hex', 'kern-bits', 'kern-octet', 'kern-named', 'kern-oid'] + [f"kern-cstr{i}" for i in range(4)] + [f"values{i}" for i in range(8)]


# ---------------------------------------------------------------------------------------------- kernels
def hexval(c):
    """4-bit value of a symbolic hex digit char (z3), None-free: for [0-9A-F]"""
    return z3.If(z3.ULE(c, 57), c - 48, c - 55)


def in_hex(c):
    return z3.Or(z3.And(z3.UGE(c, 48), z3.ULE(c, 57)), z3.And(z3.UGE(c, 65), z3.ULE(c, 70)))


def as_bool_term(b):
    return z3.BoolVal(b) if isinstance(b, bool) else b


def job_hex(prog, chk, tier):
    fn = prog.find(HEX)
    c = z3.BitVec('c', 32)

    def run(ex):
        ex.assume(z3.Or(z3.ULT(c, 0xD800), z3.And(z3.UGT(c, 0xDFFF), z3.ULE(c, 0x10FFFF))))
        return ex.call(fn, [c])
    for r in chk.explore(run):
        if r.kind != 'ok':
            if r.kind == 'panic':
                chk.violation('C07 hex_to_bools panic', f"hex_to_bools panics: {r.value}", {'kind': 'kernel'})
            continue
        bits = [as_bool_term(cell.v) for cell in r.value.cells]
        hv = hexval(c)
        prop = z3.Implies(in_hex(c), z3.And([bits[i] == (z3.Extract(3 - i, 3 - i, hv) == 1) for i in range(4)]))
        m = chk.holds(r.pc, prop, 'hex-digit')
        if m:
            cv = model_int(m, c, False)
            chk.violation(f"C07 hex_to_bools digit", f"hex_to_bools({chr(cv)!r}) does not yield the binary expansion of the digit", {'kind': 'kernel', 'char': chr(cv)})
        chk.witness('hex digit path', chk.reachable(r.pc, in_hex(c)))
    chk.res.bounds['hex'] = 'every char'


def job_bits(prog, chk, tier):
    """bstring / hstring closure: (String, 'B'|'H') -> ASN1Value::BitString"""
    root = [r for r in prog.roots if r['root'] == BITV and r.get('inst')][0]
    fn = root['inst']
    f = prog.inst[fn]
    clos_ty = root['closure_ty']
    nmax = 3 if tier == 'quick' else 4       # 16^n paths: the digit table is a 16-way match
    from mirsym.refsem import IR
    for enc in 'BH':
        for n in range(0, nmax + 1):
            chars = [z3.BitVec(f"h{i}", 32) for i in range(n)]

            def run(ex):
                for ch in chars:
                    ex.assume(in_hex(ch))
                return ex.call_value(ClosureV(clos_ty, []), [Tup([StringV(chars), ord(enc)])])
            for r in chk.explore(run):
                if r.kind == 'panic':
                    chk.violation(f"C07 bitstring literal panic {enc} n={n}", f"closure panics: {r.value}", {'kind': 'kernel'})
                    continue
                if r.kind != 'ok':
                    continue
                ir = IR(chk.ex)
                v = ir.f(r.value)
                if ir.vn(v) != 'BitString':
                    chk.violation(f"C07 bitstring literal variant {enc}", f"result is {ir.vn(v)}", {'kind': 'kernel'})
                    continue
                bits = [as_bool_term(x) for x in ir.items(v.fields[0])]
                if enc == 'B':
                    want = [ch == 49 for ch in chars]
                else:
                    want = []
                    for ch in chars:
                        hv = hexval(ch)
                        want += [z3.Extract(3 - i, 3 - i, hv) == 1 for i in range(4)]
                if len(bits) != len(want):
                    chk.violation(f"C07 bitstring literal length {enc} n={n}", f"{len(bits)} bits for {n} digits", {'kind': 'kernel'})
                    continue
                m = chk.holds(r.pc, z3.And([b == w for b, w in zip(bits, want)]) if bits else True, f'bits-{enc}')
                if m:
                    s = ''.join(chr(model_int(m, ch, False)) for ch in chars)
                    chk.violation(f"C07 bitstring literal bits {enc} n={n}", f"'{s}'{enc} is not mapped bit for bit", {'kind': 'text', 'text': f"M DEFINITIONS ::= BEGIN v BIT STRING ::= '{s}'{enc} END"})
            chk.sample({'kernel': 'bit_string_value closure', 'encoding': enc, 'digits': n})
    chk.res.bounds['bstring/hstring digits'] = f'<= {nmax} symbolic digits'


def job_octet(prog, chk, tier):
    o2b = prog.find(O2B)
    b2o = prog.find(B2O)
    from mirsym.refsem import IR
    nb = 2 if tier == 'quick' else 4
    for n in range(0, nb + 1):
        bs = [z3.BitVec(f"b{i}", 8) for i in range(n)]

        def run(ex):
            return ex.call(o2b, [SliceRef([Cell(b) for b in bs])])
        for r in chk.explore(run):
            if r.kind == 'panic':
                chk.violation(f"C07 octet->bits panic n={n}", f"{r.value}", {'kind': 'kernel'})
                continue
            if r.kind != 'ok':
                continue
            bits = [as_bool_term(c.v) for c in r.value.cells]
            want = [z3.Extract(7 - (i % 8), 7 - (i % 8), bs[i // 8]) == 1 for i in range(8 * n)]
            if len(bits) != len(want):
                chk.violation(f"C07 octet->bits length n={n}", f"{len(bits)} bits for {n} bytes", {'kind': 'kernel'})
                continue
            m = chk.holds(r.pc, z3.And([b == w for b, w in zip(bits, want)]) if bits else True, 'octet-to-bits')
            if m:
                chk.violation(f"C07 octet->bits n={n}", f"bytes {[model_int(m, b, False) for b in bs]} are not expanded MSB first", {'kind': 'kernel'})
    nbits = 9 if tier == 'quick' else 16      # 2^n paths: one fork per bit
    for n in (list(range(0, 10)) if tier == 'quick' else list(range(0, 13)) + [16]):
        bits = [z3.Bool(f"t{i}") for i in range(n)]

        def run2(ex):
            return ex.call(b2o, [SliceRef([Cell(b) for b in bits])])
        for r in chk.explore(run2):
            if r.kind == 'panic':
                chk.violation(f"C07 bits->octets panic n={n}", f"bit_string_to_octet_string panics on {n} bits: {r.value[0]}", {'kind': 'kernel'})
                continue
            if r.kind != 'ok':
                continue
            ir = IR(chk.ex)
            res = ir.f(r.value)
            okv = ir.vn(res) == 'Ok'
            if okv != (n % 8 == 0):
                chk.violation(f"C07 bits->octets result n={n}", f"{'Ok' if okv else 'Err'} for {n} bits", {'kind': 'kernel'})
                continue
            if okv:
                octs = [to_bv(x, 8) for x in ir.items(res.fields[0])]
                want = []
                for j in range(n // 8):
                    acc = z3.BitVecVal(0, 8)
                    for i in range(8):
                        acc = acc | z3.If(bits[8 * j + i], z3.BitVecVal(1 << (7 - i), 8), z3.BitVecVal(0, 8))
                    want.append(acc)
                m = chk.holds(r.pc, z3.And([o == w for o, w in zip(octs, want)]) if octs else len(octs) == len(want), 'bits-to-octets')
                if m:
                    chk.violation(f"C07 bits->octets n={n}", "bits are not packed MSB first", {'kind': 'kernel'})
        chk.witness('non-multiple-of-8 rejected', True)
    chk.res.bounds['octet/bit conversions'] = f'<= {nb} symbolic bytes, <= {nbits} symbolic bits'


def job_named(prog, chk, tier):
    fn = prog.find(NAMED)
    f = prog.inst[fn]
    dv_ty = prog.kind(prog.kind(f['locals'][3])[1])[1]
    from mirsym.refsem import IR
    nd = 2 if tier == 'quick' else 3
    names = [f"b{i}" for i in range(nd)]
    hmax = 4 if tier == 'quick' else 9
    pos = [z3.BitVec(f"p{i}", 128) for i in range(nd)]
    for sel in itertools.product([False, True], repeat=nd):
        for highest in ([0, 2, hmax] if tier == 'quick' else range(0, hmax + 1, 3)):
            def run(ex):
                for i, p in enumerate(pos):
                    ex.assume(z3.And(p >= 0, p <= highest))
                    for q in pos[:i]:
                        ex.assume(p != q)
                dvs = []
                for i, nm in enumerate(names):
                    flds = prog.ty(dv_ty)['adt']['variants'][0]['fields']
                    vals = [StringV([ord(c) for c in nm]) if fl['name'] == 'name' else pos[i] for fl in flds]
                    dvs.append(Cell(Adt(dv_ty, 0, vals)))
                chosen = [Cell(StringV([ord(c) for c in nm])) for nm, s in zip(names, sel) if s]
                return ex.call(fn, [highest, SliceRef(chosen), SliceRef(dvs)])
            if highest + 1 < nd:
                continue
            for r in chk.explore(run):
                if r.kind == 'panic':
                    chk.violation(f"C07 named-bits panic", f"{r.value}", {'kind': 'kernel'})
                    continue
                if r.kind != 'ok':
                    continue
                bits = [as_bool_term(c.v) for c in r.value.cells]
                if len(bits) != highest + 1:
                    chk.violation(f"C07 named-bits length", f"{len(bits)} bits for highest named bit {highest}", {'kind': 'kernel'})
                    continue
                want = [z3.Or([pos[i] == k for i in range(nd) if sel[i]]) if any(sel) else z3.BoolVal(False) for k in range(highest + 1)]
                m = chk.holds(r.pc, z3.And([b == w for b, w in zip(bits, want)]), 'named-bits')
                if m:
                    chk.violation(f"C07 named-bits sel={sel}", f"positions {[model_int(m, p) for p in pos]} selected {sel}: wrong bit list", {'kind': 'kernel'})
    chk.res.bounds['named bits'] = f'{nd} named bits at symbolic distinct positions in [0,{hmax}]'


X660 = {(None, 'itu-t'): 0, (None, 'iso'): 1, (None, 'joint-iso-itu-t'): 2, (None, 'joint-iso-ccitt'): 2, (None, 'ccitt'): 0,
        (0, 'recommendation'): 0, (0, 'question'): 1, (0, 'administration'): 2, (0, 'network-operator'): 3, (0, 'identified-organization'): 4, (0, 'r-recommendation'): 5,
        (1, 'standard'): 0, (1, 'registration-authority'): 1, (1, 'member-body'): 2, (1, 'identified-organization'): 3}


def job_oid(prog, chk, tier):
    fn = prog.find(WK)
    f = prog.inst[fn]
    opt_name = f['locals'][1]
    opt_root = f['locals'][2]
    names = sorted({n for _, n in X660} - {'ccitt'}) + ['fresh-name']
    root = z3.BitVec('root', 8)
    for nm in names + [None]:
        for has_root in (False, True):
            def run(ex):
                a0 = models.none(ex, opt_name) if nm is None else models.some(ex, opt_name, Ref(Cell(StringV([ord(c) for c in nm]))))
                a1 = models.some(ex, opt_root, root) if has_root else models.none(ex, opt_root)
                return ex.call(fn, [a0, a1])
            from mirsym.refsem import IR
            for r in chk.explore(run):
                if r.kind != 'ok':
                    if r.kind == 'panic':
                        chk.violation('C07 well_known panic', str(r.value), {'kind': 'kernel'})
                    continue
                ir = IR(chk.ex)
                res = ir.opt(r.value)
                # expected as a function of the symbolic root
                if nm is None:
                    ok = res is None
                    if not ok:
                        chk.violation('C07 well_known none', 'a number for an arc without name', {'kind': 'kernel'})
                    continue
                top = X660.get((None, nm))
                cands = [(rt, v) for (rt, n2), v in X660.items() if n2 == nm and rt is not None]
                if top is not None:
                    prop = z3.BoolVal(res is not None and res == top)
                elif not has_root:
                    prop = z3.BoolVal(res is None)
                else:
                    conds = [z3.And(root == rt, z3.BoolVal(res is not None and res == v)) for rt, v in cands]
                    none_cond = z3.And(z3.And([root != rt for rt, _ in cands]) if cands else z3.BoolVal(True), z3.BoolVal(res is None))
                    prop = z3.Or(conds + [none_cond])
                m = chk.holds(r.pc, prop, 'well-known-arc')
                if m:
                    chk.violation(f"C07 well_known {nm}", f"well_known({nm!r}, root={model_int(m, root, False) if has_root else None}) = {res} disagrees with X.660", {'kind': 'kernel'})
    chk.res.bounds['oid'] = 'X.660 well-known arc table x every root (u8 symbolic)'


CSTRING = 'rasn_compiler::lexer::character_string::cstring'
NLS, SPS = (10, 11, 12, 13), (9, 32)


def job_cstr(chk, k, n, tier):
    """cstring() from real MIR on `"` u1 .. uk `"`: every unit is a symbolic character (any scalar value except `"`)
    or the pair `""`; X.680 12.14.1 decides which characters the denoted string keeps: a pair denotes one `"`, an end
    of line is dropped, spacing (HT, SPACE) is dropped when only spacing separates it from an end of line."""
    import itertools
    from mirsym import pipe, native
    from mirsym.harness import program
    from .scan import mk_input
    prog = chk.ex.p
    fn = prog.find(CSTRING)
    input_ty = prog.inst[fn]['locals'][1]
    ex0 = chk.ex
    ex0.max_path_steps = 2000000
    kmax = 4 if tier == 'quick' else 5
    works = [pat for ln in range(0, kmax + 1) for pat in itertools.product('cq', repeat=ln)]
    runner = native.Runner()
    try:
        for pat in works[k::n]:
            cs = [z3.BitVec(f"u{i}", 32) for i in range(len(pat))]
            chars = [34]
            for u, c in zip(pat, cs):
                chars += [c] if u == 'c' else [34, 34]
            chars += [34, 32, 88]
            sig = f"C07 cstring units[{''.join(pat)}]"

            def run(ex, cs=cs, chars=chars, pat=pat):
                for u, c in zip(pat, cs):
                    if u == 'c':
                        ex.assume(z3.And(c != 34, z3.ULE(c, 0x10FFFF), z3.Or(z3.ULT(c, 0xD800), z3.UGT(c, 0xDFFF))))
                res = ex.call(fn, [mk_input(ex, prog, input_ty, chars)])
                from mirsym.refsem import IR
                ir = IR(ex)
                r = ir.f(res)
                if ir.vn(r) != 'Ok':
                    return ('err', None)
                tup = ir.f(r.fields[0])
                return ('ok', ir.f(tup.fields[1]))
            for r in chk.explore(run):
                if r.kind != 'ok':
                    if r.kind == 'panic':
                        chk.violation(sig + ' panic', f"cstring panics: {r.value[0]}", {'kind': 'kernel'})
                    continue
                chk.res.obligations += 1
                if r.value[0] != 'ok':
                    got = None
                else:
                    sv = r.value[1]
                    got = list(sv.chars)
                # reference: kept_i per unit, as formulas over the symbolic characters
                isnl = [z3.Or([c == x for x in NLS]) if u == 'c' else z3.BoolVal(False) for u, c in zip(pat, cs)]
                issp = [z3.Or([c == x for x in SPS]) if u == 'c' else z3.BoolVal(False) for u, c in zip(pat, cs)]
                L = len(pat)
                kept = []
                for i in range(L):
                    right = z3.Or([z3.And([issp[j] for j in range(i + 1, t)] + [isnl[t]]) for t in range(i + 1, L)]) if i + 1 < L else z3.BoolVal(False)
                    left = z3.Or([z3.And([issp[j] for j in range(t + 1, i)] + [isnl[t]]) for t in range(0, i)]) if i > 0 else z3.BoolVal(False)
                    kept.append(z3.And(z3.Not(isnl[i]), z3.Or(z3.Not(issp[i]), z3.And(z3.Not(right), z3.Not(left)))))
                # the output of this path as a sequence of terms; the reference sequence has the kept units in order:
                # equal iff for every output length the j-th output is the j-th kept unit - decided per path by the solver
                unit_term = [c if u == 'c' else z3.BitVecVal(34, 32) for u, c in zip(pat, cs)]
                if got is None:
                    prop = z3.BoolVal(False)
                else:
                    gl = [g if not isinstance(g, int) else z3.BitVecVal(g, 32) for g in got]
                    cnt = z3.Sum([z3.If(kk, 1, 0) for kk in kept]) if kept else z3.IntVal(0)
                    conj = [cnt == len(gl)]
                    # position of unit i in the reference = number of kept units before it
                    for i in range(L):
                        pos = z3.Sum([z3.If(kept[t], 1, 0) for t in range(i)]) if i else z3.IntVal(0)
                        for j in range(len(gl)):
                            conj.append(z3.Implies(z3.And(kept[i], pos == j), gl[j] == unit_term[i]))
                    prop = z3.And(conj)
                m = chk.holds(r.pc, prop, 'cstring-denotation')
                if not m:
                    chk.res.discharged += 1
                    continue
                content = ''.join(chr(model_int(m, c, False)) if u == 'c' else '""' for u, c in zip(pat, cs))
                # native replay: the value assignment and its reference denotation
                keep = []
                raw_units = [chr(model_int(m, c, False)) if u == 'c' else '"' for u, c in zip(pat, cs)]
                for i, ch in enumerate(raw_units):
                    nl = lambda t: pat[t] == 'c' and ord(raw_units[t]) in NLS
                    sp = lambda t: pat[t] == 'c' and ord(raw_units[t]) in SPS
                    if nl(i):
                        continue
                    if sp(i):
                        t = i + 1
                        while t < L and sp(t):
                            t += 1
                        if t < L and nl(t):
                            continue
                        t = i - 1
                        while t >= 0 and sp(t):
                            t -= 1
                        if t >= 0 and nl(t):
                            continue
                    keep.append(ch)
                want = ''.join(keep)
                text = f'M DEFINITIONS AUTOMATIC TAGS ::= BEGIN v UTF8String ::= "{content}" END'
                out = runner.compile(text)
                ok = False
                if out.get('ok'):
                    ev = Evaluator(tokproj.project_text(out['generated']))
                    try:
                        c0 = ev.consts.get('V')
                        g = ev.ev(c0.expr) if c0 is not None else None
                        ok = g is not None and g[0] == 'str' and ''.join(map(chr, g[1])) == want
                    except EvalError:
                        ok = False
                if not ok:
                    chk.violation(sig, f"the cstring \"{content!r}\" denotes {want!r} (X.680 12.14.1) but the lexer yields {chars_repr(got) if got is not None else 'a parse error'}", {'kind': 'text', 'text': text, 'oracle': 'value'})
                else:
                    chk.res.inconclusive.append(f"not reproduced natively: {sig} content {content!r}")
            chk.witness('cstring kernel explored', True)
        chk.sample({'kernel': CSTRING, 'unit patterns': len(works[k::n])})
    finally:
        runner.close()
    chk.res.bounds['cstring'] = f"<= {kmax} units, each any Unicode scalar value except the quotation mark, or a doubled quotation mark"


# ---------------------------------------------------------------------------------------------- value shapes
class V:
    """source abstract value"""

    def __init__(self, kind, **kw):
        self.kind = kind
        self.__dict__.update(kw)


def sym_int(k):
    return z3.BitVec(f"n{k}", W)


PH = lambda k: 1000003 + 7919 * k


def value_shapes(tier):
    """(sig, module text with placeholders substituted by PH values, info)"""
    out = []

    def add(sig, types, vname, vtype, vtext, expect, nph, dflt=None):
        import re as _re
        body = ' '.join(types) + (f" {vname} {vtype} ::= {vtext}" if vname else '')
        text = f"M DEFINITIONS AUTOMATIC TAGS ::= BEGIN {body} END"
        out.append((sig, text, {'expect': expect, 'nph': nph, 'vname': vname, 'dflt': dflt}))
        # the definitions are linked in name order: a value that refers to another value is checked with the referenced
        # value named BEFORE it (aw) as well as after it (w)
        if 'value reference' in sig and vname and _re.search(r'\bw\b', body):
            text2 = f"M DEFINITIONS AUTOMATIC TAGS ::= BEGIN {_re.sub(r'(?<![-A-Za-z0-9])w(?![-A-Za-z0-9:])', 'aw', body)} END"
            out.append((sig + ' [referenced value named first]', text2, {'expect': expect, 'nph': nph, 'vname': vname, 'dflt': dflt}))
    I = lambda k: V('int', term=k)
    add('C07 value INTEGER', [], 'v', 'INTEGER', str(PH(0)), I(0), 1)
    # literals at the boundaries of the machine types (the lexer parses the digits: not part of the symbolic integers, which are
    # substituted behind the lexer)
    for n in (-(2**127), -(2**127) + 1, 2**127 - 1, 2**63, -(2**63) - 1, 2**64, 0, -1):
        add(f"C07 value boundary INTEGER {n}", [], 'v', 'INTEGER', str(n), V('intc', n=n), 0)
        add(f"C07 default boundary INTEGER {n}", [f'Ss ::= SEQUENCE {{ x INTEGER DEFAULT {n} }}'], None, None, None, V('intc', n=n), 0, dflt='ss_x_default')
    add('C07 value negative INTEGER', [], 'v', 'INTEGER', '-' + str(PH(0)), V('neg', inner=I(0)), 1)
    add('C07 value INTEGER ref-type', ['Tt ::= INTEGER'], 'v', 'Tt', str(PH(0)), I(0), 1)
    add('C07 value INTEGER ref-ref-type', ['Tt ::= INTEGER', 'Uu ::= Tt'], 'v', 'Uu', str(PH(0)), I(0), 1)
    add('C07 value constrained INTEGER', [], 'v', 'INTEGER (0..4294967295)', str(PH(0)), I(0), 1)
    add('C07 value constrained ref INTEGER', ['Tt ::= INTEGER (0..4294967295)'], 'v', 'Tt', str(PH(0)), I(0), 1)
    add('C07 value named number', ['Tt ::= INTEGER { one(1), big(%d) }' % PH(0)], 'v', 'Tt', 'big', I(0), 1)
    add('C07 value reference', [f"w INTEGER ::= {PH(0)}"], 'v', 'INTEGER', 'w', I(0), 1)
    # a value reference to a value of an alias type (re-linked through the alias chain), as value and as DEFAULT
    add('C07 value reference alias type', ['Tt ::= INTEGER', 'Uu ::= Tt', f"w Uu ::= {PH(0)}"], 'v', 'Uu', 'w', I(0), 1)
    add('C07 value reference alias-alias type', ['Tt ::= INTEGER (0..4294967295)', 'Uu ::= Tt', 'Ww ::= Uu', f"w Ww ::= {PH(0)}"], 'v', 'Ww', 'w', I(0), 1)
    add('C07 default value reference alias type', ['Tt ::= INTEGER', 'Uu ::= Tt', f"w Uu ::= {PH(0)}", 'Ss ::= SEQUENCE { x Uu DEFAULT w }'], None, None, None, I(0), 1, dflt='ss_x_default')
    add('C07 default value reference other type', ['Tt ::= INTEGER (0..4294967295)', f"w INTEGER ::= {PH(0)}", 'Ss ::= SEQUENCE { x Tt DEFAULT w }'], None, None, None, I(0), 1, dflt='ss_x_default')
    add('C07 value BOOLEAN TRUE', [], 'v', 'BOOLEAN', 'TRUE', V('bool', b=True), 0)
    add('C07 value BOOLEAN FALSE', [], 'v', 'BOOLEAN', 'FALSE', V('bool', b=False), 0)
    add('C07 value NULL', [], 'v', 'NULL', 'NULL', V('null'), 0)
    for s in ['', 'abc', 'a""b', '""', 'x y']:
        un = s.replace('""', '"')
        for st in (['UTF8String', 'IA5String', 'PrintableString', 'VisibleString'] if tier != 'quick' or s in ('abc', 'a""b') else ['UTF8String']):
            if st == 'PrintableString' and '"' in un:
                continue
            add(f"C07 value {st} {s!r}", [], 'v', st, f'"{s}"', V('str', s=un), 0)
    # multi-byte characters; a cstring spanning lines (X.680 12.14.1: the end of line and the spacing around it are not part of the string)
    for st in ['UTF8String', 'BMPString', 'UniversalString']:
        for s in ['\u00e9\u20ac', '\u65e5\u672c', 'a\U0001F600b'][:3 if st != 'BMPString' else 2]:
            add(f"C07 value {st} multi-byte {s!r}", [], 'v', st, f'"{s}"', V('str', s=s), 0)
    for raw, den in [('ab \n   cd', 'abcd'), ('ab\r\n\tcd', 'abcd'), ('a b\nc d', 'a bc d'), ('ab\n\n  cd', 'abcd'), ('ab""\n  ""cd', 'ab""cd')]:
        add(f"C07 value UTF8String spanning lines {raw!r}", [], 'v', 'UTF8String', f'"{raw}"', V('str', s=den), 0)
        add(f"C07 default UTF8String spanning lines {raw!r}", [f'Ss ::= SEQUENCE {{ x UTF8String DEFAULT "{raw}" }}'], None, None, None, V('str', s=den), 0, dflt='ss_x_default')
    for bits in ['', '1', '1011', '00000001', '101100111']:
        add(f"C07 value bstring {bits!r}", [], 'v', 'BIT STRING', f"'{bits}'B", V('bits', bits=[c == '1' for c in bits]), 0)
    for hx in ['', 'A5', '0F', 'A5FF', '123']:
        add(f"C07 value hstring bits {hx!r}", [], 'v', 'BIT STRING', f"'{hx}'H", V('bits', bits=[b == '1' for h in hx for b in format(int(h, 16), '04b')]), 0)
        if len(hx) % 2 == 0:
            add(f"C07 value hstring octets {hx!r}", [], 'v', 'OCTET STRING', f"'{hx}'H", V('bytes', by=list(bytes.fromhex(hx))), 0)
    add("C07 value bstring octets", [], 'v', 'OCTET STRING', "'1010010111111111'B", V('bytes', by=[0xA5, 0xFF]), 0)
    add("C07 value named bits", ['Bb ::= BIT STRING { r(0), s(2), t(5) }'], 'v', 'Bb', '{ r, t }', V('bits', bits=[True, False, False, False, False, True]), 0)
    add("C07 value named bits empty", ['Bb ::= BIT STRING { r(0), s(2) }'], 'v', 'Bb', '{ }', V('bits', bits=[], min_only=True), 0)
    # named bits declared in any order, with gaps: the value has max(position)+1 bits
    import itertools as _it
    for positions in ([0, 2, 5], [3, 0, 1, 2]) if tier == 'quick' else ([0, 2, 5], [3, 0, 1, 2], [7, 1], [0, 1, 2, 9]):
        names = ['r', 's', 't', 'u'][:len(positions)]
        perms = list(_it.permutations(range(len(positions))))
        if tier == 'quick':
            perms = perms[::max(1, len(perms) // 4)]
        for perm in perms:
            decl = ', '.join(f"{names[i]}({positions[i]})" for i in perm)
            for sel in ([0], [len(positions) - 1], list(range(len(positions)))):
                top = max(positions)
                bits = [any(positions[i] == k for i in sel) for k in range(top + 1)]
                chosen = ', '.join(names[i] for i in sel)
                order = ''.join(names[i] for i in perm)
                add(f"C07 value named bits order[{order}] sel[{chosen}]", [f"Bb ::= BIT STRING {{ {decl} }}"], 'v', 'Bb', f"{{ {chosen} }}", V('bits', bits=bits), 0)
                add(f"C07 default named bits order[{order}] sel[{chosen}]", [f"Bb ::= BIT STRING {{ {decl} }}", f"Ss ::= SEQUENCE {{ x Bb DEFAULT {{ {chosen} }} }}"], None, None, None, V('bits', bits=bits), 0, dflt='ss_x_default')
                add(f"C07 default inline named bits order[{order}] sel[{chosen}]", [f"Ss ::= SEQUENCE {{ x BIT STRING {{ {decl} }} DEFAULT {{ {chosen} }} }}"], None, None, None, V('bits', bits=bits), 0, dflt='ss_x_default')
    add("C07 value OID numbers", [], 'v', 'OBJECT IDENTIFIER', '{ 1 3 6 1 }', V('oid', arcs=[1, 3, 6, 1]), 0)
    add("C07 value OID names", [], 'v', 'OBJECT IDENTIFIER', '{ iso standard 8571 2 }', V('oid', arcs=[1, 0, 8571, 2]), 0)
    add("C07 value OID name(number)", [], 'v', 'OBJECT IDENTIFIER', '{ itu-t(0) identified-organization(4) etsi(0) 5 }', V('oid', arcs=[0, 4, 0, 5]), 0)
    add("C07 value OID joint", [], 'v', 'OBJECT IDENTIFIER', '{ joint-iso-itu-t 5 1 }', V('oid', arcs=[2, 5, 1]), 0)
    add("C07 value OID itu-t names", [], 'v', 'OBJECT IDENTIFIER', '{ itu-t recommendation 24 }', V('oid', arcs=[0, 0, 24]), 0)
    add("C07 value OID iso member-body", [], 'v', 'OBJECT IDENTIFIER', '{ iso member-body 840 }', V('oid', arcs=[1, 2, 840]), 0)
    # root arc forms x well-known second-level names (X.660): the second arc resolves relative to the root's number
    roots = [('itu-t', 0), ('iso', 1), ('joint-iso-itu-t', 2), ('itu-t(0)', 0), ('iso(1)', 1), ('ccitt(0)', 0), ('foo(0)', 0), ('bar(1)', 1), ('0', 0), ('1', 1), ('joint-iso-ccitt(2)', 2)]
    second = {0: [('recommendation', 0), ('question', 1), ('administration', 2), ('network-operator', 3), ('identified-organization', 4), ('r-recommendation', 5)],
              1: [('standard', 0), ('registration-authority', 1), ('member-body', 2), ('identified-organization', 3)], 2: []}
    for rt, rn in (roots if tier != 'quick' else roots[::2] + [roots[5]]):
        for sn, sv in second[rn] if tier != 'quick' else second[rn][-2:]:
            add(f"C07 value OID root[{rt}] second[{sn}]", [], 'v', 'OBJECT IDENTIFIER', f"{{ {rt} {sn} 7 }}", V('oid', arcs=[rn, sv, 7]), 0)
            add(f"C07 value OID root[{rt}] second[{sn}(n)]", [], 'v', 'OBJECT IDENTIFIER', f"{{ {rt} {sn}({sv}) 7 }}", V('oid', arcs=[rn, sv, 7]), 0)
        add(f"C07 value OID root[{rt}] numbers", [], 'v', 'OBJECT IDENTIFIER', f"{{ {rt} 3 7 }}", V('oid', arcs=[rn, 3, 7]), 0)
    add("C07 value enumeral", ['Ee ::= ENUMERATED { one, two, three }'], 'v', 'Ee', 'two', V('enum', name='two'), 0)
    add("C07 value CHOICE int", ['Cc ::= CHOICE { p INTEGER, q BOOLEAN }'], 'v', 'Cc', f"p:{PH(0)}", V('choice', alt='p', inner=I(0)), 1)
    # two ENUMERATED types with a common identifier: the enumeral belongs to the governing type, whatever the name order
    for first, second in (('Apple', 'Colour'), ('Colour', 'Apple')):
        defs = [f"{first} ::= ENUMERATED {{ green, red }}", f"{second} ::= ENUMERATED {{ red, green, blue }}"]
        for gov in (first, second):
            add(f"C07 value enumeral shared by two types, governed by {'the first' if gov == min(first, second) else 'the second'} in name order [{first} written first]", defs, 'v', gov, 'red', V('enum', name='red', ty=gov), 0)
            add(f"C07 default enumeral shared by two types [{gov}]", defs + [f"Ss ::= SEQUENCE {{ x {gov} DEFAULT red }}"], None, None, None, V('enum', name='red', ty=gov), 0, dflt='ss_x_default')
    # enumerals through chains of type references: wrapped in the delegate types
    edefs = ['Ee ::= ENUMERATED { one, two }', 'Al ::= Ee', 'Bl ::= Al']
    for gov in ('Al', 'Bl'):
        add(f"C07 value enumeral through {gov}", edefs, 'v', gov, 'two', V('enum', name='two', ty='Ee'), 0)
        add(f"C07 default enumeral through {gov}", edefs + [f"Ss ::= SEQUENCE {{ x {gov} DEFAULT two }}"], None, None, None, V('enum', name='two', ty='Ee'), 0, dflt='ss_x_default')
    add("C07 value CHOICE bool", ['Cc ::= CHOICE { p INTEGER, q BOOLEAN }'], 'v', 'Cc', "q:TRUE", V('choice', alt='q', inner=V('bool', b=True)), 0)
    add("C07 value SEQUENCE", ['Ss ::= SEQUENCE { x INTEGER, y BOOLEAN, z INTEGER }'], 'v', 'Ss', f"{{ x {PH(0)}, y TRUE, z {PH(1)} }}", V('seq', fields=[('x', I(0)), ('y', V('bool', b=True)), ('z', I(1))]), 2)
    add("C07 value SEQUENCE reordered", ['Ss ::= SEQUENCE { x INTEGER, y BOOLEAN, z INTEGER }'], 'v', 'Ss', f"{{ z {PH(1)}, x {PH(0)}, y TRUE }}", V('seq', fields=[('x', I(0)), ('y', V('bool', b=True)), ('z', I(1))]), 2)
    add("C07 value SEQUENCE with default omitted", ['Ss ::= SEQUENCE { x INTEGER, y INTEGER DEFAULT %d }' % PH(1)], 'v', 'Ss', f"{{ x {PH(0)} }}", V('seq', fields=[('x', I(0)), ('y', I(1))]), 2)
    add("C07 value SEQUENCE with default overridden", ['Ss ::= SEQUENCE { x INTEGER DEFAULT 5, y BOOLEAN, z INTEGER DEFAULT %d }' % PH(1)], 'v', 'Ss', f"{{ x {PH(0)}, y TRUE }}", V('seq', fields=[('x', I(0)), ('y', V('bool', b=True)), ('z', I(1))]), 2)
    add("C07 value SET with defaults overridden", ['Ss ::= SET { x INTEGER DEFAULT 0, y INTEGER DEFAULT 0 }'], 'v', 'Ss', f"{{ x {PH(0)}, y {PH(1)} }}", V('seq', fields=[('x', I(0)), ('y', I(1))]), 2)
    add("C07 value SEQUENCE OF", ['Ll ::= SEQUENCE OF INTEGER'], 'v', 'Ll', f"{{ {PH(0)}, {PH(1)}, {PH(2)} }}", V('list', items=[I(0), I(1), I(2)]), 3)
    add("C07 value nested", ['Ss ::= SEQUENCE { c CHOICE { one INTEGER, two BOOLEAN }, l SEQUENCE OF INTEGER }'], 'v', 'Ss', f"{{ c one:{PH(0)}, l {{ {PH(1)} }} }}", V('seq', fields=[('c', V('choice', alt='one', inner=I(0))), ('l', V('list', items=[I(1)]))]), 2)
    # SEQUENCE values below a type reference (X.680 25.18: the value of a component of a referenced SEQUENCE type); a
    # single `{ n 3 }` is lexically also an OBJECT IDENTIFIER value and can only be told apart by the governing type
    in2, in1 = 'Inner ::= SEQUENCE { n INTEGER, b BOOLEAN }', 'Inner ::= SEQUENCE { n INTEGER }'
    v2 = lambda k: V('seq', fields=[('n', I(k)), ('b', V('bool', b=True))])
    v1 = lambda k: V('seq', fields=[('n', I(k))])
    add("C07 value SEQUENCE in SEQUENCE via type ref", [in2, 'Outer ::= SEQUENCE { i Inner, k INTEGER }'], 'v', 'Outer', f"{{ i {{ n {PH(0)}, b TRUE }}, k {PH(1)} }}", V('seq', fields=[('i', v2(0)), ('k', I(1))]), 2)
    add("C07 value one-component SEQUENCE in SEQUENCE via type ref", [in1, 'Outer ::= SEQUENCE { i Inner, k INTEGER }'], 'v', 'Outer', f"{{ i {{ n {PH(0)} }}, k {PH(1)} }}", V('seq', fields=[('i', v1(0)), ('k', I(1))]), 2)
    add("C07 value one-component SEQUENCE via type ref", [in1], 'v', 'Inner', f"{{ n {PH(0)} }}", v1(0), 1)
    add("C07 value SEQUENCE in SEQUENCE declared later", ['Outer ::= SEQUENCE { i Inner, k INTEGER }', in2], 'v', 'Outer', f"{{ i {{ n {PH(0)}, b TRUE }}, k {PH(1)} }}", V('seq', fields=[('i', v2(0)), ('k', I(1))]), 2)
    add("C07 value SEQUENCE OF SEQUENCE via type ref", [in2, 'Ll ::= SEQUENCE OF Inner'], 'v', 'Ll', f"{{ {{ n {PH(0)}, b TRUE }}, {{ n {PH(1)}, b TRUE }} }}", V('list', items=[v2(0), v2(1)]), 2)
    add("C07 value SEQUENCE OF one-component SEQUENCE via type ref", [in1, 'Ll ::= SEQUENCE OF Inner'], 'v', 'Ll', f"{{ {{ n {PH(0)} }}, {{ n {PH(1)} }} }}", V('list', items=[v1(0), v1(1)]), 2)
    add("C07 value CHOICE of SEQUENCE via type ref", [in2, 'Cc ::= CHOICE { p Inner, q NULL }'], 'v', 'Cc', f"p:{{ n {PH(0)}, b TRUE }}", V('choice', alt='p', inner=v2(0)), 1)
    add("C07 value CHOICE of one-component SEQUENCE via type ref", [in1, 'Cc ::= CHOICE { p Inner, q NULL }'], 'v', 'Cc', f"p:{{ n {PH(0)} }}", V('choice', alt='p', inner=v1(0)), 1)
    add("C07 default SEQUENCE via type ref", [in2, f"Outer ::= SEQUENCE {{ i Inner DEFAULT {{ n {PH(0)}, b TRUE }} }}"], None, None, None, v2(0), 1, dflt='outer_i_default')
    add("C07 default one-component SEQUENCE via type ref", [in1, f"Outer ::= SEQUENCE {{ i Inner DEFAULT {{ n {PH(0)} }} }}"], None, None, None, v1(0), 1, dflt='outer_i_default')
    add("C07 default SEQUENCE via type ref declared later", [f"Outer ::= SEQUENCE {{ i Inner DEFAULT {{ n {PH(0)}, b TRUE }} }}", in2], None, None, None, v2(0), 1, dflt='outer_i_default')
    add("C07 default SEQUENCE OF via type ref", ['Ll ::= SEQUENCE OF INTEGER', f"Outer ::= SEQUENCE {{ i Ll DEFAULT {{ {PH(0)}, {PH(1)} }} }}"], None, None, None, V('list', items=[I(0), I(1)]), 2, dflt='outer_i_default')
    add("C07 default CHOICE via type ref", ['Cc ::= CHOICE { p INTEGER, q NULL }', f"Outer ::= SEQUENCE {{ i Cc DEFAULT p:{PH(0)} }}"], None, None, None, V('choice', alt='p', inner=I(0)), 1, dflt='outer_i_default')
    # value references at top level: resolved to the value they name (chains, both declaration orders, alias types)
    add('C07 value reference to a value of the referenced type, governed by an alias', ['Tt ::= INTEGER (-8..7)', 'Uu ::= Tt', f"w Tt ::= 5"], 'v', 'Uu', 'w', V('intc', n=5), 0)
    add('C07 default value reference of a named-number type for a plain INTEGER', ['Tt ::= INTEGER { one(1) }', 'w Tt ::= one', 'Ss ::= SEQUENCE { x INTEGER DEFAULT w }'], None, None, None, V('intc', n=1), 0, dflt='ss_x_default')
    add('C07 value reference inside a constrained SEQUENCE OF', ['w INTEGER (0..255) ::= 7'], 'v', 'SEQUENCE OF INTEGER (0..65535)', '{ w, 300 }', V('list', items=[V('intc', n=7), V('intc', n=300)]), 0)
    add('C07 value reference declared later', [], 'v', 'INTEGER', f"w w INTEGER ::= {PH(0)}", I(0), 1)
    add('C07 value reference chain', [f"c INTEGER ::= {PH(0)}", 'b INTEGER ::= c'], 'v', 'INTEGER', 'b', I(0), 1)
    add('C07 value reference chain declared later', [], 'v', 'INTEGER', f"b b INTEGER ::= c c INTEGER ::= {PH(0)}", I(0), 1)
    add('C07 value reference ref-type', ['Tt ::= INTEGER', f"w Tt ::= {PH(0)}"], 'v', 'Tt', 'w', I(0), 1)
    add('C07 value reference constrained ref-type', ['Tt ::= INTEGER (0..4294967295)', f"w Tt ::= {PH(0)}"], 'v', 'Tt', 'w', I(0), 1)
    add('C07 value reference to named number value', ['Tt ::= INTEGER { big(%d) }' % PH(0), 'w Tt ::= big'], 'v', 'Tt', 'w', I(0), 1)
    add('C07 value reference enumerated', ['Ee ::= ENUMERATED { one, two }', 'w Ee ::= two'], 'v', 'Ee', 'w', V('enum', name='two'), 0)
    add('C07 value reference boolean chain', ['c BOOLEAN ::= TRUE', 'b BOOLEAN ::= c'], 'v', 'BOOLEAN', 'b', V('bool', b=True), 0)
    # time values (GeneralizedTime / UTCTime are written as character strings): the string parsed at run time is the source string
    for tt, tv in (('GeneralizedTime', '20240229120000Z'), ('GeneralizedTime', '20240229120000.5+0100'), ('UTCTime', '240229120000Z'), ('UTCTime', '2402291200-0500')):
        add(f"C07 value {tt} {tv}", [], 'v', tt, f'"{tv}"', V('str', s=tv), 0)
        add(f"C07 default {tt} {tv}", [f'Ss ::= SEQUENCE {{ x {tt} DEFAULT "{tv}" }}'], None, None, None, V('str', s=tv), 0, dflt='ss_x_default')
        add(f"C07 value {tt} {tv} via type ref", [f'Tt ::= {tt}'], 'v', 'Tt', f'"{tv}"', V('str', s=tv), 0)
    add('C07 value reference string', ['w UTF8String ::= "a""b"'], 'v', 'UTF8String', 'w', V('str', s='a"b'), 0)
    add('C07 value reference bits', ["w BIT STRING ::= '1011'B"], 'v', 'BIT STRING', 'w', V('bits', bits=[True, False, True, True]), 0)
    add('C07 value reference octets', ["w OCTET STRING ::= 'A5FF'H"], 'v', 'OCTET STRING', 'w', V('bytes', by=[0xA5, 0xFF]), 0)
    add('C07 value reference SEQUENCE', [in2, f"w Inner ::= {{ n {PH(0)}, b TRUE }}"], 'v', 'Inner', 'w', v2(0), 1)
    add('C07 value reference SEQUENCE OF', ['Ll ::= SEQUENCE OF INTEGER', f"w Ll ::= {{ {PH(0)}, {PH(1)} }}"], 'v', 'Ll', 'w', V('list', items=[I(0), I(1)]), 2)
    add('C07 value reference CHOICE', ['Cc ::= CHOICE { p INTEGER, q NULL }', f"w Cc ::= p:{PH(0)}"], 'v', 'Cc', 'w', V('choice', alt='p', inner=I(0)), 1)
    add('C07 value reference inside CHOICE', ['Cc ::= CHOICE { p INTEGER, q NULL }', f"w INTEGER ::= {PH(0)}"], 'v', 'Cc', 'p:w', V('choice', alt='p', inner=I(0)), 1)
    add('C07 value reference inside SEQUENCE OF', [f"w INTEGER ::= {PH(0)}", 'Ll ::= SEQUENCE OF INTEGER'], 'v', 'Ll', f"{{ w, {PH(1)}, w }}", V('list', items=[I(0), I(1), I(0)]), 2)
    add('C07 value reference inside SEQUENCE', [in2, f"w INTEGER ::= {PH(0)}"], 'v', 'Inner', "{ n w, b TRUE }", v2(0), 1)
    add('C07 default value reference SEQUENCE', [in2, f"w Inner ::= {{ n {PH(0)}, b TRUE }}", 'Outer ::= SEQUENCE { i Inner DEFAULT w }'], None, None, None, v2(0), 1, dflt='outer_i_default')
    add('C07 default value reference enumerated', ['Ee ::= ENUMERATED { one, two }', 'w Ee ::= two', 'Outer ::= SEQUENCE { i Ee DEFAULT w }'], None, None, None, V('enum', name='two'), 0, dflt='outer_i_default')
    add('C07 default value reference chain', [f"c INTEGER ::= {PH(0)}", 'b INTEGER ::= c', 'Outer ::= SEQUENCE { i INTEGER DEFAULT b }'], None, None, None, I(0), 1, dflt='outer_i_default')
    # values that are lexically OBJECT IDENTIFIER values: a list with one element, components given by identifiers
    add("C07 value one-element SEQUENCE OF", ['Ll ::= SEQUENCE OF INTEGER'], 'v', 'Ll', f"{{ {PH(0)} }}", V('list', items=[I(0)]), 1)
    add("C07 default one-element SEQUENCE OF via type ref", ['Ll ::= SEQUENCE OF INTEGER', f"Outer ::= SEQUENCE {{ i Ll DEFAULT {{ {PH(0)} }} }}"], None, None, None, V('list', items=[I(0)]), 1, dflt='outer_i_default')
    add("C07 value SEQUENCE of enumerals", ['Ee ::= ENUMERATED { a, b }', 'Ss ::= SEQUENCE { e Ee, f Ee DEFAULT b }'], 'v', 'Ss', "{ e a }", V('seq', fields=[('e', V('enum', name='a')), ('f', V('enum', name='b'))]), 0)
    add("C07 value SEQUENCE of named number", ['Ss ::= SEQUENCE { x INTEGER { one(%d) } }' % PH(0)], 'v', 'Ss', "{ x one }", V('seq', fields=[('x', I(0))]), 1)
    add("C07 value SEQUENCE of value reference", [f"w INTEGER ::= {PH(0)}", 'Ss ::= SEQUENCE { x INTEGER }'], 'v', 'Ss', "{ x w }", V('seq', fields=[('x', I(0))]), 1)
    add("C07 value SEQUENCE OF value reference", [f"w INTEGER ::= {PH(0)}", 'Ll ::= SEQUENCE OF INTEGER'], 'v', 'Ll', "{ w }", V('list', items=[I(0)]), 1)
    add("C07 value SEQUENCE via alias of the struct", [in2, 'Uu ::= Inner'], 'v', 'Uu', f"{{ n {PH(0)}, b TRUE }}", v2(0), 1)
    add("C07 default SEQUENCE via alias of the struct", [in2, 'Uu ::= Inner', f"Outer ::= SEQUENCE {{ i Uu DEFAULT {{ n {PH(0)}, b TRUE }} }}"], None, None, None, v2(0), 1, dflt='outer_i_default')
    # DEFAULTs: the value of the generated default function
    add("C07 default INTEGER", ['Ss ::= SEQUENCE { x INTEGER DEFAULT %d }' % PH(0)], None, None, None, I(0), 1, dflt='ss_x_default')
    add("C07 default negative INTEGER", ['Ss ::= SEQUENCE { x INTEGER DEFAULT -%d }' % PH(0)], None, None, None, V('neg', inner=I(0)), 1, dflt='ss_x_default')
    add("C07 default constrained INTEGER", ['Ss ::= SEQUENCE { x INTEGER (0..4294967295) DEFAULT %d }' % PH(0)], None, None, None, I(0), 1, dflt='ss_x_default')
    add("C07 default BOOLEAN", ['Ss ::= SEQUENCE { x BOOLEAN DEFAULT TRUE }'], None, None, None, V('bool', b=True), 0, dflt='ss_x_default')
    add("C07 default enumeral", ['Ee ::= ENUMERATED { one, two }', 'Ss ::= SEQUENCE { x Ee DEFAULT two }'], None, None, None, V('enum', name='two'), 0, dflt='ss_x_default')
    add("C07 default via type ref", ['Tt ::= INTEGER', 'Ss ::= SEQUENCE { x Tt DEFAULT %d }' % PH(0)], None, None, None, I(0), 1, dflt='ss_x_default')
    add("C07 default named number", ['Tt ::= INTEGER { one(1), big(%d) }' % PH(0), 'Ss ::= SEQUENCE { x Tt DEFAULT big }'], None, None, None, I(0), 1, dflt='ss_x_default')
    add("C07 default value reference", [f"w INTEGER ::= {PH(0)}", 'Ss ::= SEQUENCE { x INTEGER DEFAULT w }'], None, None, None, I(0), 1, dflt='ss_x_default')
    # X.680 19.10 / 20: inside a value of the type, a named number / enumeral of the governing type wins over a value assignment of the same name
    nn = 'Tt ::= INTEGER { low(1), high(%d) } (0..4294967295)' % PH(0)
    add("C07 default named number shadows a value of another type", [nn, 'high INTEGER ::= 22', 'Ss ::= SEQUENCE { x Tt DEFAULT high }'], None, None, None, I(0), 1, dflt='ss_x_default')
    add("C07 default named number shadows a value of the same type", [nn, 'high Tt ::= 7', 'Ss ::= SEQUENCE { x Tt DEFAULT high }'], None, None, None, I(0), 1, dflt='ss_x_default')
    add("C07 default named number shadows a value through an alias", [nn, 'Uu ::= Tt', 'high INTEGER ::= 22', 'Ss ::= SEQUENCE { x Uu DEFAULT high }'], None, None, None, I(0), 1, dflt='ss_x_default')
    add("C07 default enumeral shadows a value", ['Ee ::= ENUMERATED { red, green, blue }', 'blue Ee ::= red', 'Ss ::= SEQUENCE { x Ee DEFAULT blue }'], None, None, None, V('enum', name='blue'), 0, dflt='ss_x_default')
    add("C07 value named number shadows a value", [nn, 'high INTEGER ::= 22'], 'v', 'Tt', 'high', I(0), 1)
    add("C07 default string", ['Ss ::= SEQUENCE { x UTF8String DEFAULT "a""b" }'], None, None, None, V('str', s='a"b'), 0, dflt='ss_x_default')
    add("C07 default bits", ["Ss ::= SEQUENCE { x BIT STRING DEFAULT '101'B }"], None, None, None, V('bits', bits=[True, False, True]), 0, dflt='ss_x_default')
    add("C07 default named bits", ["Bb ::= BIT STRING { r(0), s(2) }", "Ss ::= SEQUENCE { x Bb DEFAULT { s } }"], None, None, None, V('bits', bits=[False, False, True]), 0, dflt='ss_x_default')
    return out


class EvalError(Exception):
    pass


class Evaluator:
    """abstract value of an initialiser token list (the forms the rasn generator emits)"""

    def __init__(self, items):
        self.items = items
        self.consts = {}
        self.structs = {}
        for it in tokproj.find_items(items):
            if it.kind in ('const', 'static'):
                self.consts[it.name] = it
            if it.kind == 'struct':
                self.structs[it.name] = it

    def strip_lazy(self, toks):
        # LazyLock :: new (|| expr)   /   lazy_static ...
        if len(toks) >= 5 and is_id(toks[0], 'LazyLock') and isinstance(toks[-1], TGroup):
            inner = toks[-1].ts.toks
            if len(inner) >= 2 and is_p(inner[0], '|') and is_p(inner[1], '|'):
                return inner[2:]
        return toks

    def ev(self, toks):
        toks = self.strip_lazy(list(toks))
        if not toks:
            raise EvalError('empty expression')
        # trailing method calls that do not change the value
        changed = True
        while changed:
            changed = False
            # `"..." . parse :: < T > ()` (time values are parsed from their source string at run time): the value is the string
            if len(toks) >= 6 and isinstance(toks[-1], TGroup) and toks[-1].delim == '(' and not toks[-1].ts.toks and is_p(toks[-2], '>'):
                for k_ in range(len(toks) - 3, 0, -1):
                    if is_id(toks[k_], 'parse') and is_p(toks[k_ - 1], '.') and is_p(toks[k_ + 1], ':') and is_p(toks[k_ + 3], '<'):
                        toks = toks[:k_ - 1]
                        changed = True
                        break
                    if not (isinstance(toks[k_], TIdent) or is_p(toks[k_], ':') or is_p(toks[k_], '<') or is_p(toks[k_], '_')):
                        break
            for suffix in (['.', 'to_owned', '()'], ['.', 'unwrap', '()'], ['.', 'into', '()'], ['.', 'collect', '()'], ['.', 'into_iter', '()'], ['.', 'clone', '()'], ['.', 'to_string', '()'], ['.', 'to_vec', '()']):
                if len(toks) >= 3 and is_p(toks[-3], '.') and is_id(toks[-2], suffix[1]) and isinstance(toks[-1], TGroup) and toks[-1].delim == '(' and not toks[-1].ts.toks:
                    toks = toks[:-3]
                    changed = True
        t0 = toks[0]
        if len(toks) == 1:
            if isinstance(t0, TLit):
                if t0.kind == 'int':
                    return ('int', t0.payload[0])
                if t0.kind == 'str':
                    return ('str', list(t0.payload))
                if t0.kind == 'raw':
                    s = t0.payload
                    if s.startswith('"'):
                        return ('str', tokproj.lit_chars(t0))
                    import re
                    mm = re.match(r'^(\d+)', s)
                    if mm:
                        return ('int', int(mm.group(1)))
                raise EvalError(f"literal {t0}")
            if isinstance(t0, TIdent):
                n = idname(t0)
                if n == 'true':
                    return ('bool', True)
                if n == 'false':
                    return ('bool', False)
                if n in self.consts:
                    return self.ev(self.consts[n].expr)
                raise EvalError(f"identifier {n} does not name a generated constant")
            if isinstance(t0, TGroup):
                if t0.delim == '(' and not t0.ts.toks:
                    return ('null',)
                if t0.delim == '(':
                    return self.ev(t0.ts.toks)
                if t0.delim == '[':
                    return ('list', [self.ev(p) for p in split_commas(t0.ts.toks)])
        if is_p(t0, '-'):
            v = self.ev(toks[1:])
            if v[0] != 'int':
                raise EvalError('negation of non-integer')
            return ('int', -v[1] if isinstance(v[1], int) else -v[1])
        if is_p(t0, '&'):
            return self.ev(toks[1:])
        # < T as From < .. >> :: from ( arg )
        if is_p(t0, '<'):
            if isinstance(toks[-1], TGroup) and toks[-1].delim == '(':
                return self.ev(toks[-1].ts.toks)
            raise EvalError('qualified path without call')
        # alloc :: vec ! [ .. ]
        if len(toks) >= 2 and is_p(toks[-2], '!') and isinstance(toks[-1], TGroup) and is_id(toks[-3], 'vec'):
            return ('list', [self.ev(p) for p in split_commas(toks[-1].ts.toks)])
        # path :: to :: Fn ( args )   |  path :: Variant
        path = []
        i = 0
        while i < len(toks) and isinstance(toks[i], TIdent):
            path.append(idname(toks[i]))
            if i + 2 < len(toks) and is_p(toks[i + 1], ':') and is_p(toks[i + 2], ':'):
                i += 3
            else:
                i += 1
                break
        rest = toks[i:]
        if not rest:
            if len(path) == 2:
                return ('enum', path[0], path[1])
            raise EvalError(f"path {path}")
        if len(rest) == 1 and isinstance(rest[0], TGroup) and rest[0].delim == '(':
            args = [self.ev(p) for p in split_commas(rest[0].ts.toks)] if rest[0].ts.toks else []
            last = path[-1]
            if last in ('from', 'try_from', 'new') and len(path) >= 2 and path[-2] not in ('LazyLock',):
                if last == 'new' and path[-2] not in ('Integer', 'String', 'Utf8String', 'Oid', 'ObjectIdentifier', 'BitString', 'OctetString') and len(args) != 1:
                    return ('struct', path[-2], args)
                if len(args) == 1:
                    if last == 'new' and path[-2][0].isupper() and path[-2] not in ('Integer', 'String', 'Oid', 'UniversalString', 'Utf8String'):
                        return ('struct', path[-2], args)
                    return args[0]
            if last in ('const_new', 'new_unchecked'):
                return ('oid', args[0][1] if args and args[0][0] == 'list' else args)
            if len(path) == 1:
                # newtype wrapper T(x): only a struct generated as a tuple struct has this constructor
                st = self.structs.get(path[0])
                if st is not None and not st.tuple:
                    raise EvalError(f"`{path[0]} (..)` is written as a tuple constructor, but {path[0]} is generated as a struct with named fields")
                if st is None and path[0] not in ('Some', 'Box'):
                    raise EvalError(f"`{path[0]} (..)` is written as a tuple constructor, but no tuple struct {path[0]} is generated")
                return ('wrap', path[0], args[0]) if len(args) == 1 else ('struct', path[0], args)
            if len(path) == 2:
                return ('variant', path[0], path[1], args[0] if len(args) == 1 else args)
        raise EvalError(f"unsupported expression {safe_str(TS(toks))[:120]}")


def unwrap(v):
    while v[0] == 'wrap':
        v = v[2]
    return v


def compare(chk, pc, got, want, syms, path='value'):
    """list of failure messages; integer equalities go to the solver"""
    got = unwrap(got)
    k = want.kind
    if k in ('int', 'neg'):
        term = syms[want.term] if k == 'int' else -syms[want.inner.term]
        if got[0] != 'int':
            return [f"{path}: {got[0]} where an integer is expected"]
        g = got[1]
        if chk is None:
            return [] if g == term else [f"{path}: integer {g}, source says {term}"]
        gt = to_bv(g, W)
        if not isinstance(g, int) and g.size() < W:
            gt = z3.SignExt(W - g.size(), g)
        m = chk.holds(pc, gt == term, 'int-literal')
        return [f"{path}: integer literal differs from the source (e.g. source {model_int(m, term)})"] if m else []
    if k == 'intc':
        # a concrete integer written in the shape
        if got[0] != 'int' or not isinstance(got[1], int) or got[1] != want.n:
            return [f"{path}: {got[:2]}, source says {want.n}"]
        return []
    if k == 'bool':
        return [] if got == ('bool', want.b) else [f"{path}: {got}, source says {want.b}"]
    if k == 'null':
        return [] if got[0] == 'null' else [f"{path}: {got}, source says NULL"]
    if k == 'str':
        if got[0] != 'str' or not is_conc_chars(got[1]) or ''.join(map(chr, got[1])) != want.s:
            return [f"{path}: string {chars_repr(got[1]) if got[0] == 'str' else got}, source says {want.s!r}"]
        return []
    if k == 'bits':
        if got[0] != 'list' or any(g[0] != 'bool' for g in got[1]):
            return [f"{path}: {got[0]} where a bit list is expected"]
        g = [x[1] for x in got[1]]
        if getattr(want, 'min_only', False):
            return [] if not any(g) else [f"{path}: bits {g}, source selects no named bit"]
        return [] if g == want.bits else [f"{path}: bits {g}, source says {want.bits}"]
    if k == 'bytes':
        if got[0] != 'list' or any(g[0] != 'int' for g in got[1]):
            return [f"{path}: {got[0]} where a byte list is expected"]
        g = [x[1] for x in got[1]]
        return [] if g == want.by else [f"{path}: bytes {g}, source says {want.by}"]
    if k == 'oid':
        g = got[1] if got[0] in ('oid', 'list') else None
        if g is None:
            return [f"{path}: {got[0]} where an OID is expected"]
        arcs = [x[1] if isinstance(x, tuple) else x for x in g]
        return [] if arcs == want.arcs else [f"{path}: arcs {arcs}, source says {want.arcs}"]
    if k == 'enum':
        return [] if got[0] == 'enum' and got[2] == want.name else [f"{path}: {got}, source says enumeral {want.name}"]
    if k == 'choice':
        if got[0] != 'variant' or got[2] != want.alt:
            return [f"{path}: {got[:3]}, source says alternative {want.alt}"]
        return compare(chk, pc, got[3], want.inner, syms, path + '.' + want.alt)
    if k == 'seq':
        if got[0] != 'struct' or len(got[2]) != len(want.fields):
            return [f"{path}: {got[0]} with {len(got[2]) if got[0] == 'struct' else '?'} arguments, source has {len(want.fields)} components"]
        out = []
        for g, (n, w) in zip(got[2], want.fields):
            out += compare(chk, pc, g, w, syms, path + '.' + n)
        return out
    if k == 'list':
        if got[0] != 'list' or len(got[1]) != len(want.items):
            return [f"{path}: {got[0]} of {len(got[1]) if got[0] == 'list' else '?'} elements, source has {len(want.items)}"]
        out = []
        for i, (g, w) in enumerate(zip(got[1], want.items)):
            out += compare(chk, pc, g, w, syms, f"{path}[{i}]")
        return out
    return [f"{path}: unhandled kind {k}"]


INT_RANGES = {f"{sg}{b}": ((0, 2**b - 1) if sg == 'u' else (-2**(b - 1), 2**(b - 1) - 1)) for sg in 'ui' for b in (8, 16, 32, 64, 128)}


def make_judge(syms_of):
    def judge(items, info, chk, pc, nwarn):
        ev = Evaluator(items)
        if not info['dflt'] and ev.consts.get(info['vname'].upper()) is None:
            return [('not-generated', f"no constant generated for the value {info['vname']} ({nwarn} warning(s))")]
        if nwarn:
            return [('not-generated', f"{nwarn} warning(s): a definition was not generated")]
        syms = syms_of(info, chk is not None)
        try:
            if info['dflt']:
                fns = {it.name: it for it in tokproj.find_items(items, 'fn')}
                fn = fns.get(info['dflt'])
                if fn is None:
                    return [('missing', f"default function {info['dflt']} not generated")]
                got = ev.ev(fn.body.toks)
            else:
                c = ev.consts.get(info['vname'].upper())
                if c is None:
                    return [('missing', f"no constant generated for the value {info['vname']}")]
                got = ev.ev(c.expr)
        except EvalError as e:
            return [('denotation', f"initialiser does not denote a value: {e}")]
        # the initialiser is of the declared type: both are compared when they name generated items (a value reached through a
        # chain of type references is wrapped in exactly the delegate types of the chain; an enumeral belongs to its own type)
        generated = {i.name for i in tokproj.find_items(items, 'struct')} | {i.name for i in tokproj.find_items(items, 'enum')}
        decl = None
        if info['dflt']:
            sig = fn.sig
            for k_, t_ in enumerate(sig):
                if is_p(t_, '>') and k_ > 0 and is_p(sig[k_ - 1], '-'):
                    decl = sig[k_ + 1:]
        else:
            decl = list(c.ty)
        outer = got[1] if got[0] in ('wrap', 'enum', 'variant', 'struct') and isinstance(got[1], str) else None
        if decl and len(decl) == 1 and isinstance(decl[0], TIdent) and idname(decl[0]) in generated and outer in generated and idname(decl[0]) != outer:
            return [('declared-type', f"declared as {idname(decl[0])}, but the initialiser is a value of type {outer}")]
        # a list of integer literals declared as Vec<fixed-width integer>: every element must be a value of that type (C06: the
        # element type is chosen from the element's constraint, not from whichever item comes first)
        dnames = [idname(t_) for t_ in (decl or []) if isinstance(t_, TIdent)]
        if 'Vec' in dnames and dnames[-1] in INT_RANGES and unwrap(got)[0] == 'list':
            lo_, hi_ = INT_RANGES[dnames[-1]]
            for el in unwrap(got)[1]:
                if el[0] == 'int' and isinstance(el[1], int) and not lo_ <= el[1] <= hi_:
                    return [('declared-type', f"declared as Vec<{dnames[-1]}>, but the element {el[1]} is not a value of {dnames[-1]}")]
        want_ty = getattr(info['expect'], 'ty', None)
        if want_ty and unwrap(got)[0] == 'enum' and unwrap(got)[1] != want_ty:
            return [('value', f"enumeral of type {unwrap(got)[1]}, the governing ENUMERATED type is {want_ty}")]
        fails = compare(chk, pc, got, info['expect'], syms)
        if chk is not None:
            chk.res.obligations += 1
            if not fails:
                chk.res.discharged += 1
        return [('value', f) for f in fails[:1]]
    return judge


def run_job(prog, job, tier, seed):
    chk = Checker(prog, job)
    chk.res.bounds = {}
    if job == 'kern-hex':
        job_hex(prog, chk, tier)
    elif job == 'kern-bits':
        job_bits(prog, chk, tier)
    elif job == 'kern-octet':
        job_octet(prog, chk, tier)
    elif job == 'kern-named':
        job_named(prog, chk, tier)
    elif job == 'kern-oid':
        job_oid(prog, chk, tier)
    elif job.startswith('kern-cstr'):
        from mirsym import pipe
        from mirsym.harness import program
        chk = Checker(program(pipe.dump()), job)
        chk.res.bounds = {}
        job_cstr(chk, int(job[9:]), 4, tier)
    else:
        i = int(job[6:])
        gen = bridge.Gen(prog)
        runner = native.Runner()
        stats = {}
        try:
            shapes = value_shapes(tier)[i::8]
            symbolic = {PH(k): sym_int(k) for k in range(4)}
            symbolic.update({-PH(k): -sym_int(k) for k in range(4)})

            def syms_of(info, symbolic_run):
                return [sym_int(k) for k in range(4)] if symbolic_run else [z3.BitVecVal(PH(k), W) for k in range(4)]
            judge = make_judge(syms_of)
            # native confirmation judges concrete numbers: compare() with chk None needs python ints
            def judge2(items, info, chk2, pc, nwarn):
                if chk2 is None:
                    j = make_judge(lambda info, s: [PH(k) for k in range(4)])
                    return j(items, info, None, None, nwarn)
                return judge(items, info, chk2, pc, nwarn)
            bridge.run_text_shapes(chk, gen, runner, shapes, judge2, stats, symbolic=symbolic)
        finally:
            runner.close()
        chk.res.notes.append(f"{job}: {stats}")
        chk.res.bounds['value shapes'] = 'every integer of the value a free i128 variable'
    return chk.res
