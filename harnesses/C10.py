"""C10  No definition is lost silently; warnings are local; Err carries nothing."""
import itertools, re, z3
from mirsym.core import *
from mirsym import bridge, native, tokproj, models
from mirsym.harness import Checker, model_int
from mirsym.refsem import IR

VNEW = 'validator::Validator::new'
ROOTS = list(bridge.GEN_ROOTS) + [VNEW]
ASSUMPTIONS = [
    "kernel 1: Validator::new is executed from real MIR on 2-3 type definitions whose names are symbolic strings; z3 decides whether every input definition is still present in the linker's map - a path with fewer entries than definitions is a silently lost definition (the solver supplies the colliding names, replayed natively with two modules)",
    "kernel 2 (text shapes): modules of 4 supported definitions where every subset of size <= 2 (thorough 3) is replaced by a parseable-but-unsupported definition (REAL / VideotexString type assignments, inverted range, hoisted REAL element, MACRO, TIME type); lexer+linker natively, generator fold (generate_module: Ok/Err per definition) from real MIR: every definition is in the output under its mangled name or accounted for by a warning, and the bindings of the untouched definitions are identical to those of the module without the replaced ones",
    "'Err carries nothing' is a type-level fact of Result<CompileResult, _>; classes, objects and parameterized templates produce no output by documentation",
]
GOOD = ["Aa ::= INTEGER (0..5)", "Bb ::= SEQUENCE { x BOOLEAN, y Aa OPTIONAL }", "cc BOOLEAN ::= TRUE", "Dd ::= ENUMERATED { p, q }"]
BAD = {'real': "{n} ::= REAL", 'videotex': "{n} ::= VideotexString", 'inverted': "{n} ::= INTEGER (10..5)", 'setof-real': "{n} ::= SET OF REAL",
       'macro': "{N} MACRO ::= BEGIN TYPE NOTATION ::= empty VALUE NOTATION ::= empty END", 'time': "{n} ::= TIME", 'choice-real': "{n} ::= CHOICE {{ r REAL }}"}
NAMES = ['Aa', 'Bb', 'cc', 'Dd']
MANGLED = {'Aa': 'Aa', 'Bb': 'Bb', 'cc': 'CC', 'Dd': 'Dd', 'Zz': 'Zz', 'va': 'VA'}
# X.680 12.2: a typereference is any identifier starting with an upper-case letter - `S`, `AB`, `A1` are type references as
# much as `Ss`; a value assignment whose governor is such a reference must be generated or reported like any other
TYPE_NAMES = ['Ss', 'S', 'AB', 'A1', 'A-B', 'Ab-C']
TYPED_VALUES = [("SEQUENCE {{ a BOOLEAN }}", "{{ a TRUE }}"), ("SEQUENCE OF INTEGER", "{{ 1, 2 }}"), ("INTEGER", "5"), ("BOOLEAN", "TRUE"),
                ("CHOICE {{ a BOOLEAN, b NULL }}", "a : TRUE"), ("ENUMERATED {{ p, q }}", "q"), ("BIT STRING", "'0101'B"), ("SET {{ a INTEGER }}", "{{ a 3 }}"),
                ("GeneralizedTime", '"19700101000000Z"'), ("UTCTime", '"700101000000Z"'), ("OCTET STRING", "'0A'H"), ("OBJECT IDENTIFIER", "{{ 1 2 3 }}"),
                ("UTF8String", '"x"'), ("NULL", "NULL")]


# whole pipeline (compile_to_string incl. CompileResult::fmt from MIR): several unsupported definitions of the SAME kind, whose
# warnings read the same - each must still be accounted for by a warning of its own
PIPE_MODULES = [
    ("two REAL assignments", ["M DEFINITIONS AUTOMATIC TAGS ::= BEGIN Aa ::= REAL Bb ::= SEQUENCE { x BOOLEAN } Cc ::= REAL END"], ['Aa', 'Cc'], ['Bb']),
    ("three VideotexString assignments", ["M DEFINITIONS AUTOMATIC TAGS ::= BEGIN Aa ::= VideotexString Bb ::= VideotexString (SIZE (1..4)) Cc ::= VideotexString Dd ::= NULL END"], ['Aa', 'Bb', 'Cc'], ['Dd']),
    ("REAL assignments in two modules", ["Ma DEFINITIONS AUTOMATIC TAGS ::= BEGIN Keep ::= BOOLEAN Zz ::= REAL END", "Mb DEFINITIONS AUTOMATIC TAGS ::= BEGIN Aa ::= REAL Stay ::= NULL END"], ['Zz', 'Aa'], ['Keep', 'Stay']),
    ("two TIME and two inverted ranges", ["M DEFINITIONS AUTOMATIC TAGS ::= BEGIN Aa ::= TIME Bb ::= TIME Cc ::= INTEGER (10..5) Dd ::= INTEGER (10..5) Ee ::= NULL END"], ['Aa', 'Bb', 'Cc', 'Dd'], ['Ee']),
]


def prepare():
    from mirsym import pipe
    pipe.dump()


def job_pipe(chk, i, tier):
    from mirsym import pipe
    name, sources, dropped, kept = PIPE_MODULES[i]
    pp = pipe.Pipe(chk.ex.p)
    chk.ex.max_path_steps = 60000000
    sig = f"C10 pipeline {name}"
    for r in chk.explore(lambda ex: pp.compile(ex, sources)):
        if r.kind == 'panic':
            chk.violation(sig + ' panic', f"compilation panics: {r.value[0]}", {'kind': 'text', 'text': '\n'.join(sources)})
            continue
        if r.kind != 'ok':
            continue
        chk.res.obligations += 1
        if r.value[0] != 'ok':
            chk.res.discharged += 1      # Err carries nothing
            continue
        text = pipe.text_repr(r.value[1])
        missing = [n for n in dropped + kept if not re.search(r'pub (struct|enum) ' + n + r'\b', text)]
        lost_kept = [n for n in kept if n in missing]
        nwarn = r.value[2]
        probs = []
        if lost_kept:
            probs.append(f"supported definitions {lost_kept} are missing")
        if len(missing) - len(lost_kept) > nwarn:
            probs.append(f"{len(missing)} definitions have no binding ({missing}) but only {nwarn} warning(s) are returned")
        if not probs:
            chk.res.discharged += 1
            continue
        runner = native.Runner()
        try:
            out = runner.compile(sources)
        finally:
            runner.close()
        nmissing = [n for n in dropped + kept if not re.search(r'pub (struct|enum) ' + n + r'\b', out.get('generated') or '')]
        if out.get('ok') and len([n for n in nmissing if n not in kept]) > len(out.get('warnings', [])) or any(n in nmissing for n in kept):
            chk.violation(sig + ' silent-loss', '; '.join(probs) + ': ' + ' / '.join(sources), {'kind': 'text', 'text': '\n'.join(sources)})
        else:
            chk.res.inconclusive.append(f"not reproduced natively: {sig}: {probs}")
    chk.witness('pipeline accounting explored', True)
    chk.sample({'pipeline module': name})


def jobs(tier, seed):
    return ['validator-new'] + [f"account{i}" for i in range(4)] + ['native-dups'] + [f"pipe{i}" for i in range(len(PIPE_MODULES))]


def job_validator_new(prog, chk, tier):
    fn = prog.find(VNEW)
    f = prog.inst[fn]
    vec_ty = f['locals'][1]
    runner = native.Runner()
    try:
        for n in (2, 3):
            text = "M DEFINITIONS ::= BEGIN " + ' '.join(f"T{i} ::= BOOLEAN" for i in range(n)) + " END"
            nat = runner.compile(text, backend='ir')
            names = [[z3.BitVec(f"n{i}_{j}", 32) for j in range(2)] for i in range(n)]

            def run(ex):
                for nm in names:
                    ex.assume(z3.And(z3.UGE(nm[0], 65), z3.ULE(nm[0], 90), z3.UGE(nm[1], 97), z3.ULE(nm[1], 122)))
                gen = bridge.Gen(prog)
                v = gen.load_module(ex, nat['ir'][0]['tlds'])
                ir = IR(ex)
                for i, tld in enumerate(ir.items(v)):
                    td = ir.f(ir.f(tld).fields[0])
                    idx = ex.p.field_index(td.ty, 0, 'name')
                    td.fields[idx] = StringV(names[i])
                val = ex.call(fn, [v])
                return val
            for r in chk.explore(run):
                if r.kind != 'ok':
                    if r.kind == 'panic':
                        chk.violation('C10 validator-new panic', str(r.value), {'kind': 'kernel'})
                    continue
                ir = IR(chk.ex)
                mp = ir.f(ir.get(r.value, 'tlds'))
                kept = len(mp.entries)
                chk.res.obligations += 1
                if kept == n:
                    chk.res.discharged += 1
                    chk.witness('all definitions kept')
                    continue
                s = z3.Solver()
                for c in r.pc:
                    s.add(c)
                if s.check() != z3.sat:
                    continue
                m = s.model()
                nms = [''.join(chr(model_int(m, c, False)) for c in nm) for nm in names]
                # native replay: the same names in different modules
                mods = '\n'.join(f"M{i} DEFINITIONS ::= BEGIN {nm} ::= {'BOOLEAN' if i else 'INTEGER (0..5)'} END" for i, nm in enumerate(nms))
                out = runner.compile(mods)
                lost = []
                if out.get('ok'):
                    got = re.findall(r'pub mod (\w+)', out['generated'])
                    lost = [f"m{i}" for i in range(len(nms)) if f"m{i}" not in got]
                    if lost and not out['warnings']:
                        chk.violation('C10 same name in two modules', f"{kept} of {n} definitions survive Validator::new when names collide ({nms}); native: modules {lost} vanish without warning: {mods!r}", {'kind': 'text', 'text': mods})
                        continue
                chk.res.inconclusive.append(f"name collision not reproduced natively: {nms}")
            chk.sample({'kernel': VNEW, 'definitions': n, 'names': 'symbolic 2-character type references'})
    finally:
        runner.close()


def shapes(tier):
    out = []
    kinds = list(BAD)
    maxk = 2 if tier == 'quick' else 3
    for k in range(1, maxk + 1):
        for pos in itertools.combinations(range(4), k):
            for ks in (itertools.product(kinds, repeat=k) if tier != 'quick' else [tuple(kinds[(p + i) % len(kinds)] for i, p in enumerate(pos)), tuple(kinds[(2 * p + i + 3) % len(kinds)] for i, p in enumerate(pos))]):
                defs = list(GOOD)
                for p, kd in zip(pos, ks):
                    nm = NAMES[p][0].upper() + NAMES[p][1:]
                    defs[p] = BAD[kd].format(n=nm, N=nm.upper())
                if any('y Aa' in d for d in defs) and 0 in pos:
                    # Bb depends on Aa: replace the dependency by a self-contained component
                    defs = [d.replace('y Aa OPTIONAL', 'y NULL OPTIONAL') for d in defs]
                text = f"M DEFINITIONS AUTOMATIC TAGS ::= BEGIN {' '.join(defs)} END"
                keep = [NAMES[i] for i in range(4) if i not in pos]
                base_defs = [d.replace('y Aa OPTIONAL', 'y NULL OPTIONAL') if (0 in pos) else d for i, d in enumerate(GOOD) if i not in pos]
                base = f"M DEFINITIONS AUTOMATIC TAGS ::= BEGIN {' '.join(base_defs)} END"
                out.append((f"C10 replaced[{','.join(f'{NAMES[p]}:{kd}' for p, kd in zip(pos, ks))}]", text, {'keep': keep, 'replaced': [NAMES[p] for p in pos], 'base': base, 'kinds': ks}))
    # modules in which EVERY definition is unsupported (alone and next to a healthy module): nothing is generated for
    # them, so each definition must be the subject of a warning
    allbad = [('real',), ('videotex',), ('time',), ('inverted',), ('real', 'videotex'), ('setof-real', 'time'), ('real', 'inverted'), ('macro',), ('choice-real', 'real', 'videotex')]
    allbad += [('inverted', 'inverted'), ('inverted', 'inverted', 'inverted')]
    if tier == 'quick':
        allbad = allbad[:2] + allbad[3:7] + allbad[8:]
    for ks in allbad:
        nms = ['Aa', 'Bb', 'Dd'][:len(ks)]
        defs = [BAD[kd].format(n=nm, N=nm.upper()) for nm, kd in zip(nms, ks)]
        for other in (False, True):
            text = f"M DEFINITIONS AUTOMATIC TAGS ::= BEGIN {' '.join(defs)} END"
            base = None
            if other:
                base = "Good DEFINITIONS AUTOMATIC TAGS ::= BEGIN Zz ::= SEQUENCE { x BOOLEAN } END"
                text = base + "\n" + text
            out.append((f"C10 every definition unsupported[{','.join(ks)}]{' next to a healthy module' if other else ''}", text,
                        {'keep': ['Zz'] if other else [], 'replaced': nms, 'base': base, 'kinds': ks}))
    for tn in TYPE_NAMES:
        for ty, val in TYPED_VALUES:
            ty, val = ty.format(), val.format()
            mt = tn.replace('-', '')
            MANGLED[tn] = mt
            text = f"M DEFINITIONS AUTOMATIC TAGS ::= BEGIN {tn} ::= {ty} va {tn} ::= {val} END"
            out.append((f"C10 value of the referenced type {'<single letter>' if len(tn) == 1 else '<all capitals>' if tn.isupper() and tn.isalpha() else '<mixed>'} ::= {ty.split('{')[0].strip()}", text,
                        {'keep': [tn, 'va'], 'replaced': [], 'base': None, 'kinds': ()}))
    # definitions spelled like a name that another notation introduces LOCALLY (dummy reference of a template, named number,
    # enumeral, component identifier): the local name must not make the module-level definition disappear
    for label, defs, keep in LOCAL_NAME_CLASHES:
        for rev in (False, True):
            ds = list(reversed(defs)) if rev else defs
            text = f"M DEFINITIONS AUTOMATIC TAGS ::= BEGIN {' '.join(ds)} END"
            out.append((f"C10 definition spelled like {label}{' (reversed)' if rev else ''}", text, {'keep': keep, 'replaced': [], 'base': None, 'kinds': ()}))
    return out


LOCAL_NAME_CLASHES = [
    ("a dummy value reference", ["Bounded {INTEGER: limit} ::= INTEGER (0..limit)", "limit INTEGER ::= 7", "Small ::= Bounded {300}", "Other ::= BOOLEAN"], ['limit', 'Small', 'Other']),
    ("a dummy value reference of an unused template", ["Bounded {INTEGER: limit} ::= INTEGER (0..limit)", "limit INTEGER ::= 7", "Other ::= BOOLEAN"], ['limit', 'Other']),
    ("a dummy type reference <template sorts later>", ["Wrapper {Item} ::= SEQUENCE { x Item }", "Item ::= OCTET STRING", "Wrapped ::= Wrapper {BOOLEAN}"], ['Item', 'Wrapped']),
    ("a dummy type reference <template sorts earlier>", ["Aw {Item} ::= SEQUENCE { x Item }", "Item ::= OCTET STRING", "Wrapped ::= Aw {BOOLEAN}"], ['Item', 'Wrapped']),
    ("a dummy type reference of an unused template", ["Wrapper {Item} ::= SEQUENCE OF Item", "Item ::= OCTET STRING", "Other ::= NULL"], ['Item', 'Other']),
    ("two dummy references", ["Pair {Item, INTEGER: limit} ::= SEQUENCE (SIZE (0..limit)) OF Item", "Item ::= BOOLEAN", "limit INTEGER ::= 3", "Pp ::= Pair {NULL, 9}"], ['Item', 'limit', 'Pp']),
    ("a named number", ["Level ::= INTEGER { lo(1), hi(9) } (lo..hi)", "lo INTEGER ::= 3", "Other ::= BOOLEAN"], ['Level', 'lo', 'Other']),
    ("an enumeral", ["Colour ::= ENUMERATED { red, green }", "red BOOLEAN ::= TRUE", "dflt Colour ::= green"], ['Colour', 'red', 'dflt']),
    ("a component identifier", ["Rec ::= SEQUENCE { item BOOLEAN, other INTEGER DEFAULT 4 }", "item INTEGER ::= 2", "other BOOLEAN ::= FALSE"], ['Rec', 'item', 'other']),
    ("a named bit", ["Flags ::= BIT STRING { up(0), down(1) }", "up INTEGER ::= 1", "vv Flags ::= { up }"], ['Flags', 'up', 'vv']),
]
for _l, _d, _k in LOCAL_NAME_CLASHES:
    for _n in _k:
        MANGLED.setdefault(_n, _n.upper() if _n[0].islower() else _n)


BASE_CACHE = {}


def judge_factory(runner):
    def judge(items, info, chk, pc, nwarn):
        fails = []
        mods = [i for i in items if i.kind == 'mod']
        its = {i.name: i for i in tokproj.find_items(items) if i.kind in ('struct', 'enum', 'const', 'static')}
        # every definition accounted for
        missing = [n for n in info['keep'] if MANGLED[n] not in its]
        if missing:
            fails.append(('lost-untouched', f"supported definitions {missing} are missing from the output"))
        unaccounted = len([n for n in info['replaced'] if (n[0].upper() + n[1:]) not in its and (n.upper()) not in its]) - nwarn
        if unaccounted > 0:
            fails.append(('silent-loss', f"{unaccounted} replaced definition(s) are neither generated nor reported by a warning ({nwarn} warnings)"))
        # locality: untouched definitions are identical to the module without the replaced ones
        if info['base'] is None:
            BASE_CACHE[None] = None
        if info['base'] not in BASE_CACHE:
            b = runner.compile(info['base'])
            BASE_CACHE[info['base']] = {i.name: tokproj.safe_str(tokproj.TS(i.raw)) for i in tokproj.find_items(tokproj.project_text(b['generated'])) if i.kind != 'mod'} if b.get('ok') else None
        base = BASE_CACHE[info['base']]
        if base is not None:
            allits = {i.name: tokproj.safe_str(tokproj.TS(i.raw)) for i in tokproj.find_items(items) if i.kind != 'mod'}
            for n, txt in base.items():
                if n in allits and allits[n] != txt:
                    fails.append(('locality', f"the bindings of {n} change when other definitions are unsupported"))
                elif n not in allits and n not in ('m', 'good'):
                    fails.append(('locality', f"{n} disappears when other definitions are unsupported"))
        if chk is not None:
            chk.res.obligations += 1
            if not fails:
                chk.res.discharged += 1
        return fails
    return judge


def job_native_dups(prog, chk, tier):
    runner = native.Runner()
    try:
        cases = [("M1 DEFINITIONS ::= BEGIN Aa ::= INTEGER (0..5) END\nM2 DEFINITIONS ::= BEGIN Aa ::= BOOLEAN Bb ::= NULL END", ['m1', 'm2']),
                 ("M1 DEFINITIONS ::= BEGIN va INTEGER ::= 5 END\nM2 DEFINITIONS ::= BEGIN va BOOLEAN ::= TRUE END", ['m1', 'm2']),
                 ("M1 DEFINITIONS ::= BEGIN Aa ::= INTEGER END\nM2 DEFINITIONS ::= BEGIN IMPORTS Aa FROM M1; Bb ::= SEQUENCE { a Aa } END", ['m1', 'm2'])]
        for text, mods in cases:
            out = runner.compile(text)
            chk.res.obligations += 1
            if not out.get('ok'):
                chk.res.discharged += 1
                continue
            got = re.findall(r'pub mod (\w+)', out['generated'])
            lost = [m for m in mods if m not in got]
            if lost and not out['warnings']:
                chk.violation('C10 same name in two modules', f"module(s) {lost} vanish without a warning: {text!r}", {'kind': 'text', 'text': text})
            else:
                chk.res.discharged += 1
                chk.res.diff_ok += 1
    finally:
        runner.close()


def run_job(prog, job, tier, seed):
    if job.startswith('pipe'):
        from mirsym import pipe
        from mirsym.harness import program
        chk = Checker(program(pipe.dump()), job)
        job_pipe(chk, int(job[4:]), tier)
        return chk.res
    chk = Checker(prog, job)
    if job == 'validator-new':
        job_validator_new(prog, chk, tier)
    elif job == 'native-dups':
        job_native_dups(prog, chk, tier)
    else:
        i = int(job[7:])
        gen = bridge.Gen(prog)
        runner = native.Runner()
        stats = {}
        try:
            bridge.run_text_shapes(chk, gen, runner, shapes(tier)[i::4], judge_factory(runner), stats)
        finally:
            runner.close()
        chk.res.notes.append(f"{job}: {stats}")
    return chk.res
