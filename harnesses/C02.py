"""C02  Constructed types keep every component, in order, with the right shape."""
import itertools
from mirsym.core import *
from mirsym import bridge, native, tokproj
from mirsym.harness import Checker
from mirsym.tokproj import TS, TIdent, TPunct, TGroup, safe_str, is_id, is_p, idname

ROOTS = list(bridge.GEN_ROOTS)
ASSUMPTIONS = [
    "text shapes: lexer+linker run natively (shape bridge); the real generator MIR (generate_module -> generate_sequence_or_set / generate_choice / generate_sequence_or_set_of, format_*_members, constraints_and_type_name ...) is executed by mirsym on the linked IR; DEFAULT integers are free i128 variables",
    "the expectation is derived from the text by an independent structural matcher (names, order, Option/default/Box, type mapping table, hoisted anonymous items used exactly once)",
    "COMPONENTS OF, parameterization and class fields are outside (grammar of DESIGN.md §3)",
]
NCHUNK = 16

PRIMS = {'BOOLEAN': 'bool', 'NULL': '()', 'INTEGER': 'Integer', 'BIT STRING': 'BitString', 'OCTET STRING': 'OctetString', 'OBJECT IDENTIFIER': 'ObjectIdentifier',
         'NumericString': 'NumericString', 'PrintableString': 'PrintableString', 'VisibleString': 'VisibleString', 'IA5String': 'Ia5String', 'BMPString': 'BmpString',
         'UniversalString': 'UniversalString', 'UTF8String': 'Utf8String', 'TeletexString': 'TeletexString', 'GeneralString': 'GeneralString', 'GraphicString': 'GraphicString',
         'UTCTime': 'UtcTime', 'GeneralizedTime': 'GeneralizedTime', 'ANY': 'Any', 'REAL': 'f64'}


class Ty:
    def __init__(self, kind, **kw):
        self.kind = kind
        self.__dict__.update(kw)

    def text(self):
        k = self.kind
        if k == 'prim':
            return getattr(self, 'src', None) or self.name      # src: a notation that the linker expands to this primitive type
        if k == 'ref':
            return self.name
        if k in ('seq', 'set'):
            return ('SEQUENCE' if k == 'seq' else 'SET') + ' { ' + ', '.join(m.text() for m in self.members) + ' }'
        if k == 'choice':
            return 'CHOICE { ' + ', '.join(m.text() for m in self.members) + ' }'
        if k == 'enum':
            return 'ENUMERATED { ' + ', '.join(self.items) + ' }'
        if k in ('seqof', 'setof'):
            return ('SEQUENCE' if k == 'seqof' else 'SET') + ' OF ' + self.elem.text()
        raise ValueError(k)

    def refs(self):
        k = self.kind
        if k == 'ref':
            return {self.name}
        if k in ('seq', 'set', 'choice'):
            out = set()
            for m in self.members:
                out |= m.ty.refs()
            return out
        if k in ('seqof', 'setof'):
            return self.elem.refs()
        return set()

    def reaches(self, name):
        k = self.kind
        if k == 'ref':
            return self.name == name
        if k in ('seq', 'set', 'choice'):
            return any(m.ty.reaches(name) for m in self.members)
        if k in ('seqof', 'setof'):
            return self.elem.reaches(name)
        return False


class Mem:
    def __init__(self, name, ty, opt='req', default=None):
        self.name, self.ty, self.opt, self.default = name, ty, opt, default

    def rust(self, is_struct):
        """the Rust spelling the property prescribes: snake case for components, hyphens replaced for alternatives"""
        import re
        if not is_struct:
            return self.name.replace('-', '_')
        return re.sub(r'(?<=[a-z0-9])([A-Z])', r'_\1', self.name).replace('-', '_').lower()

    def text(self):
        s = f"{self.name} {self.ty.text()}"
        if self.opt == 'optional':
            s += ' OPTIONAL'
        elif self.opt == 'default':
            s += f" DEFAULT {self.default}"
        return s


def P(n):
    return Ty('prim', name=n)


def R(n):
    return Ty('ref', name=n)


def interesting(tier):
    """(label, type factory, allowed optionality, default text)"""
    out = []
    prims = list(PRIMS) if tier != 'quick' else ['BOOLEAN', 'NULL', 'INTEGER', 'BIT STRING', 'OCTET STRING', 'OBJECT IDENTIFIER', 'IA5String', 'UTF8String', 'BMPString', 'UTCTime', 'ANY', 'REAL']
    for p in prims:
        dflt = {'BOOLEAN': 'TRUE', 'INTEGER': '1000003', 'NULL': 'NULL'}.get(p)
        out.append((p, lambda p=p: P(p), ['req', 'optional'] + (['default'] if dflt else []), dflt))
    out.append(('ref R', lambda: R('R'), ['req', 'optional'], None))
    out.append(('ref T (recursive)', lambda: R('T'), ['optional'], None))
    inner = [('NULL', lambda: P('NULL')), ('ref R', lambda: R('R')), ('ref T', lambda: R('T')), ('anon seq', lambda: Ty('seq', members=[Mem('u', P('BOOLEAN'))]))]
    if tier != 'quick':
        inner += [('anon choice', lambda: Ty('choice', members=[Mem('u', P('NULL')), Mem('v', P('BOOLEAN'))])), ('seqof R', lambda: Ty('seqof', elem=R('R'))), ('enum', lambda: Ty('enum', items=['one', 'two']))]
    for il, inn in inner:
        rec_opt = 'optional' if il == 'ref T' else 'req'
        out.append((f"anon SEQUENCE {{..{il}}}", lambda inn=inn, ro=rec_opt: Ty('seq', members=[Mem('x', P('NULL')), Mem('y', inn(), ro)]), ['req', 'optional'], None))
        out.append((f"anon SET {{..{il}}}", lambda inn=inn, ro=rec_opt: Ty('set', members=[Mem('x', P('NULL')), Mem('y', inn(), ro)]), ['req', 'optional'], None))
        out.append((f"anon CHOICE {{..{il}}}", lambda inn=inn: Ty('choice', members=[Mem('p', P('NULL')), Mem('q', inn())]), ['req', 'optional'], None))
        out.append((f"SEQUENCE OF {il}", lambda inn=inn: Ty('seqof', elem=inn()), ['req', 'optional'], None))
        out.append((f"SET OF {il}", lambda inn=inn: Ty('setof', elem=inn()), ['req', 'optional'], None))
    out.append(('anon ENUMERATED', lambda: Ty('enum', items=['one', 'two', 'three']), ['req', 'optional'], None))
    # collections of collections of an anonymous constructed type (the innermost type still needs an item of its own)
    deep = [('anon seq', lambda: Ty('seq', members=[Mem('u', P('BOOLEAN')), Mem('w', P('INTEGER'), 'optional')])), ('anon enum', lambda: Ty('enum', items=['on', 'off'])),
            ('anon choice', lambda: Ty('choice', members=[Mem('u', P('NULL')), Mem('v', P('BOOLEAN'))])), ('ref R', lambda: R('R'))]
    for il, inn in deep:
        out.append((f"SEQUENCE OF SEQUENCE OF {il}", lambda inn=inn: Ty('seqof', elem=Ty('seqof', elem=inn())), ['req', 'optional'], None))
        out.append((f"SET OF SEQUENCE OF {il}", lambda inn=inn: Ty('setof', elem=Ty('seqof', elem=inn())), ['req'], None))
        if tier != 'quick':
            out.append((f"SEQUENCE OF SET OF SET OF {il}", lambda inn=inn: Ty('seqof', elem=Ty('setof', elem=Ty('setof', elem=inn()))), ['req', 'optional'], None))
    return out


def shapes(tier):
    out = []
    ns = [1, 3] if tier == 'quick' else [1, 2, 3, 4, 6, 12]
    for cont in ('seq', 'set', 'choice'):
        for n in ns:
            positions = sorted({0, n - 1}) if tier == 'quick' else range(n)
            for p in positions:
                for label, mk, opts, dflt in interesting(tier):
                    for opt in opts:
                        if cont == 'choice' and opt != 'req':
                            continue
                        if cont == 'choice' and label == 'ref T (recursive)':
                            continue
                        members = []
                        for i in range(n):
                            if i == p:
                                members.append(Mem(f"m{i}", mk(), opt, dflt if opt == 'default' else None))
                            else:
                                members.append(Mem(f"m{i}", P(['BOOLEAN', 'INTEGER', 'NULL'][i % 3])))
                        t = Ty(cont, members=members)
                        text = f"M DEFINITIONS AUTOMATIC TAGS ::= BEGIN R ::= SEQUENCE {{ z BOOLEAN }} T ::= {t.text()} END"
                        sig = f"C02 {cont} n={n} pos={p} member[{label}] {opt}"
                        out.append((sig, text, {'top': t}))
    # DEFAULT components of types whose ASN.1 name and Rust name snake-case differently (hyphen before a digit / after a
    # capital): annotation, function and impl Default must agree on the function name
    for asn, rust in (('Type-1', 'Type1'), ('PDU-Header', 'PDUHeader'), ('E-RABItem', 'ERABItem'), ('My-type', 'MyType'), ('A1-b2', 'A1B2')):
        for cont in ('seq', 'set'):
            for alld in (False, True):
                members = [Mem('ack', P('BOOLEAN'), 'default', 'TRUE'), Mem('n1', P('INTEGER'), 'default' if alld else 'req', '5' if alld else None)]
                t = Ty(cont, members=members)
                out.append((f"C02 {cont} named {asn} with DEFAULT components{' only' if alld else ''}", f"M DEFINITIONS AUTOMATIC TAGS ::= BEGIN {asn} ::= {t.text()} END", {'top': t, 'defs': [(rust, t)]}))
    # component identifiers that resemble the names the compiler uses internally (synthetic extension-group members
    # `ext_group_<first>`, hoisted `Inner` / `Anonymous` / `Item` types): they are ordinary components
    for nm in ('ext-group-id', 'extGroupInfo', 'ext-group-1', 'inner', 'anonymous-item', 'item'):
        for cont in ('seq', 'set', 'choice'):
            for opt in (('req',) if cont == 'choice' else ('req', 'optional', 'default')):
                for inner in ('prim', 'anon'):
                    ity = P('INTEGER') if inner == 'prim' else Ty('seq', members=[Mem('k', P('NULL'))])
                    if inner == 'anon' and opt == 'default':
                        continue
                    members = [Mem('first', P('BOOLEAN'), 'req' if cont == 'choice' else 'optional'), Mem(nm, ity, opt, '5' if opt == 'default' else None), Mem('last', P('NULL'))]
                    t = Ty(cont, members=members)
                    out.append((f"C02 {cont} member named {nm} [{inner}] {opt}", f"M DEFINITIONS AUTOMATIC TAGS ::= BEGIN R ::= SEQUENCE {{ z BOOLEAN }} T ::= {t.text()} END", {'top': t}))
    # members written in a notation that the linker EXPANDS (fixed-type class field, selection type): the linker rebuilds the enclosing
    # constructed types while expanding - kind (SET stays a set), order, optionality and nesting must survive
    for nl, src in (('class field', 'CLS.&flag'), ('selection', 'b < Ch')):
        for cont in ('seq', 'set', 'choice'):
            for inner in ('direct', 'in anon SET', 'in anon SEQUENCE', 'next to anon SET', 'in SET OF SET'):
                for opt in (('req',) if cont == 'choice' or inner != 'direct' else ('req', 'optional')):
                    x = Ty('prim', name='BOOLEAN', src=src)
                    if inner == 'direct':
                        members = [Mem('first', P('NULL')), Mem('x', x, opt), Mem('last', P('INTEGER'))]
                    elif inner == 'next to anon SET':
                        members = [Mem('x', x, opt), Mem('s', Ty('set', members=[Mem('k', P('NULL')), Mem('l', P('BOOLEAN'))])), Mem('last', P('INTEGER'))]
                    elif inner == 'in SET OF SET':
                        members = [Mem('first', P('NULL')), Mem('s', Ty('setof', elem=Ty('set', members=[Mem('k', P('NULL')), Mem('x', x)])))]
                    else:
                        members = [Mem('first', P('NULL')), Mem('s', Ty('set' if 'SET' in inner else 'seq', members=[Mem('k', P('NULL')), Mem('x', x)])), Mem('last', P('INTEGER'))]
                    t = Ty(cont, members=members)
                    out.append((f"C02 {cont} member written as {nl} {inner} {opt}",
                                f"M DEFINITIONS AUTOMATIC TAGS ::= BEGIN R ::= SEQUENCE {{ z BOOLEAN }} CLS ::= CLASS {{ &flag BOOLEAN, &Type }} Ch ::= CHOICE {{ a NULL, b BOOLEAN }} T ::= {t.text()} END", {'top': t, 'ignore_items': ['Ch']}))
    # COMPONENTS OF copies the ROOT components of the referenced type only (X.680 25.5): nothing of what follows its marker
    for cont, kw in (('seq', 'SEQUENCE'), ('set', 'SET')):
        for adds, label in (("x BOOLEAN, y OCTET STRING OPTIONAL", 'additions'), ("[[ 2: g1 BOOLEAN, g2 NULL OPTIONAL ]]", 'an addition group'), ("", 'no additions')):
            base_t = Ty(cont, members=[Mem('a', P('INTEGER'))])
            base_t.extensible = True
            derived = Ty(cont, members=[Mem('b', P('NULL')), Mem('a', P('INTEGER'))])
            text = f"M DEFINITIONS AUTOMATIC TAGS ::= BEGIN Base ::= {kw} {{ a INTEGER, ...{', ' + adds if adds else ''} }} Derived ::= {kw} {{ b NULL, COMPONENTS OF Base }} END"
            out.append((f"C02 {cont} COMPONENTS OF an extensible type with {label}", text, {'top': derived, 'defs': [('Derived', derived)], 'ignore_items': ['Base', 'BaseExtGroupG1']}))
    # reference cycles over several type assignments (mutual recursion), optionally through anonymous nested types
    conts = ('seq', 'set', 'choice')

    def wrap(kind, inner_mem):
        """anonymous nested constructed type containing the member"""
        if kind is None:
            return inner_mem.ty, inner_mem.opt
        if kind == 'choice':
            return Ty('choice', members=[Mem('n1', P('NULL')), Mem('n2', inner_mem.ty)]), 'req'
        return Ty(kind, members=[Mem('n1', P('NULL')), Mem('n2', inner_mem.ty, inner_mem.opt)]), 'req'
    nestings = [None, 'set', 'seq', 'choice'] if tier != 'quick' else [None, 'set']
    for k1, k2 in itertools.product(conts, conts):
        for nest in nestings:
            o1 = 'req' if k1 == 'choice' else 'optional'
            o2 = 'req' if k2 == 'choice' else 'optional'
            t1, w1 = wrap(nest, Mem('x', R('Bb'), o1))
            a = Ty(k1, members=[Mem('c', P('INTEGER')), Mem('f', t1, w1 if k1 != 'choice' else 'req')])
            b = Ty(k2, members=[Mem('d', P('BOOLEAN')), Mem('g', R('Aa'), o2)])
            text = f"M DEFINITIONS AUTOMATIC TAGS ::= BEGIN Aa ::= {a.text()} Bb ::= {b.text()} END"
            out.append((f"C02 cycle2 {k1}/{k2} nest={nest}", text, {'defs': [('Aa', a), ('Bb', b)]}))
    for k1, k2, k3 in (itertools.product(conts, conts, conts) if tier != 'quick' else [('set', 'set', 'seq'), ('seq', 'choice', 'set'), ('choice', 'set', 'set')]):
        ms = []
        for k, nxt, nm in ((k1, 'Bb', 'Aa'), (k2, 'Cc', 'Bb'), (k3, 'Aa', 'Cc')):
            ms.append((nm, Ty(k, members=[Mem('c', P('INTEGER')), Mem('f', R(nxt), 'req' if k == 'choice' else 'optional')])))
        text = "M DEFINITIONS AUTOMATIC TAGS ::= BEGIN " + ' '.join(f"{n} ::= {t.text()}" for n, t in ms) + " END"
        out.append((f"C02 cycle3 {k1}/{k2}/{k3}", text, {'defs': ms}))
    # extension additions after the marker: every component still there, in source order (marking is C05's subject)
    for cont in ('seq', 'set'):
        for r, a in ((1, 2), (1, 3), (2, 3), (2, 1), (0, 2), (3, 4)) if tier == 'quick' else itertools.product(range(0, 5), range(1, 6)):
            for nested in (False, True):
                ms = [Mem(f"m{i}", P(['BOOLEAN', 'INTEGER', 'NULL'][i % 3]), 'req' if i < r else 'optional') for i in range(r + a)]
                body = ', '.join([m.text() for m in ms[:r]] + ['...'] + [m.text() for m in ms[r:]])
                kw = 'SEQUENCE' if cont == 'seq' else 'SET'
                t = Ty(cont, members=ms)
                if nested:
                    text = f"M DEFINITIONS AUTOMATIC TAGS ::= BEGIN R ::= SEQUENCE {{ z BOOLEAN }} T ::= SEQUENCE {{ o {kw} {{ {body} }}, p NULL }} END"
                    top = Ty('seq', members=[Mem('o', t), Mem('p', P('NULL'))])
                else:
                    text = f"M DEFINITIONS AUTOMATIC TAGS ::= BEGIN R ::= SEQUENCE {{ z BOOLEAN }} T ::= {kw} {{ {body} }} END"
                    top = t
                out.append((f"C02 {cont} extension additions root={r} additions={a}{' nested' if nested else ''}", text, {'top': top}))
    # SEQUENCE OF / SET OF at top level
    for k in ('seqof', 'setof'):
        for label, mk, opts, dflt in interesting(tier):
            if 'recursive' in label or label == 'REAL':
                continue   # a hoisted REAL type is unsupported and reported as a warning (C10), not judged here
            t = Ty(k, elem=mk())
            text = f"M DEFINITIONS AUTOMATIC TAGS ::= BEGIN R ::= SEQUENCE {{ z BOOLEAN }} T ::= {t.text()} END"
            out.append((f"C02 top {k} of [{label}]", text, {'top': t}))
    return out


# ---- structural matcher --------------------------------------------------------------------------------------------
def strip_wrapper(ty, name):
    """tokens inside  name < ... >  or None"""
    if len(ty) >= 4 and is_id(ty[0], name) and is_p(ty[1], '<') and is_p(ty[-1], '>'):
        return ty[2:-1]
    return None


def flags_of(attrs):
    fl = {}
    for a in attrs:
        if a.path == 'rasn':
            for it in a.items():
                if it and isinstance(it[0], TIdent):
                    fl[idname(it[0])] = it
    return fl


class Matcher:
    def __init__(self, items):
        self.items = [it for it in tokproj.find_items(items) if it.kind in ('struct', 'enum')]
        self.fns = {it.name for it in tokproj.find_items(items, 'fn')}
        # default functions called by `impl Default for X` blocks
        self.default_calls = []
        def idents(ts):
            for t in ts.toks:
                if isinstance(t, TIdent):
                    yield idname(t)
                elif hasattr(t, 'ts'):
                    yield from idents(t.ts)
        for im in tokproj.find_items(items, 'impl'):
            if im.trait and any(isinstance(t, TIdent) and idname(t) == 'Default' for t in im.trait):
                for f in im.items:
                    if f.kind == 'fn':
                        self.default_calls += [(im.name, i) for i in idents(f.body) if i.endswith('_default')]
        self.by_name = {}
        self.dups = []
        for it in self.items:
            if it.name in self.by_name:
                self.dups.append(it.name)
            self.by_name[it.name] = it
        self.used = set()
        self.fails = []
        self.edges = {}    # by-value type graph: item name -> set of item names
        self.defs = {}
        self.cur_top = None

    def fail(self, oracle, msg):
        self.fails.append((oracle, msg))

    def leads_back(self, ty):
        """does the component type reach (through references) the top-level type being matched?"""
        seen = set()
        todo = list(ty.refs())
        while todo:
            n = todo.pop()
            if n == self.cur_top:
                return True
            if n in seen or n not in self.defs:
                continue
            seen.add(n)
            todo += list(self.defs[n].refs())
        return False

    def use(self, name):
        if name in self.used and name not in self.defs:
            self.fail('duplicate-use', f"hoisted item {name} is used twice")
        self.used.add(name)

    def match_named(self, item_name, ty, where):
        it = self.by_name.get(item_name)
        if it is None:
            self.fail('missing-item', f"{where}: item {item_name} not generated")
            return
        self.match_item(it, ty, where)

    def match_item(self, it, ty, where):
        k = ty.kind
        fl = flags_of(it.attrs)
        if k in ('seq', 'set'):
            if it.kind != 'struct' or it.tuple:
                self.fail('kind', f"{where}: {it.name} is not a struct with named fields")
                return
            if ('set' in fl) != (k == 'set'):
                self.fail('set-marking', f"{where}: {it.name} set marking {'set' in fl}, expected {k == 'set'}")
            self.match_members(it, it.fields, ty.members, where, True)
        elif k == 'choice':
            if it.kind != 'enum' or 'choice' not in fl:
                self.fail('kind', f"{where}: {it.name} is not a #[rasn(choice)] enum")
                return
            self.match_members(it, it.variants, ty.members, where, False)
        elif k == 'enum':
            if it.kind != 'enum' or 'enumerated' not in fl:
                self.fail('kind', f"{where}: {it.name} is not a #[rasn(enumerated)] enum")
                return
            if [v.name for v in it.variants] != ty.items:
                self.fail('members', f"{where}: enumerals {[v.name for v in it.variants]} expected {ty.items}")
        elif k in ('seqof', 'setof'):
            if it.kind != 'struct' or not it.tuple or 'delegate' not in fl or len(it.fields) != 1:
                self.fail('kind', f"{where}: {it.name} is not a delegate newtype")
                return
            self.match_type(it.fields[0].ty, ty, it.name, where + '.0', allow_hoist=False)
        elif k in ('prim', 'ref'):
            if it.kind != 'struct' or not it.tuple or 'delegate' not in fl or len(it.fields) != 1:
                self.fail('kind', f"{where}: {it.name} is not a delegate newtype")
                return
            self.match_type(it.fields[0].ty, ty, it.name, where + '.0', allow_hoist=False)

    def match_members(self, it, fields, members, where, is_struct):
        if [f.name for f in fields] != [m.rust(is_struct) for m in members]:
            self.fail('members', f"{where}: {it.name} has members {[f.name for f in fields]}, source has {[m.name for m in members]}")
            return
        for f, m in zip(fields, members):
            w = f"{where}.{m.name}"
            ty = f.ty if is_struct else (f.fields[0].ty if f.fields else [])
            fl = flags_of(f.attrs)
            inner = strip_wrapper(ty, 'Option')
            if is_struct:
                if (inner is not None) != (m.opt == 'optional'):
                    self.fail('optional', f"{w}: Option<_>={inner is not None}, source optionality {m.opt}")
                if ('default' in fl) != (m.opt == 'default'):
                    self.fail('default', f"{w}: default attribute {'default' in fl}, source optionality {m.opt}")
                elif m.opt == 'default':
                    lit = tokproj.lit_chars(fl['default'][2]) if len(fl['default']) > 2 else None
                    fname = ''.join(map(chr, lit)) if lit and is_conc_chars(lit) else None
                    if fname not in self.fns:
                        self.fail('default-fn', f"{w}: default function {fname} not generated")
            if inner is not None:
                ty = inner
            boxed = strip_wrapper(ty, 'Box')
            if boxed is not None:
                ty = boxed
                if not self.leads_back(m.ty):
                    self.fail('box', f"{w}: Box<_> on a component that is not recursive")
            self.match_type(ty, m.ty, it.name, w, boxed=boxed is not None)

    def match_type(self, ty, spec, owner, where, allow_hoist=True, boxed=False):
        k = spec.kind
        s = safe_str(TS(ty)).replace(' ', '')
        if k == 'prim':
            if s != PRIMS[spec.name].replace(' ', ''):
                # a constrained / tagged primitive may be wrapped; an unconstrained one must map directly
                self.fail('type', f"{where}: type {s}, expected {PRIMS[spec.name]}")
            return
        if k == 'ref':
            if s != spec.name:
                self.fail('type', f"{where}: type {s}, expected reference {spec.name}")
            elif not boxed:
                self.edges.setdefault(owner, set()).add(spec.name)
            return
        if k in ('seqof', 'setof'):
            inner = strip_wrapper(ty, 'SequenceOf' if k == 'seqof' else 'SetOf')
            if inner is None:
                other = strip_wrapper(ty, 'SetOf' if k == 'seqof' else 'SequenceOf')
                if other is not None:
                    self.fail('set-of-marking', f"{where}: {s} for a {'SEQUENCE' if k == 'seqof' else 'SET'} OF")
                    return
                if allow_hoist and len(ty) == 1 and isinstance(ty[0], TIdent):
                    nm = idname(ty[0])
                    self.use(nm)
                    if not boxed:
                        self.edges.setdefault(owner, set()).add(nm)
                    self.match_named(nm, spec, where)
                    return
                self.fail('type', f"{where}: type {s}, expected {'SequenceOf' if k == 'seqof' else 'SetOf'}<_>")
                return
            # element: direct for primitives / references, hoisted item otherwise (indirection: no by-value edge)
            e = spec.elem
            if e.kind in ('prim', 'ref'):
                es = safe_str(TS(inner)).replace(' ', '')
                want = PRIMS[e.name] if e.kind == 'prim' else e.name
                if es != want.replace(' ', ''):
                    # the element may be wrapped into a hoisted delegate newtype (Anonymous..)
                    if len(inner) == 1 and isinstance(inner[0], TIdent) and idname(inner[0]) in self.by_name and idname(inner[0]) not in self.defs:
                        nm = idname(inner[0])
                        self.use(nm)
                        self.match_named(nm, e, where + '[]')
                    else:
                        self.fail('type', f"{where}: element type {es}, expected {want}")
            elif e.kind in ('seqof', 'setof') and not (len(inner) == 1 and isinstance(inner[0], TIdent)):
                # a collection of a collection may be written inline: SequenceOf<SequenceOf<..>>
                self.match_type(inner, e, owner, where + '[]', allow_hoist=True, boxed=True)
            else:
                if len(inner) == 1 and isinstance(inner[0], TIdent):
                    nm = idname(inner[0])
                    self.use(nm)
                    self.match_named(nm, e, where + '[]')
                else:
                    self.fail('type', f"{where}: element type {safe_str(TS(inner))} is not a hoisted item")
            return
        # anonymous constructed type: hoisted item used exactly once
        if len(ty) == 1 and isinstance(ty[0], TIdent):
            nm = idname(ty[0])
            self.use(nm)
            if not boxed:
                self.edges.setdefault(owner, set()).add(nm)
            self.match_named(nm, spec, where)
        else:
            self.fail('type', f"{where}: type {s} is not a hoisted item for an anonymous {k}")

    def finish(self, expect_items):
        for d in self.dups:
            self.fail('duplicate-item', f"item {d} generated twice")
        for owner, fn in self.default_calls:
            if fn not in self.fns:
                self.fail('default-fn', f"impl Default for {owner} calls {fn}(), which is not generated")
        extra = [it.name for it in self.items if it.name not in self.used and it.name not in expect_items]
        if extra:
            self.fail('extra-item', f"items {extra} correspond to nothing in the source")
        # no by-value cycle (recursive components must be boxed)
        color = {}

        def dfs(n, stack):
            color[n] = 1
            for m in self.edges.get(n, ()):
                if color.get(m) == 1:
                    self.fail('unboxed-cycle', f"by-value cycle {' -> '.join(stack + [n, m])}: a recursive component is not boxed")
                    return
                if m not in color:
                    dfs(m, stack + [n])
            color[n] = 2
        for n in list(self.edges):
            if n not in color:
                dfs(n, [])
        return self.fails


def judge(items, info, chk, pc, nwarn):
    if nwarn:
        return [('warning', f"{nwarn} warning(s): a definition was not generated")]
    m = Matcher(items)
    defs = info.get('defs') or [('R', Ty('seq', members=[Mem('z', P('BOOLEAN'))])), ('T', info['top'])]
    names = {n for n, _ in defs}
    m.defs = dict(defs)
    m.used.update(names)
    for n, t in defs:
        m.cur_top = n
        m.match_named(n, t, n)
    m.used.update(info.get('ignore_items', ()))
    fails = m.finish(names)
    if chk is not None:
        chk.res.obligations += 1
        if not fails:
            chk.res.discharged += 1
    return fails


def on_reject(chk, sigp, text, info, ra):
    """documented gap of the lexer: `[[ ]]` inside a SET is a (loud) syntax error; every other shape must be accepted"""
    import re
    if re.search(r'\bSET \{[^{}]*\[\[', text):
        return
    e = ra.get('error') or {}
    chk.violation(sigp + ' rejected', f"valid notation is rejected ({str(e.get('display'))[:100]}): {text}", {'kind': 'text', 'text': text})


def jobs(tier, seed):
    return [f"chunk{i}" for i in range(NCHUNK)] + ['diff']


def run_job(prog, job, tier, seed):
    chk = Checker(prog, job)
    gen = bridge.Gen(prog)
    runner = native.Runner()
    stats = {}
    import z3
    try:
        if job == 'diff':
            bridge.diff_corpus(chk, gen, runner, 30 if tier == 'quick' else 200, seed)
            return chk.res
        i = int(job[5:])
        sh = shapes(tier)[i::NCHUNK]
        judge.on_reject = on_reject
        bridge.run_text_shapes(chk, gen, runner, sh, judge, stats, symbolic={1000003: z3.BitVec('d', 128)})
    finally:
        runner.close()
    chk.res.bounds = {'members': '1,3 quick / 1..12 thorough', 'nesting': '<= 3 levels', 'position': 'interesting member at first/last (quick) or every (thorough) position'}
    chk.res.notes.append(f"{job}: {stats}")
    return chk.res
