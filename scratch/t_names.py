import sys,re
sys.path.insert(0,'/verif')
from mirsym.core import *
import glob
p=Program(glob.glob('/verif/.cache/smir/t3-*.json')[0])
for k,v in p.inst.items():
    n=v['name']
    if 'body' not in v and (' as quote::' in n) and n.startswith('<std::'):
        print(n[:60],'...',n[-120:], v.get('aux'))
