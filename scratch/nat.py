import sys, json; sys.path.insert(0,'/verif')
from mirsym import native
r=native.Runner()
for src in sys.argv[1:]:
    x=r.compile(src, backend='ir')
    if x.get('ok'):
        for m in x['ir']:
            for t in m['tlds']: print(t[:1500]); print()
    else: print(json.dumps(x)[:1500])
    y=r.compile(src, backend='rasn')
    print(y.get('generated') or json.dumps(y)[:800]); print('----')
