import sys,glob
sys.path.insert(0,'/verif')
from mirsym.core import *
p=Program(sorted(glob.glob('/verif/.cache/smir/t3-*.json'))[0])
for k,v in p.inst.items():
    if v['name'].endswith(sys.argv[1]) and 'body' in v:
        print(v['name'])
        for b,c in sorted(v['callees'].items(), key=lambda x:int(x[0])): print('  ',b,c.get('name'))
