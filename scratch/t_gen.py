import re
import sys, time, glob, collections
sys.path.insert(0,'/verif')
from mirsym.core import *
from mirsym import frontend
R='<impl rasn_compiler::generator::rasn::Rasn>::'
path=frontend.dump([R+'generate_tld', '<rasn_compiler::generator::rasn::Rasn as rasn_compiler::generator::Backend>::generate_module'],tag='t3')
p=Program(path)
print(len(p.inst), len(p.types))
nb=collections.Counter(); hb=collections.Counter()
for k,v in p.inst.items():
    n=v['name']
    if re.match(r'^<?(proc_macro2|quote)::',n) or ' as quote::' in n or ' as proc_macro2' in n or re.match(r'^<[^ ]* as (std::\w+::)+\w+<?.*>::\w+$',n) and n.startswith('<proc_macro2'):
        key=re.sub(r'<.*','',n) if False else n
        (hb if 'body' in v else nb)[n.split('::<')[0][:110]]+=1
print('--- no body'); 
for k,c in sorted(nb.items()): print(c,k)
print('--- with body');
for k,c in sorted(hb.items()): print(c,k)
