import sys,glob,json
sys.path.insert(0,'/verif')
from mirsym.core import *
p=Program(sorted(glob.glob("/verif/.cache/smir/main-*.json"), key=__import__("os").path.getmtime)[-1])
lo,hi=int(sys.argv[2]),int(sys.argv[3])
for k,v in p.inst.items():
    if v['name'].endswith(sys.argv[1]) and 'body' in v:
        print(v['name'])
        for i,b in enumerate(v['body']['blocks'][lo:hi]):
            print('bb',lo+i)
            for s in b['statements']:
                if isinstance(s['kind'],dict) and ('Assign' in s['kind']): print('   ',json.dumps(s['kind']['Assign'])[:400])
                elif isinstance(s['kind'],dict) and ('StorageLive' in s['kind'] or 'StorageDead' in s['kind']): pass
                else: print('   ',json.dumps(s['kind'])[:200])
            print('   T',json.dumps(b['terminator']['kind'])[:400])
        break
