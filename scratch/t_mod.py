import sys, time, glob, json, traceback
sys.path.insert(0,'/verif')
from mirsym.core import *
from mirsym import frontend, tokens, native, debugparse, models, strmodels
from mirsym.models import some, none
p=Program(glob.glob('/verif/.cache/smir/t3-*.json')[0])
GM='<rasn_compiler::generator::rasn::Rasn as rasn_compiler::generator::Backend>::generate_module'
fn=p.find(GM); f=p.inst[fn]
print([p.ty(t)['str'] for t in f['locals'][1:3]])
rasn_ty=p.kind(f['locals'][1])[1]; vec_ty=f['locals'][2]
src=sys.argv[1]
r=native.Runner()
nat=r.compile(src, backend='ir'); out=r.compile(src, backend='rasn'); r.close()
ex=Exec(p)
def mkrasn(ex):
    adt=p.ty(rasn_ty)['adt']; flds=adt['variants'][0]['fields']
    vals=[]
    for fl in flds:
        t=fl['ty']; nm=fl['name']
        if nm=='config':
            cf=p.ty(t)['adt']['variants'][0]['fields']; cv=[]
            for c in cf:
                if c['name'] in('custom_imports','type_annotations'): cv.append(VecV([]))
                else: cv.append(c['name']=='opaque_open_types')
            vals.append(Adt(t,0,cv))
        elif nm=='required_derives':
            vals.append(VecV([Cell(StringV([ord(ch) for ch in s])) for s in ["AsnType","Debug","Clone","Decode","Encode","PartialEq","Eq","Hash"]]))
        else:
            vals.append(Adt(t,0,[]))
    return Adt(rasn_ty,0,vals)
def run(ex):
    tlds=[debugparse.parse(t) for t in nat['ir'][0]['tlds']]
    v=debugparse.to_value(ex, ('list',tlds), vec_ty)
    # all tlds share one module header Rc
    return ex.call(fn,[Ref(Cell(mkrasn(ex))), v])
t0=time.time()
try:
    res=ex.explore(run)
except Exception:
    traceback.print_exc(); sys.exit(1)
for x in res:
    print(x.kind, str(x.value)[:300])
    if x.kind=='ok':
        g=x.value
        gm=ex.force(g)
        if p.variant_name(gm)=='Ok':
            gen=gm.fields[0].fields[0]
            s=pystr(ex.force(gen).fields[0]) if p.variant_name(ex.force(gen))=='Some' else None
            print('MATCH' if s==out.get('generated') else 'DIFF')
            if s!=out.get('generated'): print(s); print(out.get('generated'))
print(ex.steps, f'{time.time()-t0:.1f}s', ex.unmodelled)
