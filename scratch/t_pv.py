import sys, time, glob
sys.path.insert(0,'/verif')
from mirsym.core import *
from mirsym import frontend
path=frontend.dump(["per_visible::per_visible_range_constraints","Constraint::integer_constraints","IntegerType::max_restrictive"],tag='t2')
p=Program(path); t0=time.time()
fn=p.find('per_visible::per_visible_range_constraints')
f=p.inst[fn]
cty=p.kind(p.kind(f['locals'][2])[1])[1]
ex=Exec(p)
def vf(adt,var,lazy):
    if adt=='ASN1Value': return var in('Integer',)
    if adt=='SubtypeElements': return var in('SingleValue','ValueRange')
    if adt=='Constraint': return var in('Subtype',)
    if adt=='ElementOrSetOperation':
        return var=='Element' if lazy.name.count('SetOperation')>=1 else True
    return True
ex.variant_filter=vf
def run(ex):
    c0=Cell(ex.sym_value(cty,'c0'))
    r=ex.call(fn,[True,SliceRef([c0])])
    return r
res=ex.explore(run)
kinds={}
for r in res: kinds[r.kind]=kinds.get(r.kind,0)+1
print(len(res),kinds,'steps',ex.steps,f'{time.time()-t0:.1f}s','queries',ex.queries,f'solver {ex.solver_time:.1f}s')
seen=set()
for r in res:
    if r.kind in('unsupported','truncated') and r.value not in seen: seen.add(r.value); print(r.kind,r.value)
print(ex.withheld, ex.unmodelled)
