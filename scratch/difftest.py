import sys, time, glob, json, traceback, collections
sys.path.insert(0,'/verif')
from mirsym.core import *
from mirsym import frontend, tokens, native, debugparse, models, strmodels, bridge
p=Program(sorted(glob.glob('/verif/.cache/smir/t3-*.json'))[0])
g=bridge.Gen(p)
corpus=bridge.test_corpus()
if len(sys.argv)>1: corpus=[c for c in corpus if sys.argv[1] in c[0]]
r=native.Runner()
stats=collections.Counter(); uns=collections.Counter()
for name,src in corpus:
    nat=r.compile(src, backend='ir'); out=r.compile(src, backend='rasn')
    if not nat.get('ok'): stats['native-err']+=1; continue
    ex=Exec(p)
    def run(ex):
        mods=[]
        for m in nat['ir']:
            v=g.load_module(ex, m['tlds'])
            mods.append(g.result_text(ex, g.generate_module(ex, v)))
        return mods
    res=ex.explore(run)
    if len(res)!=1: stats['multi-path']+=1; print(name,'paths',len(res)); continue
    x=res[0]
    if x.kind!='ok':
        stats[x.kind]+=1; uns[str(x.value)[:230]]+=1
        if len(sys.argv)>1: print(name, x.kind, x.value)
        continue
    text=''.join((pystr(t) if t is not None else '') for k,t,w in x.value)
    nw=sum(len(w) for k,t,w in x.value)
    if text==out.get('generated') and nw==len(out.get('warnings',[])): stats['match']+=1
    else:
        stats['DIFF']+=1; print('DIFF',name); 
        if len(sys.argv)>1: print(text); print(out.get('generated')); print(nw, out.get('warnings'))
print(dict(stats))
for k,c in uns.most_common(40): print(c,k)
