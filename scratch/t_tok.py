import sys, time, glob
sys.path.insert(0,'/verif')
from mirsym.core import *
from mirsym import frontend, tokens
from mirsym.models import some, none
p=Program(glob.glob('/verif/.cache/smir/t3-*.json')[0])
R='<impl rasn_compiler::generator::rasn::Rasn>::'
ex=Exec(p)
fn=p.find(R+'int_type_token'); f=p.inst[fn]
opt=f['locals'][2]
rasn=Ref(Cell(Opaque('rasn')))
def run(ex):
    return ex.call(fn,[rasn, some(ex,opt,-5), some(ex,opt,300), False])
res=ex.explore(run)
for r in res: print(r.kind, r.value)
fn2=p.find(R+'format_tag'); f2=p.inst[fn2]
print([p.ty(t)['str'] for t in f2['locals'][1:f2['arg_count']+1]])
