//! Instantiates the whole public pipeline (lexer -> validator/linker -> generator) for both backends so that the MIR
//! front end (run over this crate) can dump every monomorphised body behind `compile_to_string`.  Not linked into anything.
use rasn_compiler::prelude::*;
use rasn_compiler::{CompileResult, Compiler};

pub fn pipe_rasn(config: RasnConfig, sources: Vec<String>) -> Result<CompileResult, CompilerError> {
    let mut it = sources.into_iter();
    let mut c = Compiler::<RasnBackend, _>::new_with_config(config).add_asn_literal(it.next().unwrap_or_default());
    for s in it {
        c = c.add_asn_literal(s);
    }
    c.compile_to_string()
}

pub fn pipe_ts(sources: Vec<String>) -> Result<CompileResult, CompilerError> {
    let mut it = sources.into_iter();
    let mut c = Compiler::<TypescriptBackend, _>::new().add_asn_literal(it.next().unwrap_or_default());
    for s in it {
        c = c.add_asn_literal(s);
    }
    c.compile_to_string()
}

/// Both renderings of an error or warning (C08: rendering is total)
pub fn render(e: &CompilerError, src: &str) -> (String, String) {
    (e.to_string(), e.contextualize(src))
}

/// Two compilers are SET UP first and run afterwards (C11: the result of a compilation does not depend on other
/// compilers that exist in the process)
pub fn pipe_rasn_pair(
    c1: RasnConfig,
    s1: Vec<String>,
    c2: RasnConfig,
    s2: Vec<String>,
) -> (Result<CompileResult, CompilerError>, Result<CompileResult, CompilerError>) {
    fn build(config: RasnConfig, sources: Vec<String>) -> Compiler<RasnBackend, rasn_compiler::CompilerSourcesSet> {
        let mut it = sources.into_iter();
        let mut c = Compiler::<RasnBackend, _>::new_with_config(config).add_asn_literal(it.next().unwrap_or_default());
        for s in it {
            c = c.add_asn_literal(s);
        }
        c
    }
    let a = build(c1, s1);
    let b = build(c2, s2);
    let ra = a.compile_to_string();
    let rb = b.compile_to_string();
    (ra, rb)
}
