//! Instantiates the whole public pipeline (lexer -> validator/linker -> generator) for both backends so that the MIR
//! front end (run over this crate) can dump every monomorphised body behind `compile_to_string`.  Not linked into anything.
use rasn_compiler::prelude::*;
use rasn_compiler::{CompileResult, Compiler};

pub fn pipe_rasn(config: RasnConfig, sources: Vec<String>) -> Result<CompileResult, CompilerError> {
    let mut it = sources.into_iter();
    let mut c = Compiler::<RasnBackend, _>::new_with_config(config).add_asn_literal(it.next().unwrap_or_default());
    for s in it {
        c = c.add_asn_literal(s);
    }
    c.compile_to_string()
}

pub fn pipe_ts(sources: Vec<String>) -> Result<CompileResult, CompilerError> {
    let mut it = sources.into_iter();
    let mut c = Compiler::<TypescriptBackend, _>::new().add_asn_literal(it.next().unwrap_or_default());
    for s in it {
        c = c.add_asn_literal(s);
    }
    c.compile_to_string()
}

/// Both renderings of an error or warning (C08: rendering is total)
pub fn render(e: &CompilerError, src: &str) -> (String, String) {
    (e.to_string(), e.contextualize(src))
}
