#[cfg(kani)]
mod h {
    extern crate alloc;
    use rasn_compiler::prelude::ir::*;
    use core::fmt;

    fn dbg_constraint(_s: &Constraint, _f: &mut fmt::Formatter<'_>) -> fmt::Result { Ok(()) }
    fn dbg_value(_s: &ASN1Value, _f: &mut fmt::Formatter<'_>) -> fmt::Result { Ok(()) }
    fn dbg_type(_s: &ASN1Type, _f: &mut fmt::Formatter<'_>) -> fmt::Result { Ok(()) }

    fn fmt_stub(_a: fmt::Arguments<'_>) -> String { String::new() }

    #[kani::proof]
    #[kani::unwind(4)]
    #[kani::stub(alloc::fmt::format, fmt_stub)]
    #[kani::stub(<Constraint as fmt::Debug>::fmt, dbg_constraint)]
    #[kani::stub(<ASN1Value as fmt::Debug>::fmt, dbg_value)]
    #[kani::stub(<ASN1Type as fmt::Debug>::fmt, dbg_type)]
    fn int_constraints_sound() {
        let lo: i128 = kani::any();
        let hi: i128 = kani::any();
        let ext: bool = kani::any();
        let c = Constraint::Subtype(ElementSetSpecs {
            set: ElementOrSetOperation::Element(SubtypeElements::ValueRange {
                min: Some(ASN1Value::Integer(lo)),
                max: Some(ASN1Value::Integer(hi)),
                extensible: ext,
            }),
            extensible: false,
        });
        let t = c.integer_constraints();
        kani::assume(lo <= hi);
        match t {
            IntegerType::Uint8 => assert!(!ext && lo >= 0 && hi <= 255),
            IntegerType::Int8 => assert!(!ext && lo >= -128 && hi <= 127),
            IntegerType::Uint16 => assert!(!ext && lo >= 0 && hi <= 65535),
            _ => {}
        }
        kani::cover!(t == IntegerType::Int8);
        core::mem::forget(c);
    }
}
