#[cfg(kani)]
mod kani_probe {
    #[kani::proof]
    fn hex_table() {
        let c: char = kani::any();
        let b = crate::lexer::util::hex_to_bools(c);
        let v = (b[0] as u8) * 8 + (b[1] as u8) * 4 + (b[2] as u8) * 2 + (b[3] as u8);
        if let Some(d) = c.to_digit(16) {
            if c.is_ascii_digit() || c.is_ascii_uppercase() { assert!(v as u32 == d); }
        }
    }
    #[kani::proof]
    fn max_restrictive_returns_an_argument() {
        use crate::intermediate::IntegerType::*;
        let all = [Int8, Uint8, Int16, Uint16, Int32, Uint32, Int64, Uint64, Unbounded];
        let i: usize = kani::any(); let j: usize = kani::any();
        kani::assume(i < 9 && j < 9);
        let r = all[i].max_restrictive(all[j]);
        assert!(r == all[i] || r == all[j]);
    }
}

// ---------------------------------------------------------------------------------------
// The harness below (same injection point) is the one that did NOT finish:
// symex 227 s / 2.1 M steps, SSA conversion 189 s, SAT not finished at the 15 min cap.
//
// #[cfg(kani)]
// mod kani_probe_slice {
//     use crate::input::Input;
//     fn ascii_str<const N: usize>(buf: &mut [u8; N]) -> &str {
//         for i in 0..N {
//             let b: u8 = kani::any();
//             kani::assume(b == b'\n' || b == b' ' || b == b'a' || b == b'-');
//             buf[i] = b;
//         }
//         let len: usize = kani::any();
//         kani::assume(len <= N);
//         unsafe { core::str::from_utf8_unchecked(&buf[..len]) }
//     }
//     #[kani::proof]
//     #[kani::unwind(8)]
//     fn slice_line_offset() {
//         let mut buf = [0u8; 6];
//         let s = ascii_str(&mut buf);
//         let input = Input::from(s);
//         let k: usize = kani::any();
//         kani::assume(k <= s.len());
//         let out = input.slice(k..);
//         assert!(out.offset() == k);
//         let mut nl = 0usize;
//         for i in 0..k { if s.as_bytes()[i] == b'\n' { nl += 1; } }
//         assert!(out.line() == 1 + nl);
//     }
// }
