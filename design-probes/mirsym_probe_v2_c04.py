#!/usr/bin/env python3
"""Prototype v2: symbolic executor for rustc_public JSON with lazy inputs, closures,
Vec/Box/slice-iterator models.  Probe target: per_visible_range_constraints (C04)."""
import json, sys, time, copy
import z3

class Unsupported(Exception): pass
class PathEnd(Exception): pass
class Panic(Exception):
    def __init__(self, msg): self.msg = msg

INT_BITS = {'I8':8,'I16':16,'I32':32,'I64':64,'I128':128,'Isize':64,
            'U8':8,'U16':16,'U32':32,'U64':64,'U128':128,'Usize':64}

class Cell:
    __slots__=('v',)
    def __init__(self, v=None): self.v=v
class Ref:
    __slots__=('cell','path')
    def __init__(self, cell, path=()): self.cell=cell; self.path=tuple(path)
    def __repr__(self): return f"Ref(..{self.path})"
class Adt:
    __slots__=('ty','variant','fields')
    def __init__(self, ty, variant, fields): self.ty=ty; self.variant=variant; self.fields=fields
    def __repr__(self): return f"Adt(t{self.ty},v{self.variant},{self.fields})"
class Tup:
    __slots__=('fields',)
    def __init__(self, fields): self.fields=list(fields)
    def __repr__(self): return f"Tup{self.fields}"
class Lazy:
    """symbolic ADT input; template = materialised (variant, child nodes) shared by all copies"""
    __slots__=('ty','name','depth','template')
    def __init__(self, ty, name, depth): self.ty=ty; self.name=name; self.depth=depth; self.template=None
    def __repr__(self): return f"Lazy({self.name})"
class LazyVec:
    __slots__=('elem','name','depth','template')
    def __init__(self, elem, name, depth): self.elem=elem; self.name=name; self.depth=depth; self.template=None
class VecV:
    __slots__=('cells',)
    def __init__(self, cells): self.cells=cells
    def __repr__(self): return f"Vec{[c.v for c in self.cells]}"
class BoxV:
    __slots__=('cell',)
    def __init__(self, cell): self.cell=cell
    def __repr__(self): return f"Box({self.cell.v})"
class SliceRef:
    __slots__=('cells',)
    def __init__(self, cells): self.cells=cells
class IterV:
    __slots__=('cells','pos')
    def __init__(self, cells): self.cells=cells; self.pos=0
class ClosureV:
    __slots__=('ty','caps')
    def __init__(self, ty, caps): self.ty=ty; self.caps=caps
class Opaque:
    __slots__=('what',)
    def __init__(self, what): self.what=what
    def __repr__(self): return f"Opaque({self.what})"

def deep(v):
    """structural copy that shares Lazy nodes and immutable scalars"""
    if isinstance(v,Adt): return Adt(v.ty,v.variant,[deep(x) for x in v.fields])
    if isinstance(v,Tup): return Tup([deep(x) for x in v.fields])
    if isinstance(v,VecV): return VecV([Cell(deep(c.v)) for c in v.cells])
    if isinstance(v,BoxV): return BoxV(Cell(deep(v.cell.v)))
    return v

class Program:
    def __init__(self, path):
        d=json.load(open(path))
        self.inst=d['instances']; self.types={int(k):v for k,v in d['types'].items()}; self.allocs=d.get('allocs',{})
    def ty(self, tid): return self.types[tid]
    def rigid(self, tid):
        k=self.types[tid]['kind']
        return k.get('RigidTy') if isinstance(k,dict) else None
    def adt_name(self, tid):
        t=self.types[tid]; return t['adt']['name'] if 'adt' in t else None
    def find(self, suffix):
        r=[k for k,v in self.inst.items() if v['name'].endswith(suffix)]
        assert len(r)==1,(suffix,[self.inst[k]['name'] for k in r]); return r[0]

class Exec:
    def __init__(self, prog, builtins):
        self.p=prog; self.builtins=builtins
        self.solver=z3.Solver()
        self.trace=[]; self.pos=0; self.pending=[]; self.pc=[]; self.log=[]
        self.queries=0; self.solver_time=0.0; self.steps=0; self.unmodelled={}
        self.vec_max=2; self.variant_filter=None; self.max_depth=10
    # ---- decisions
    def choose(self, n, label):
        if n==1: return 0
        if self.pos < len(self.trace): c=self.trace[self.pos]
        else:
            c=0; self.trace.append(0)
            for alt in range(n-1,0,-1): self.pending.append(self.trace[:self.pos]+[alt])
        self.pos+=1; self.log.append((label,c)); return c
    def check(self, extra):
        self.queries+=1; t=time.time()
        self.solver.push(); self.solver.add(*self.pc); self.solver.add(extra)
        r=self.solver.check(); self.solver.pop(); self.solver_time+=time.time()-t; return r
    def branch(self, cond, label):
        if isinstance(cond,bool): return cond
        cond=z3.simplify(cond)
        if z3.is_true(cond): return True
        if z3.is_false(cond): return False
        t=self.check(cond)==z3.sat; f=self.check(z3.Not(cond))==z3.sat
        if t and f:
            if self.choose(2,label)==0: self.pc.append(cond); return True
            self.pc.append(z3.Not(cond)); return False
        if t: return True
        if f: return False
        raise PathEnd()
    # ---- symbolic inputs
    def sym_value(self, tid, name, depth=0):
        r=self.p.rigid(tid); t=self.p.ty(tid)
        if r=='Bool': return z3.Bool(name)
        if r=='Char': return z3.BitVec(name,32)
        if isinstance(r,dict) and ('Int' in r or 'Uint' in r):
            return z3.BitVec(name, INT_BITS[r.get('Int') or r.get('Uint')])
        if isinstance(r,dict) and 'Adt' in r:
            an=t['adt']['name']
            if an=='std::vec::Vec':
                elem=r['Adt'][1][0]['Type']; return LazyVec(elem,name,depth)
            if an=='std::boxed::Box':
                inner=r['Adt'][1][0]['Type']; return BoxV(Cell(self.sym_value(inner,name+'.*',depth)))
            if an=='std::string::String': return Opaque('String:'+name)
            return Lazy(tid,name,depth)
        if isinstance(r,dict) and 'Tuple' in r:
            return Tup([self.sym_value(x,f"{name}.{i}",depth) for i,x in enumerate(r['Tuple'])])
        return Opaque(t['str']+':'+name)
    def materialise(self, v):
        """Lazy/LazyVec -> fresh concrete-shaped value (children lazy)"""
        if isinstance(v,Lazy):
            if v.template is None:
                adt=self.p.ty(v.ty)['adt']
                allowed=[i for i,var in enumerate(adt['variants'])
                         if (self.variant_filter is None or self.variant_filter(adt['name'].split('::')[-1],var['name'],v))]
                if v.depth>=self.max_depth: allowed=[i for i in allowed if not adt['variants'][i]['fields']] or allowed[:1]
                if not allowed: raise PathEnd()
                vi=allowed[self.choose(len(allowed),f"variant:{v.name}")]
                var=adt['variants'][vi]
                v.template=(vi,[self.sym_value(f['ty'],f"{v.name}.{var['name']}.{f['name']}",v.depth+1) for f in var['fields']])
            vi,kids=v.template
            return Adt(v.ty,vi,[deep(k) for k in kids])
        if isinstance(v,LazyVec):
            if v.template is None:
                n=self.choose(self.vec_max+1,f"len:{v.name}")
                v.template=[self.sym_value(v.elem,f"{v.name}[{i}]",v.depth+1) for i in range(n)]
            return VecV([Cell(deep(k)) for k in v.template])
        return v
    # ---- places
    def get_child(self, container, step):
        kind,i=step
        if kind=='f':
            if isinstance(container,(Adt,Tup)): return container.fields[i]
            if isinstance(container,ClosureV): return container.caps[i]
            if isinstance(container,BoxV): return container
            raise Unsupported(f"field of {container!r}")
        return container
    def load_path(self, cell, path):
        v=cell.v
        if isinstance(v,(Lazy,LazyVec)): v=self.materialise(v); cell.v=v
        for step in path:
            kind,i=step
            if kind=='d':
                if isinstance(v,Adt) and v.variant!=i: raise Panic(f"bad downcast")
                continue
            child=self.get_child(v,step)
            if isinstance(child,(Lazy,LazyVec)):
                child=self.materialise(child)
                if isinstance(v,(Adt,Tup)): v.fields[i]=child
                elif isinstance(v,ClosureV): v.caps[i]=child
            v=child
        return v
    def load_raw(self, cell, path):
        """like load_path but does not force the final value"""
        if not path: return cell.v
        steps=[s for s in path]
        # strip trailing downcasts
        k=len(steps)
        while k>0 and steps[k-1][0]=='d': k-=1
        if k==0: return self.load_path(cell,())
        parent=self.load_path(cell,steps[:k-1])
        return self.get_child(parent,steps[k-1])
    def store_path(self, cell, path, val):
        steps=list(path)
        k=len(steps)
        while k>0 and steps[k-1][0]=='d': k-=1
        if k==0: cell.v=val; return
        parent=self.load_path(cell,steps[:k-1]); i=steps[k-1][1]
        if isinstance(parent,(Adt,Tup)): parent.fields[i]=val
        elif isinstance(parent,ClosureV): parent.caps[i]=val
        else: raise Unsupported(f"store into {parent!r}")
    def resolve_place(self, frame, place):
        cell=frame['locals'][place['local']]; path=[]
        for pr in place['projection']:
            if pr=='Deref':
                v=self.load_path(cell,path)
                if isinstance(v,Ref): cell,path=v.cell,list(v.path)
                elif isinstance(v,BoxV): cell,path=v.cell,[]
                else: raise Unsupported(f"deref of {v!r}")
            elif isinstance(pr,dict) and 'Field' in pr: path.append(('f',pr['Field'][0]))
            elif isinstance(pr,dict) and 'Downcast' in pr: path.append(('d',pr['Downcast']))
            else: raise Unsupported(f"projection {pr}")
        return cell,path
    # ---- constants / operands
    def const_val(self, c):
        k=c['const_']['kind']; tid=c['const_']['ty']; r=self.p.rigid(tid)
        if k=='ZeroSized':
            if isinstance(r,dict) and 'FnDef' in r: return ('fndef',tid)
            if isinstance(r,dict) and 'Closure' in r: return ClosureV(tid,[])
            if isinstance(r,dict) and 'Adt' in r: return Adt(tid,0,[])
            return Tup([])
        if isinstance(k,dict) and 'Allocated' in k:
            a=k['Allocated']; by=a['bytes']
            if a['provenance']['ptrs']:
                off,aid=a['provenance']['ptrs'][0]
                t=self.p.ty(tid); al=self.p.allocs.get(str(aid),{})
                if 'inner' in t and 'Memory' in al:
                    inner=t['inner']; ib=al['Memory']['bytes']; ir=self.p.rigid(inner)
                    if ir=='Str':
                        ln=int.from_bytes(bytes(by[8:16]),'little'); return ('str',bytes(ib[:ln]).decode())
                    it=self.p.ty(inner)
                    if 'adt' in it and all(not v['fields'] for v in it['adt']['variants']):
                        n=int.from_bytes(bytes(x or 0 for x in ib),'little')
                        for i,v in enumerate(it['adt']['variants']):
                            if int(v['discr'])==n: return Ref(Cell(Adt(inner,i,[])))
                return Opaque('constptr:'+t['str'])
            n=int.from_bytes(bytes(b if b is not None else 0 for b in by),'little')
            if r=='Bool': return n!=0
            if isinstance(r,dict) and ('Int' in r or 'Uint' in r):
                return z3.BitVecVal(n, INT_BITS[r.get('Int') or r.get('Uint')])
            if r=='Char': return z3.BitVecVal(n,32)
            if isinstance(r,dict) and 'Adt' in r:
                adt=self.p.ty(tid)['adt']
                if all(not v['fields'] for v in adt['variants']):
                    for i,v in enumerate(adt['variants']):
                        if int(v['discr'])==n: return Adt(tid,i,[])
            if self.p.ty(tid)['str'].startswith('std::option::Option<&') and n==0: return none(self,tid)
            if self.p.ty(tid)['str']=='std::option::Option<std::cmp::Ordering>':
                if n==2: return none(self,tid)
                oty=self.p.ty(tid)['adt']['variants'][1]['fields'][0]['ty']
                nm={255:'Less',0:'Equal',1:'Greater'}[n]
                vs=self.p.ty(oty)['adt']['variants']
                return some(self,tid,Adt(oty,[v['name'] for v in vs].index(nm),[]))
            return Opaque(f"const {self.p.ty(tid)['str']}")
        return Opaque(f"const kind {k}")
    def operand(self, frame, op):
        pl=op.get('Copy') or op.get('Move')
        if pl is not None:
            cell,path=self.resolve_place(frame,pl)
            v=self.load_raw(cell,path)
            return v if 'Move' in op else (v if isinstance(v,(Lazy,LazyVec)) else deep(v) if isinstance(v,(Adt,Tup)) and False else v)
        return self.const_val(op['Constant'])
    def is_signed(self, tid):
        r=self.p.rigid(tid); return isinstance(r,dict) and 'Int' in r
    def operand_ty(self, frame, op):
        if 'Constant' in op: return op['Constant']['const_']['ty']
        return self.place_ty(frame['fn'], op.get('Copy') or op.get('Move'))
    def place_ty(self, f, place):
        tid=f['locals'][place['local']]
        for pr in place['projection']:
            if pr=='Deref':
                t=self.p.ty(tid)
                if 'inner' in t: tid=t['inner']
                else: tid=self.p.rigid(tid)['Adt'][1][0]['Type']   # Box<T>
            elif isinstance(pr,dict) and 'Field' in pr: tid=pr['Field'][1]
        return tid
    def binop(self, op, a, b, signed):
        if isinstance(a,bool): a=z3.BoolVal(a)
        if isinstance(b,bool): b=z3.BoolVal(b)
        if z3.is_bool(a):
            return {'Eq':a==b,'Ne':a!=b,'BitAnd':z3.And(a,b),'BitOr':z3.Or(a,b),'BitXor':z3.Xor(a,b)}[op]
        if op=='Eq': return a==b
        if op=='Ne': return a!=b
        if op in('Lt','Le','Gt','Ge'):
            if signed: return {'Lt':a<b,'Le':a<=b,'Gt':a>b,'Ge':a>=b}[op]
            return {'Lt':z3.ULT(a,b),'Le':z3.ULE(a,b),'Gt':z3.UGT(a,b),'Ge':z3.UGE(a,b)}[op]
        if op in('Add','AddUnchecked'): return a+b
        if op in('Sub','SubUnchecked'): return a-b
        if op in('Mul','MulUnchecked'): return a*b
        if op=='BitAnd':
            try: return a&b
            except Exception: raise Unsupported(f'BitAnd {a!r} {type(a)} {b!r} {type(b)}')
        if op=='BitOr': return a|b
        if op=='BitXor': return a^b
        if op=='Cmp':
            lt=(a<b) if signed else z3.ULT(a,b)
            return ('ordering',lt,a==b)
        raise Unsupported(f"binop {op}")
    def rvalue(self, frame, rv, dest_ty):
        if 'Use' in rv:
            u=rv['Use']; return self.operand(frame, u[0] if isinstance(u,list) else u)
        if 'Ref' in rv:
            cell,path=self.resolve_place(frame,rv['Ref'][2]); return Ref(cell,path)
        if 'AddressOf' in rv:
            cell,path=self.resolve_place(frame,rv['AddressOf'][1]); return Ref(cell,path)
        if 'Discriminant' in rv:
            cell,path=self.resolve_place(frame, rv['Discriminant']); v=self.load_path(cell,path)
            if isinstance(v,Adt):
                d=int(self.p.ty(v.ty)['adt']['variants'][v.variant]['discr'])
                r=self.p.rigid(dest_ty); w=INT_BITS[r.get('Int') or r.get('Uint')] if isinstance(r,dict) else 64
                return z3.BitVecVal(d,w)
            if isinstance(v,tuple) and v[0]=='ordering':
                raise Unsupported('ordering discr')
            raise Unsupported(f"discriminant of {v!r}")
        if 'Aggregate' in rv:
            kind,ops=rv['Aggregate']; vals=[self.operand(frame,o) for o in ops]
            if kind=='Tuple': return Tup(vals)
            if isinstance(kind,dict) and 'Adt' in kind: return Adt(dest_ty, kind['Adt'][1], vals)
            if isinstance(kind,dict) and 'Array' in kind: return Tup(vals)
            if isinstance(kind,dict) and 'Closure' in kind: return ClosureV(dest_ty, vals)
            raise Unsupported(f"aggregate {kind}")
        if 'BinaryOp' in rv:
            op,a,b=rv['BinaryOp']; signed=self.is_signed(self.operand_ty(frame,a))
            r=self.binop(op,self.operand(frame,a),self.operand(frame,b),signed)
            if isinstance(r,tuple) and r[0]=='ordering':
                # fork into Less/Equal/Greater
                oty=dest_ty; vs=self.p.ty(oty)['adt']['variants']
                idx={v['name']:i for i,v in enumerate(vs)}
                if self.branch(r[1],'cmp<'): return Adt(oty,idx['Less'],[])
                if self.branch(r[2],'cmp='): return Adt(oty,idx['Equal'],[])
                return Adt(oty,idx['Greater'],[])
            return r
        if 'CheckedBinaryOp' in rv:
            op,a,b=rv['CheckedBinaryOp']; signed=self.is_signed(self.operand_ty(frame,a))
            x=self.operand(frame,a); y=self.operand(frame,b)
            if op=='Add':
                res=x+y
                ovf=z3.Or(z3.Not(z3.BVAddNoOverflow(x,y,signed)), z3.Not(z3.BVAddNoUnderflow(x,y))) if signed else z3.Not(z3.BVAddNoOverflow(x,y,False))
            elif op=='Sub':
                res=x-y
                ovf=z3.Or(z3.Not(z3.BVSubNoOverflow(x,y)), z3.Not(z3.BVSubNoUnderflow(x,y,signed))) if signed else z3.Not(z3.BVSubNoUnderflow(x,y,False))
            else: raise Unsupported(f"checked {op}")
            return Tup([res,ovf])
        if 'UnaryOp' in rv:
            op,a=rv['UnaryOp']; v=self.operand(frame,a)
            if op=='Not': return (not v) if isinstance(v,bool) else (z3.Not(v) if z3.is_bool(v) else ~v)
            if op=='Neg': return -v
            if op=='PtrMetadata':
                if isinstance(v,Ref):
                    tgt=self.load_path(v.cell,v.path)
                    if isinstance(tgt,VecV): return z3.BitVecVal(len(tgt.cells),64)
                if isinstance(v,SliceRef): return z3.BitVecVal(len(v.cells),64)
            raise Unsupported(op)
        if 'Cast' in rv:
            kind,a,tid=rv['Cast']; v=self.operand(frame,a)
            if kind=='IntToInt':
                src=self.operand_ty(frame,a); tb=INT_BITS[list(self.p.rigid(tid).values())[0]]
                if isinstance(v,bool): v=z3.If(z3.BoolVal(v),z3.BitVecVal(1,8),z3.BitVecVal(0,8))
                if z3.is_bool(v): v=z3.If(v,z3.BitVecVal(1,8),z3.BitVecVal(0,8))
                sb=v.size()
                if tb==sb: return v
                if tb<sb: return z3.Extract(tb-1,0,v)
                return z3.SignExt(tb-sb,v) if self.is_signed(src) else z3.ZeroExt(tb-sb,v)
            if kind in('PtrToPtr','Transmute') or (isinstance(kind,dict)) or 'Pointer' in str(kind):
                r=self.p.rigid(tid)
                if isinstance(v,(BoxV,Ref,SliceRef)) and isinstance(r,dict) and ('Int' in r or 'Uint' in r):
                    return z3.BitVecVal(0x10000, INT_BITS[r.get('Int') or r.get('Uint')])
                return v
            raise Unsupported(f"cast {kind}")
        if 'CopyForDeref' in rv:
            cell,path=self.resolve_place(frame, rv['CopyForDeref']); return self.load_raw(cell,path)
        if 'Len' in rv:
            cell,path=self.resolve_place(frame, rv['Len']); v=self.load_path(cell,path)
            return z3.BitVecVal(len(v.cells),64)
        raise Unsupported(f"rvalue {list(rv.keys())}")
    # ---- calls
    def call(self, mangled, args):
        f=self.p.inst[mangled]; name=f['name']
        for pat,fn in self.builtins:
            if pat(name): return fn(self,name,args,f)
        if not f.get('has_body'):
            self.unmodelled[name]=self.unmodelled.get(name,0)+1
            raise Unsupported(f"no body: {name}")
        if name.startswith(('std::','core::','alloc::','<std::','<core::','<alloc::')) and any(s in name for s in ('ptr::','alloc::raw_vec','RawVec','NonNull')):
            self.unmodelled[name]=self.unmodelled.get(name,0)+1
            raise Unsupported(f"unmodelled std: {name}")
        if '{closure' in name.split('::')[-1] and len(args)==2 and isinstance(args[1],Tup) and f['arg_count']==1+len(args[1].fields):
            args=[args[0]]+list(args[1].fields)
        return self.run_body(f,args)
    def call_closure(self, clos, args):
        """clos: ClosureV | Ref to one | fndef"""
        c=clos
        while isinstance(c,Ref): c=self.load_path(c.cell,c.path)
        if isinstance(c,tuple) and c[0]=='fndef':
            return self.call(self.p.ty(c[1])['fn_inst'],list(args))
        t=self.p.ty(c.ty)
        m=t.get('closure_Fn') or t.get('closure_FnMut') or t.get('closure_FnOnce')
        f=self.p.inst[m]
        selfty=self.p.rigid(f['locals'][1])
        selfarg = Ref(Cell(c)) if (isinstance(selfty,dict) and 'Ref' in selfty) else c
        return self.run_body(f,[selfarg]+list(args))
    def run_body(self, f, args):
        body=f['body']
        frame={'fn':f,'locals':[Cell() for _ in f['locals']]}
        assert len(args)==f['arg_count'],(f['name'],len(args),f['arg_count'])
        for i,a in enumerate(args): frame['locals'][i+1].v=a
        bb=0
        while True:
            blk=body['blocks'][bb]
            for st in blk['statements']:
                k=st['kind']
                if isinstance(k,dict) and 'Assign' in k:
                    place,rv=k['Assign']
                    dty=f['locals'][place['local']] if not place['projection'] else self.place_ty(f,place)
                    v=self.rvalue(frame,rv,dty)
                    cell,path=self.resolve_place(frame,place); self.store_path(cell,path,v)
                elif isinstance(k,dict) and 'SetDiscriminant' in k: raise Unsupported('SetDiscriminant')
                # everything else: storage markers etc.
            self.steps+=1
            if self.steps>2_000_000: raise Unsupported("step limit")
            t=blk['terminator']['kind']
            if t=='Return': return frame['locals'][0].v
            if t=='Unreachable': raise Panic('unreachable')
            if t=='Resume': raise Panic('resume')
            if 'Goto' in t: bb=t['Goto']['target']; continue
            if 'SwitchInt' in t:
                d=self.operand(frame,t['SwitchInt']['discr']); tg=t['SwitchInt']['targets']; nxt=None
                for val,target in tg['branches']:
                    if isinstance(d,bool): cond=(d==(val!=0))
                    elif z3.is_bool(d): cond = d if val!=0 else z3.Not(d)
                    else: cond=(d==z3.BitVecVal(val,d.size()))
                    if self.branch(cond,f"sw@{f['name'].split('::')[-1]}:{bb}"): nxt=target; break
                bb=tg['otherwise'] if nxt is None else nxt; continue
            if 'Drop' in t: bb=t['Drop']['target']; continue
            if 'Call' in t:
                c=t['Call']; args2=[self.operand(frame,a) for a in c['args']]
                ce=f['callees'].get(str(bb))
                if ce is None or 'inst' not in ce:
                    # indirect call through fn pointer / closure value
                    fv=self.operand(frame,c['func']); r=self.call_closure(fv,args2)
                else: r=self.call(ce['inst'],args2)
                cell,path=self.resolve_place(frame,c['destination']); self.store_path(cell,path,r)
                if c['target'] is None: raise Panic('diverging call returned')
                bb=c['target']; continue
            if 'Assert' in t:
                a=t['Assert']; cond=self.operand(frame,a['cond'])
                want=cond if a['expected'] else (z3.Not(cond) if not isinstance(cond,bool) else (not cond))
                if not self.branch(want,'assert'): raise Panic(f"assert {json.dumps(a['msg'])[:100]}")
                bb=a['target']; continue
            raise Unsupported(f"terminator {t}")
    def explore(self, run_one, max_paths=200000):
        results=[]; self.pending=[[]]
        while self.pending and len(results)<max_paths:
            self.trace=self.pending.pop(); self.pos=0; self.pc=[]; self.log=[]
            try: results.append(('ok',run_one(self),list(self.pc),list(self.log)))
            except PathEnd: pass
            except Panic as e: results.append(('panic',e.msg,list(self.pc),list(self.log)))
            except Unsupported as e: results.append(('unsupported',str(e),list(self.pc),list(self.log)))
        return results

# ---------------- builtins --------------------------------------------------
def some(ex, opt_ty, v):
    vs=ex.p.ty(opt_ty)['adt']['variants']; i=[x['name'] for x in vs].index('Some'); return Adt(opt_ty,i,[v])
def none(ex, opt_ty):
    vs=ex.p.ty(opt_ty)['adt']['variants']; i=[x['name'] for x in vs].index('None'); return Adt(opt_ty,i,[])
def ret_ty(f): return f['locals'][0]
def deref_all(ex,v):
    while isinstance(v,Ref): v=ex.load_path(v.cell,v.path)
    return v
def as_cells(ex,v):
    v=deref_all(ex,v)
    if isinstance(v,VecV): return v.cells
    if isinstance(v,SliceRef): return v.cells
    raise Unsupported(f"as_cells {v!r}")

def b_slice_iter(ex,n,a,f): return IterV(as_cells(ex,a[0]))
def b_iter_next(ex,n,a,f):
    it=deref_all(ex,a[0])
    if it.pos<len(it.cells):
        c=it.cells[it.pos]; it.pos+=1; return some(ex,ret_ty(f),Ref(c))
    return none(ex,ret_ty(f))
def b_iter_find(ex,n,a,f):
    it=deref_all(ex,a[0]); pred=a[1]
    while it.pos<len(it.cells):
        c=it.cells[it.pos]; it.pos+=1
        r=ex.call_closure(pred,[Ref(Cell(Ref(c)))])
        if ex.branch(r,'find-pred'): return some(ex,ret_ty(f),Ref(c))
    return none(ex,ret_ty(f))
def b_iter_any(ex,n,a,f):
    it=deref_all(ex,a[0]); pred=a[1]
    while it.pos<len(it.cells):
        c=it.cells[it.pos]; it.pos+=1
        r=ex.call_closure(pred,[Ref(c)])
        if ex.branch(r,'any-pred'): return True
    return False
def b_vec_deref(ex,n,a,f):
    v=deref_all(ex,a[0]); return SliceRef(v.cells)
def b_clone(ex,n,a,f):
    v=a[0]
    if isinstance(v,Ref): v=ex.load_raw(v.cell,v.path)
    return deep(v)
def b_min(ex,n,a,f): x,y=a; return z3.If(x<=y,x,y)
def b_max(ex,n,a,f): x,y=a; return z3.If(y>=x,y,x)
def b_into_i128(ex,n,a,f):
    src=n.split(' as ')[0].strip('<'); v=a[0]
    return z3.SignExt(128-v.size(),v) if src.startswith('i') else z3.ZeroExt(128-v.size(),v)
def b_box_new(ex,n,a,f): return BoxV(Cell(a[0]))

BUILTINS=[
 (lambda n: n.startswith('core::slice::<impl [') and n.endswith(']>::iter'), b_slice_iter),
 (lambda n: n.startswith('<std::slice::Iter<') and n.endswith('as std::iter::Iterator>::next'), b_iter_next),
 (lambda n: n.startswith('<std::slice::Iter<') and '>::find::<' in n, b_iter_find),
 (lambda n: n.startswith('<std::slice::Iter<') and '>::any::<' in n, b_iter_any),
 (lambda n: n.startswith('<std::vec::Vec<') and n.endswith('as std::ops::Deref>::deref'), b_vec_deref),
 (lambda n: n.endswith('as std::clone::Clone>::clone'), b_clone),
 (lambda n: n=='<i128 as std::cmp::Ord>::min', b_min),
 (lambda n: n=='<i128 as std::cmp::Ord>::max', b_max),
 (lambda n: n.endswith('as std::convert::Into<i128>>::into'), b_into_i128),
 (lambda n: n.startswith('std::boxed::Box::<') and n.endswith('>::new'), b_box_new),
 (lambda n: n in('alloc::fmt::format','std::fmt::format'), lambda ex,n,a,f: Opaque('String:fmt')),
 (lambda n: n.startswith('std::fmt::Arguments') or n.startswith('core::fmt::rt::'), lambda ex,n,a,f: Opaque('fmt-args')),
 (lambda n: n.startswith('std::hint::must_use'), lambda ex,n,a,f: a[0]),
 (lambda n: n=='<std::string::String as std::ops::Deref>::deref', lambda ex,n,a,f: Opaque('str')),
 (lambda n: 'GrammarError::new' in n, lambda ex,n,a,f: Opaque('GrammarError')),
 (lambda n: n.startswith('std::io::_eprint') or n.startswith('std::io::_print'), lambda ex,n,a,f: Tup([])),
]

# ---------------- C04 probe harness --------------------------------------------
def vname(p,v):
    if isinstance(v,Lazy):
        if v.template is None: return '?'
        return p.ty(v.ty)['adt']['variants'][v.template[0]]['name']
    return p.ty(v.ty)['adt']['variants'][v.variant]['name']

def ref_sem(p, ex, c, x):
    """reference semantics over the *materialised* input: returns (permits(x), hull_lo, hull_hi, ext)
       hull bounds are (is_finite Bool, value BV) pairs; only integer elements"""
    NEG=(z3.BoolVal(False),z3.BitVecVal(0,128))
    def elem(e):
        n=vname(p,e)
        if n=='SingleValue':
            val,ext=e.fields; val=force(val)
            if vname(p,val)!='Integer': return None
            i=val.fields[0]; return (x==i,(z3.BoolVal(True),i),(z3.BoolVal(True),i),ext)
        if n=='ValueRange':
            mn,mx,ext=e.fields; mn=force(mn); mx=force(mx)
            def b(o):
                if vname(p,o)=='None': return (z3.BoolVal(False),z3.BitVecVal(0,128))
                a=force(o.fields[0])
                if vname(p,a)!='Integer': return 'bad'
                return (z3.BoolVal(True),a.fields[0])
            lo=b(mn); hi=b(mx)
            if lo=='bad' or hi=='bad': return None
            perm=z3.And(z3.Or(z3.Not(lo[0]),x>=lo[1]), z3.Or(z3.Not(hi[0]),x<=hi[1]))
            return (perm,lo,hi,ext)
        return None
    def force(v):
        return ex.materialise(v) if isinstance(v,(Lazy,LazyVec)) else v
    def lo_min(a,b):  # hull lower bound of union: -inf absorbs
        return (z3.And(a[0],b[0]), z3.If(a[1]<=b[1],a[1],b[1]))
    def hi_max(a,b): return (z3.And(a[0],b[0]), z3.If(a[1]>=b[1],a[1],b[1]))
    def lo_max(a,b):  # intersection lower bound: finite if either finite
        return (z3.Or(a[0],b[0]), z3.If(z3.And(a[0],b[0]), z3.If(a[1]>=b[1],a[1],b[1]), z3.If(a[0],a[1],b[1])))
    def hi_min(a,b):
        return (z3.Or(a[0],b[0]), z3.If(z3.And(a[0],b[0]), z3.If(a[1]<=b[1],a[1],b[1]), z3.If(a[0],a[1],b[1])))
    def eos(s):
        s=force(s); n=vname(p,s)
        if n=='Element': return elem(force(s.fields[0]))
        so=force(s.fields[0]); base,op,operant=so.fields
        b=elem(force(base)); op=force(op); o=operant
        if isinstance(o,BoxV): o=o.cell.v
        r=eos(o)
        if b is None or r is None: return None
        on=vname(p,op)
        if on=='Union': return (z3.Or(b[0],r[0]),lo_min(b[1],r[1]),hi_max(b[2],r[2]),z3.Or(b[3],r[3]))
        if on=='Intersection': return (z3.And(b[0],r[0]),lo_max(b[1],r[1]),hi_min(b[2],r[2]),z3.Or(b[3],r[3]))
        return (z3.And(b[0],z3.Not(r[0])),b[1],b[2],b[3])   # EXCEPT: hull ignores the excluded part
    c=force(c)
    if vname(p,c)!='Subtype': return None
    ess=force(c.fields[0]); st,outer_ext=ess.fields
    r=eos(st)
    if r is None: return None
    return (r[0],r[1],r[2],z3.Or(r[3],outer_ext))

if __name__=='__main__':
    p=Program(sys.argv[1]); t0=time.time()
    fn=p.find('per_visible::per_visible_range_constraints')
    f=p.inst[fn]
    slice_ref_ty=f['locals'][2]; cty=p.ty(slice_ref_ty)['inner']; cty=p.ty(cty)['inner']
    ex=Exec(p,BUILTINS)
    def vf(adt,var,lazy):
        if adt=='ASN1Value': return var in('Integer',)
        if adt=='SubtypeElements': return var in('SingleValue','ValueRange')
        if adt=='Constraint': return var in('Subtype',)
        if adt=='ElementOrSetOperation':
            # at most 2 operands in this probe
            return var=='Element' if lazy.name.count('SetOperation')>=1 else True
        return True
    ex.variant_filter=vf
    def run(ex):
        signed=True
        c0=Cell(ex.sym_value(cty,'c0'))
        sl=SliceRef([c0])
        r=ex.call(fn,[signed,sl])
        return {'ret':r,'c0':c0}
    res=ex.explore(run)
    kinds={}
    for k,*_ in res: kinds[k]=kinds.get(k,0)+1
    print(f"{len(res)} paths {kinds} steps={ex.steps} {time.time()-t0:.1f}s queries={ex.queries} solver={ex.solver_time:.1f}s")
    for k,r,pc,log in res:
        if k=='unsupported': print('UNSUPPORTED',r); break
    print('unmodelled:',ex.unmodelled)
    viol=0; checked=0; sigs={}
    x=z3.BitVec('x',128)
    for k,r,pc,log in res:
        if k!='ok': continue
        ret=r['ret']
        if vname(p,ret)!='Ok':
            nonok=globals().setdefault('nonok',[]); nonok.append([l for l in log if l[0].startswith('variant')][:6]); continue
        pv=ret.fields[0]   # PerVisibleRangeConstraints {min,max,extensible,is_size}
        mn,mx,ext,issz=pv.fields
        sem=ref_sem(p,ex,r['c0'].v,x)
        if sem is None:
            print('SEM-NONE', [ (l[0].split('set.')[-1],l[1]) for l in log if l[0].startswith('variant')]); continue
        perm,lo,hi,rext=sem
        def optbound(o,cmp):
            o=ex.materialise(o) if isinstance(o,(Lazy,)) else o
            if vname(p,o)=='None': return z3.BoolVal(True)
            return cmp(o.fields[0])
        inside=z3.And(optbound(mn,lambda b: x>=b), optbound(mx,lambda b: x<=b))
        s=z3.Solver(); s.add(*pc); s.add(perm, z3.Not(inside))
        checked+=1
        c_=r['c0'].v; st_=c_.fields[0].fields[0]
        if vname(p,st_)=='SetOperation':
            so_=st_.fields[0]; opd_=so_.fields[2].cell.v
            def d2(e):
                n=vname(p,e)
                if n=='ValueRange' and isinstance(e,Adt): return 'R('+('MIN' if vname(p,e.fields[0])=='None' else 'lo')+','+('MAX' if vname(p,e.fields[1])=='None' else 'hi')+')'
                return n
            key=(vname(p,so_.fields[1]),d2(so_.fields[0]),d2(opd_.fields[0]) if isinstance(opd_,Adt) and vname(p,opd_)=='Element' else str(opd_)[:20])
            allsh=globals().setdefault('allsh',{}); allsh[key]=allsh.get(key,0)+1
        if s.check()==z3.sat:
            viol+=1; m=s.model()
            c=r['c0'].v; ess=c.fields[0]; st=ess.fields[0]
            def desc(e):
                n=vname(p,e)
                if n=='ValueRange' and isinstance(e,Adt):
                    return 'Range('+('MIN' if vname(p,e.fields[0])=='None' else 'lo')+'..'+('MAX' if vname(p,e.fields[1])=='None' else 'hi')+')'
                return n
            if vname(p,st)=='SetOperation':
                so=st.fields[0]; opd=so.fields[2].cell.v
                sig=(vname(p,so.fields[1]), desc(so.fields[0]), desc(opd.fields[0]) if vname(p,opd)=='Element' else 'nested')
            else: sig=('Element',desc(st.fields[0]))
            sigs[sig]=sigs.get(sig,0)+1
    for k_,v_ in sorted(globals().get('allsh',{}).items()): print('   shape',k_,v_)
    print('non-Ok results:',len(globals().get('nonok',[])))
    for k_,v_ in sorted(sigs.items()): print('   role', k_, v_)
    print(f"checked {checked} Ok-paths, soundness violations {viol}")
