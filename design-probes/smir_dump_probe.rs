#![feature(rustc_private)]
extern crate rustc_driver;
extern crate rustc_interface;
extern crate rustc_middle;
#[macro_use]
extern crate rustc_public;
extern crate rustc_public_bridge;
extern crate serde;
extern crate serde_json;

use std::collections::{BTreeMap, BTreeSet, VecDeque};
use std::ops::ControlFlow;
use rustc_public::mir::mono::{Instance, InstanceKind};
use rustc_public::mir::{TerminatorKind, Operand, Rvalue, StatementKind, ConstOperand};
use rustc_public::ty::{Ty, TyKind, RigidTy, AdtDef, GenericArgs, ConstantKind};
use rustc_public::CrateDef;
use rustc_public_bridge::IndexedVal;
use serde_json::{json, Value};

struct Ctx {
    types: BTreeMap<usize, Value>,
    ty_queue: VecDeque<Ty>,
    seen_ty: BTreeSet<usize>,
    insts: BTreeMap<String, Value>,
    inst_queue: VecDeque<Instance>,
    seen_inst: BTreeSet<String>,
}

fn ty_id(t: Ty) -> usize { serde_json::to_value(&t).unwrap().as_u64().unwrap() as usize }

impl Ctx {
    fn note_ty(&mut self, t: Ty) -> usize {
        let id = ty_id(t);
        if self.seen_ty.insert(id) { self.ty_queue.push_back(t); }
        id
    }
    fn note_inst(&mut self, i: Instance) -> String {
        let name = i.mangled_name();
        if self.seen_inst.insert(name.clone()) { self.inst_queue.push_back(i); }
        name
    }
    fn process_ty(&mut self, t: Ty) {
        let id = ty_id(t);
        let kind = t.kind();
        let mut v = json!({"kind": serde_json::to_value(&kind).unwrap(), "str": format!("{}", t)});
        if let TyKind::RigidTy(r) = &kind {
            match r {
                RigidTy::Adt(def, args) => {
                    let mut variants = vec![];
                    for (vi, var) in def.variants().into_iter().enumerate() {
                        let mut fields = vec![];
                        for f in var.fields() {
                            let fty = f.ty_with_args(args);
                            fields.push(json!({"name": f.name, "ty": self.note_ty(fty)}));
                        }
                        let discr = if def.kind() == rustc_public::ty::AdtKind::Enum { def.discriminant_for_variant(rustc_public::ty::VariantIdx::to_val(vi)).val.to_string() } else { vi.to_string() };
                        variants.push(json!({"name": var.name(), "fields": fields, "discr": discr}));
                    }
                    v["adt"] = json!({"name": def.name(), "kind": format!("{:?}", def.kind()), "variants": variants});
                }
                RigidTy::Tuple(ts) => { let ids: Vec<usize> = ts.iter().map(|t| self.note_ty(*t)).collect(); v["tuple"] = json!(ids); }
                RigidTy::Ref(_, t2, _) | RigidTy::RawPtr(t2, _) | RigidTy::Slice(t2) => { v["inner"] = json!(self.note_ty(*t2)); }
                RigidTy::Array(t2, _) => { v["inner"] = json!(self.note_ty(*t2)); }
                RigidTy::Closure(def, args) => {
                    v["closure_args"] = serde_json::to_value(args).unwrap();
                    for (kn, kind) in [("Fn", rustc_public::ty::ClosureKind::Fn), ("FnMut", rustc_public::ty::ClosureKind::FnMut), ("FnOnce", rustc_public::ty::ClosureKind::FnOnce)] {
                        if let Ok(ci) = Instance::resolve_closure(*def, args, kind) {
                            let m = self.note_inst(ci);
                            v[format!("closure_{}", kn)] = json!(m);
                        }
                    }
                }
                RigidTy::FnDef(def, args) => {
                    if let Ok(ci) = Instance::resolve(*def, args) { let m = self.note_inst(ci); v["fn_inst"] = json!(m); }
                }
                _ => {}
            }
        }
        self.types.insert(id, v);
    }
    fn process_inst(&mut self, inst: Instance) {
        let name = inst.mangled_name();
        let mut v = json!({"name": inst.name(), "kind": format!("{:?}", inst.kind), "has_body": inst.has_body()});
        if let Some(body) = inst.body() {
            let locals: Vec<usize> = body.locals().iter().map(|l| self.note_ty(l.ty)).collect();
            v["locals"] = json!(locals);
            v["arg_count"] = json!(body.arg_locals().len());
            // resolve callees
            let mut callees = BTreeMap::new();
            for (bi, bb) in body.blocks.iter().enumerate() {
                if let TerminatorKind::Call { func, .. } = &bb.terminator.kind {
                    if let Operand::Constant(c) = func {
                        let fty = c.ty();
                        if let TyKind::RigidTy(RigidTy::FnDef(def, args)) = fty.kind() {
                            match Instance::resolve(def, &args) {
                                Ok(ci) => { let m = self.note_inst(ci); callees.insert(bi.to_string(), json!({"inst": m, "name": ci.name()})); }
                                Err(e) => { callees.insert(bi.to_string(), json!({"error": format!("{:?}", e), "name": def.name()})); }
                            }
                        }
                    }
                }
            }
            v["callees"] = json!(callees);
            v["body"] = serde_json::to_value(&body).unwrap();
        }
        self.insts.insert(name, v);
    }
}

fn dump() -> ControlFlow<()> {
    let krate = rustc_public::local_crate();
    if krate.name != "rasn_compiler" { return ControlFlow::Continue(()); }
    let roots: Vec<String> = std::env::var("SMIR_ROOTS").unwrap_or_default().split(',').map(|s| s.to_string()).collect();
    let mut cx = Ctx { types: BTreeMap::new(), ty_queue: VecDeque::new(), seen_ty: BTreeSet::new(), insts: BTreeMap::new(), inst_queue: VecDeque::new(), seen_inst: BTreeSet::new() };
    let mut root_names = vec![];
    for item in rustc_public::all_local_items() {
        let name = item.name();
        if roots.iter().any(|r| !r.is_empty() && name.ends_with(r.as_str())) {
            if let Ok(inst) = Instance::try_from(item) { root_names.push((name.clone(), cx.note_inst(inst))); }
        }
    }
    let max: usize = std::env::var("SMIR_MAX").ok().and_then(|s| s.parse().ok()).unwrap_or(2000);
    let mut n = 0;
    loop {
        while let Some(i) = cx.inst_queue.pop_front() {
            cx.process_inst(i);
            n += 1; if n > max { break; }
        }
        while let Some(t) = cx.ty_queue.pop_front() { cx.process_ty(t); }
        if cx.inst_queue.is_empty() || n > max { break; }
    }
    // global allocations referenced by constants (transitively)
    fn scan(v: &Value, out: &mut Vec<usize>) {
        match v {
            Value::Object(m) => {
                if let Some(Value::Array(ps)) = m.get("ptrs") {
                    for p in ps { if let Some(id) = p.get(1).and_then(|x| x.as_u64()) { out.push(id as usize); } }
                }
                for (_, x) in m { scan(x, out); }
            }
            Value::Array(a) => for x in a { scan(x, out); },
            _ => {}
        }
    }
    let mut allocs: BTreeMap<usize, Value> = BTreeMap::new();
    let mut todo: Vec<usize> = vec![];
    for (_, i) in cx.insts.iter() { scan(i, &mut todo); }
    while let Some(id) = todo.pop() {
        if allocs.contains_key(&id) { continue; }
        let ga = rustc_public::mir::alloc::GlobalAlloc::from(rustc_public::mir::alloc::AllocId::to_val(id));
        let v = match &ga {
            rustc_public::mir::alloc::GlobalAlloc::Memory(a) => json!({"Memory": serde_json::to_value(a).unwrap()}),
            rustc_public::mir::alloc::GlobalAlloc::Static(d) => json!({"Static": d.name()}),
            rustc_public::mir::alloc::GlobalAlloc::Function(i) => json!({"Function": i.mangled_name()}),
            _ => json!("Other"),
        };
        scan(&v, &mut todo);
        allocs.insert(id, v);
    }
    let out = json!({"roots": root_names, "instances": cx.insts, "types": cx.types, "allocs": allocs});
    let path = std::env::var("SMIR_OUT").unwrap_or("/var/tmp/smir.json".into());
    std::fs::write(&path, serde_json::to_string(&out).unwrap()).unwrap();
    eprintln!("smir: {} instances, {} types -> {}", cx.insts.len(), cx.types.len(), path);
    ControlFlow::Continue(())
}

fn main() {
    let mut args: Vec<String> = std::env::args().collect();
    if args.len() > 1 && args[1].ends_with("rustc") { args.remove(1); }
    let _ = run!(&args, dump);
}
