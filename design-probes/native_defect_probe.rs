use rasn_compiler::prelude::*;
fn compile(src: &str) -> Result<CompileResult, CompilerError> {
    Compiler::<RasnBackend, _>::new().add_asn_literal(src).compile_to_string()
}
fn show(title: &str, src: &str) {
    println!("=== {title}\n{src}");
    let s = src.to_string();
    let r = std::panic::catch_unwind(move || {
        match compile(&s) {
            Ok(r) => { println!("OK warnings={:?}\n{}", r.warnings.iter().map(|w| w.to_string()).collect::<Vec<_>>(), r.generated); }
            Err(e) => { println!("ERR display: {e}"); if let CompilerError::Lexer(le) = &e { println!("kind {:?}", le.kind); } println!("ctx: {}", e.contextualize(&s)); }
        }
    });
    if r.is_err() { println!("!!! PANIC"); }
}
fn main() {
    std::env::remove_var("CARGO_HOME"); std::env::remove_var("CARGO");
    show("enum", "M DEFINITIONS AUTOMATIC TAGS ::= BEGIN E ::= ENUMERATED { a(1), b, c(0) } END");
    show("union-min", "M DEFINITIONS AUTOMATIC TAGS ::= BEGIN I ::= INTEGER (MIN..3 | 5..10) J ::= INTEGER (1..5 ^ 2..3 | 10..20) S ::= SEQUENCE { a INTEGER (MIN..3 | 5..10) } END");
    show("nested-tag", "M DEFINITIONS EXPLICIT TAGS ::= BEGIN S ::= SEQUENCE { a [0] INTEGER, b SEQUENCE { c [1] INTEGER }, d SEQUENCE OF [2] INTEGER } END");
    show("open-comment", "M DEFINITIONS ::= BEGIN A ::= INTEGER END /*");
    show("eof-error", "M DEFINITIONS ::= BEGIN A ::= ");
    show("line", "M DEFINITIONS ::= BEGIN\nA ::= INTEGER\nB ::= SEQUENCE {\n a INTEGER,\n b ??? }\nEND");
    show("compof", "M DEFINITIONS AUTOMATIC TAGS ::= BEGIN B ::= SEQUENCE { x BOOLEAN } S ::= SEQUENCE { a INTEGER, COMPONENTS OF B, ..., c NULL } END");
    show("extgroup-compof", "M DEFINITIONS AUTOMATIC TAGS ::= BEGIN B ::= SEQUENCE { x BOOLEAN } S ::= SEQUENCE { a INTEGER, ..., [[ COMPONENTS OF B ]] } END");
}
