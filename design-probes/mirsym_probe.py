#!/usr/bin/env python3
"""Prototype: symbolic executor for rustc_public (stable MIR) JSON.
Path enumeration by re-execution with a decision trace; z3 for scalars."""
import json, sys, time
import z3

class Unsupported(Exception): pass
class PathEnd(Exception): pass          # path infeasible / cut
class Panic(Exception):
    def __init__(self, msg): self.msg = msg

INT_BITS = {'I8':8,'I16':16,'I32':32,'I64':64,'I128':128,'Isize':64,
            'U8':8,'U16':16,'U32':32,'U64':64,'U128':128,'Usize':64}

class Cell:
    __slots__=('v',)
    def __init__(self, v=None): self.v=v

class Ref:
    __slots__=('cell','path','mut')
    def __init__(self, cell, path=(), mut=False): self.cell=cell; self.path=tuple(path); self.mut=mut
    def __repr__(self): return f"Ref({id(self.cell)&0xffff:x},{self.path})"

class Adt:
    """enum or struct value; variant is a concrete int (0 for structs)"""
    __slots__=('ty','variant','fields')
    def __init__(self, ty, variant, fields): self.ty=ty; self.variant=variant; self.fields=fields
    def __repr__(self): return f"Adt(t{self.ty},v{self.variant},{self.fields})"

class Tup:
    __slots__=('fields',)
    def __init__(self, fields): self.fields=list(fields)
    def __repr__(self): return f"Tup{self.fields}"

class Lazy:
    """symbolic input of ADT type whose variant has not been observed yet"""
    __slots__=('ty','name','depth')
    def __init__(self, ty, name, depth): self.ty=ty; self.name=name; self.depth=depth
    def __repr__(self): return f"Lazy({self.name})"

class FnPtr:
    def __init__(self, inst): self.inst=inst

class Program:
    def __init__(self, path):
        d=json.load(open(path))
        self.inst=d['instances']; self.types={int(k):v for k,v in d['types'].items()}
        self.roots=dict((n.split('::')[-1],m) for n,m in d['roots'])
    def ty(self, tid): return self.types[tid]
    def rigid(self, tid):
        k=self.types[tid]['kind']
        return k.get('RigidTy') if isinstance(k,dict) else None

class Exec:
    def __init__(self, prog, builtins, max_depth=3):
        self.p=prog; self.builtins=builtins; self.max_depth=max_depth
        self.solver=z3.Solver()
        self.trace=[]; self.pos=0; self.pending=[]
        self.pc=[]; self.fresh=0; self.calls=0; self.choices_log=[]
        self.queries=0; self.solver_time=0.0

    # ---- decisions -------------------------------------------------
    def choose(self, n, label):
        """pick one of n options; DFS over all"""
        if self.pos < len(self.trace):
            c=self.trace[self.pos]
        else:
            c=0; self.trace.append(0)
            for alt in range(n-1,0,-1):
                self.pending.append(self.trace[:self.pos]+[alt])
        self.pos+=1; self.choices_log.append((label,c)); return c

    def check(self, extra=None):
        self.queries+=1; t=time.time()
        self.solver.push()
        for c in self.pc: self.solver.add(c)
        if extra is not None: self.solver.add(extra)
        r=self.solver.check(); self.solver.pop()
        self.solver_time+=time.time()-t
        return r

    def branch(self, cond, label):
        """cond: z3 Bool or python bool -> python bool, forking if both feasible"""
        if isinstance(cond,bool): return cond
        cond=z3.simplify(cond)
        if z3.is_true(cond): return True
        if z3.is_false(cond): return False
        t=self.check(cond)==z3.sat; f=self.check(z3.Not(cond))==z3.sat
        if t and f:
            c=self.choose(2,label)
            if c==0: self.pc.append(cond); return True
            self.pc.append(z3.Not(cond)); return False
        if t: return True
        if f: return False
        raise PathEnd()

    # ---- symbolic inputs ----------------------------------------------
    def sym_scalar(self, tid, name):
        r=self.p.rigid(tid)
        if r=='Bool': return z3.Bool(name)
        if isinstance(r,dict) and ('Int' in r or 'Uint' in r):
            return z3.BitVec(name, INT_BITS[r.get('Int') or r.get('Uint')])
        raise Unsupported(f"sym scalar {self.p.ty(tid)['str']}")

    def sym_value(self, tid, name, depth=0, shape=None):
        r=self.p.rigid(tid); t=self.p.ty(tid)
        if r=='Bool' or (isinstance(r,dict) and ('Int' in r or 'Uint' in r)): return self.sym_scalar(tid,name)
        if isinstance(r,dict) and 'Adt' in r: return Lazy(tid,name,depth)
        if isinstance(r,dict) and 'Tuple' in r:
            return Tup([self.sym_value(x,f"{name}.{i}",depth) for i,x in enumerate(r['Tuple'])])
        return ('opaque', t['str'], name)

    def force(self, cell_or_val_getter, lazy, setter):
        """materialise a Lazy ADT: choose variant, create lazy fields"""
        t=self.p.ty(lazy.ty); adt=t['adt']
        allowed=self.allowed_variants(lazy)
        if not allowed: raise PathEnd()
        c=self.choose(len(allowed), f"variant:{lazy.name}")
        vi=allowed[c]; var=adt['variants'][vi]
        fields=[self.sym_field(f['ty'], f"{lazy.name}.{var['name']}.{f['name']}", lazy.depth+1) for f in var['fields']]
        v=Adt(lazy.ty, vi, fields); setter(v); return v

    def allowed_variants(self, lazy):
        t=self.p.ty(lazy.ty); adt=t['adt']
        filt=getattr(self,'variant_filter',None)
        res=[]
        for i,var in enumerate(adt['variants']):
            if filt and not filt(adt['name'], var['name'], lazy): continue
            res.append(i)
        return res

    def sym_field(self, tid, name, depth):
        hook=getattr(self,'field_hook',None)
        if hook:
            v=hook(self, tid, name, depth)
            if v is not None: return v
        return self.sym_value(tid, name, depth)

    # ---- places ---------------------------------------------------------
    def load_path(self, root_cell, path):
        """walk a path of ('f',i)/('d',variant) from cell value, forcing lazies"""
        v=root_cell.v
        if isinstance(v,Lazy):
            v=self.force(None, v, lambda nv: setattr(root_cell,'v',nv))
        for idx,step in enumerate(path):
            kind,i=step
            if kind=='f':
                container=v
                child=container.fields[i]
                if isinstance(child,Lazy) and (idx+1<len(path)):
                    child=self.force(None, child, lambda nv,c=container,i=i: c.fields.__setitem__(i,nv))
                v=child
            elif kind=='d':
                if isinstance(v,Adt) and v.variant!=i: raise Panic(f"downcast to {i} of variant {v.variant}")
            else: raise Unsupported(kind)
        return v

    def store_path(self, root_cell, path, val):
        if not path: root_cell.v=val; return
        parent=self.load_path(root_cell, path[:-1]) if path[:-1] else root_cell.v
        if isinstance(parent,Lazy): parent=self.force(None,parent,lambda nv: setattr(root_cell,'v',nv))
        last=path[-1]
        # skip downcasts at the end
        k=len(path)-1
        while path[k][0]=='d': k-=1
        parent=self.load_path(root_cell, path[:k]) if k>0 else self.load_path(root_cell,())
        parent.fields[path[k][1]]=val

    def resolve_place(self, frame, place):
        """-> (cell, path)"""
        cell=frame['locals'][place['local']]; path=[]
        for pr in place['projection']:
            if pr=='Deref':
                v=self.load_path(cell,path)
                if isinstance(v,Ref): cell,path=v.cell,list(v.path)
                elif isinstance(v,BoxV): cell,path=v.cell,[]
                else: raise Unsupported(f"deref of {v!r}")
            elif isinstance(pr,dict) and 'Field' in pr: path.append(('f',pr['Field'][0]))
            elif isinstance(pr,dict) and 'Downcast' in pr: path.append(('d',pr['Downcast']))
            else: raise Unsupported(f"projection {pr}")
        return cell,path

    def read_place(self, frame, place):
        cell,path=self.resolve_place(frame,place)
        v=self.load_path(cell,path)
        return v

    # ---- operands / constants ------------------------------------------------
    def const_val(self, c):
        k=c['const_']['kind']; tid=c['const_']['ty']; r=self.p.rigid(tid)
        if k=='ZeroSized':
            if isinstance(r,dict) and 'FnDef' in r: return ('fndef',tid)
            return Tup([])
        if isinstance(k,dict) and 'Allocated' in k:
            a=k['Allocated']; by=a['bytes']
            if a['provenance']['ptrs']: return ('constptr',c)
            n=int.from_bytes(bytes(b if b is not None else 0 for b in by),'little')
            if r=='Bool': return n!=0
            if isinstance(r,dict) and ('Int' in r or 'Uint' in r):
                return z3.BitVecVal(n, INT_BITS[r.get('Int') or r.get('Uint')])
            if r=='Char': return z3.BitVecVal(n,32)
            if isinstance(r,dict) and 'Adt' in r:
                # fieldless enum constant
                adt=self.p.ty(tid)['adt']
                if all(not v['fields'] for v in adt['variants']): return Adt(tid,n,[])
            raise Unsupported(f"const of {self.p.ty(tid)['str']}")
        raise Unsupported(f"const kind {k}")

    def operand(self, frame, op):
        if 'Copy' in op: return self.read_place(frame, op['Copy'])
        if 'Move' in op: return self.read_place(frame, op['Move'])
        if 'Constant' in op: return self.const_val(op['Constant'])
        raise Unsupported(str(op))

    # ---- rvalues ----------------------------------------------------------------
    def is_signed(self, tid):
        r=self.p.rigid(tid); return isinstance(r,dict) and 'Int' in r

    def binop(self, op, a, b, signed):
        if isinstance(a,bool) or z3.is_bool(a):
            a=a if not isinstance(a,bool) else z3.BoolVal(a); b=b if not isinstance(b,bool) else z3.BoolVal(b)
            return {'Eq':a==b,'Ne':a!=b,'BitAnd':z3.And(a,b),'BitOr':z3.Or(a,b),'BitXor':z3.Xor(a,b)}[op]
        if op=='Eq': return a==b
        if op=='Ne': return a!=b
        if op in('Lt','Le','Gt','Ge'):
            if signed: return {'Lt':a<b,'Le':a<=b,'Gt':a>b,'Ge':a>=b}[op]
            return {'Lt':z3.ULT(a,b),'Le':z3.ULE(a,b),'Gt':z3.UGT(a,b),'Ge':z3.UGE(a,b)}[op]
        if op in('Add','AddUnchecked'): return a+b
        if op in('Sub','SubUnchecked'): return a-b
        if op in('Mul','MulUnchecked'): return a*b
        if op=='BitAnd': return a&b
        if op=='BitOr': return a|b
        if op=='BitXor': return a^b
        raise Unsupported(f"binop {op}")

    def operand_ty(self, frame, op):
        if 'Constant' in op: return op['Constant']['const_']['ty']
        pl=op.get('Copy') or op.get('Move')
        tid=frame['fn']['locals'][pl['local']]
        for pr in pl['projection']:
            if pr=='Deref':
                tid=self.p.ty(tid).get('inner')
            elif isinstance(pr,dict) and 'Field' in pr: tid=pr['Field'][1]
        return tid

    def rvalue(self, frame, rv, dest_ty):
        if 'Use' in rv:
            u=rv['Use']; return self.operand(frame, u[0] if isinstance(u,list) else u)
        if 'Ref' in rv:
            _,kind,place=rv['Ref']; cell,path=self.resolve_place(frame,place)
            return Ref(cell,path,mut=(kind!='Shared'))
        if 'Discriminant' in rv:
            cell,path=self.resolve_place(frame, rv['Discriminant'])
            v=self.load_path(cell,path)
            if isinstance(v,Lazy):
                v=self.force_at(cell,path,v)
            if isinstance(v,Adt): return z3.BitVecVal(v.variant,64)
            raise Unsupported(f"discriminant of {v!r}")
        if 'Aggregate' in rv:
            kind,ops=rv['Aggregate']; vals=[self.operand(frame,o) for o in ops]
            if kind=='Tuple': return Tup(vals)
            if isinstance(kind,dict) and 'Adt' in kind:
                a=kind['Adt']; return Adt(dest_ty, a[1], vals)
            if isinstance(kind,dict) and 'Array' in kind: return Tup(vals)
            raise Unsupported(f"aggregate {kind}")
        if 'BinaryOp' in rv:
            op,a,b=rv['BinaryOp']; signed=self.is_signed(self.operand_ty(frame,a))
            return self.binop(op,self.operand(frame,a),self.operand(frame,b),signed)
        if 'UnaryOp' in rv:
            op,a=rv['UnaryOp']; v=self.operand(frame,a)
            if op=='Not': return (not v) if isinstance(v,bool) else (z3.Not(v) if z3.is_bool(v) else ~v)
            if op=='Neg': return -v
            raise Unsupported(op)
        if 'Cast' in rv:
            kind,a,tid=rv['Cast']; v=self.operand(frame,a)
            if kind in('IntToInt',):
                src=self.operand_ty(frame,a); tb=INT_BITS[list(self.p.rigid(tid).values())[0]]
                sb=v.size()
                if tb==sb: return v
                if tb<sb: return z3.Extract(tb-1,0,v)
                return z3.SignExt(tb-sb,v) if self.is_signed(src) else z3.ZeroExt(tb-sb,v)
            raise Unsupported(f"cast {kind}")
        if 'CopyForDeref' in rv: return self.read_place(frame, rv['CopyForDeref'])
        raise Unsupported(f"rvalue {list(rv.keys())}")

    def force_at(self, cell, path, lazy):
        if not path:
            return self.force(None,lazy,lambda nv: setattr(cell,'v',nv))
        k=len(path)-1
        while path[k][0]=='d': k-=1
        parent=self.load_path(cell,path[:k]); i=path[k][1]
        return self.force(None,lazy,lambda nv: parent.fields.__setitem__(i,nv))

    # ---- calls -----------------------------------------------------------------
    def call(self, mangled, args, depth=0):
        f=self.p.inst[mangled]; name=f['name']
        self.calls+=1
        for pat,fn in self.builtins:
            if pat(name): return fn(self,name,args)
        if not f.get('has_body'): raise Unsupported(f"no body: {name}")
        return self.run_body(f,args,depth)

    def run_body(self, f, args, depth):
        body=f['body']; nloc=len(f['locals'])
        frame={'fn':f,'locals':[Cell() for _ in range(nloc)]}
        for i,a in enumerate(args): frame['locals'][i+1].v=a
        bb=0; steps=0
        while True:
            blk=body['blocks'][bb]
            for st in blk['statements']:
                k=st['kind']
                if isinstance(k,dict) and 'Assign' in k:
                    place,rv=k['Assign']
                    # type of destination for aggregates
                    dty=f['locals'][place['local']] if not place['projection'] else self.place_ty(f,place)
                    v=self.rvalue(frame,rv,dty)
                    cell,path=self.resolve_place(frame,place)
                    self.store_path(cell,path,v)
                elif k in('Nop',) or (isinstance(k,dict) and (set(k)&{'StorageLive','StorageDead','FakeRead','Retag','PlaceMention','AscribeUserType','Coverage','ConstEvalCounter'})):
                    pass
                elif k=='Nop': pass
                else: raise Unsupported(f"stmt {k}")
            t=blk['terminator']['kind']
            steps+=1
            if steps>100000: raise Unsupported("step limit")
            if t=='Return': return frame['locals'][0].v
            if t=='Unreachable': raise Panic('unreachable')
            if t=='Resume': raise Panic('resume')
            if 'Goto' in t: bb=t['Goto']['target']; continue
            if 'SwitchInt' in t:
                d=self.operand(frame,t['SwitchInt']['discr']); tg=t['SwitchInt']['targets']
                nxt=None
                for val,target in tg['branches']:
                    if isinstance(d,bool): cond=(d==(val!=0))
                    elif z3.is_bool(d): cond = d if val!=0 else z3.Not(d)
                    else: cond=(d==z3.BitVecVal(val,d.size()))
                    if self.branch(cond,f"switch@{f['name'].split('::')[-1]}:{bb}"): nxt=target; break
                if nxt is None: nxt=tg['otherwise']
                bb=nxt; continue
            if 'Drop' in t: bb=t['Drop']['target']; continue
            if 'Call' in t:
                c=t['Call']; args2=[self.operand(frame,a) for a in c['args']]
                ce=f['callees'].get(str(bb))
                if ce is None or 'inst' not in ce: raise Unsupported(f"unresolved call in {f['name']} bb{bb}: {ce}")
                r=self.call(ce['inst'],args2,depth+1)
                cell,path=self.resolve_place(frame,c['destination']); self.store_path(cell,path,r)
                if c['target'] is None: raise Panic('diverging call returned')
                bb=c['target']; continue
            if 'Assert' in t:
                a=t['Assert']; cond=self.operand(frame,a['cond'])
                ok=self.branch(cond if a['expected'] else (z3.Not(cond) if not isinstance(cond,bool) else not cond), 'assert')
                if not ok: raise Panic(f"assert {json.dumps(a['msg'])[:80]}")
                bb=a['target']; continue
            raise Unsupported(f"terminator {t}")

    def place_ty(self, f, place):
        tid=f['locals'][place['local']]
        for pr in place['projection']:
            if pr=='Deref': tid=self.p.ty(tid).get('inner')
            elif isinstance(pr,dict) and 'Field' in pr: tid=pr['Field'][1]
        return tid

    # ---- driver ------------------------------------------------------------------
    def explore(self, run_one, max_paths=100000):
        """run_one(self) executes one path and returns a result dict"""
        results=[]; self.pending=[[]]
        while self.pending and len(results)<max_paths:
            self.trace=self.pending.pop(); self.pos=0; self.pc=[]; self.choices_log=[]
            try:
                r=run_one(self); results.append(('ok',r,list(self.pc),list(self.choices_log)))
            except PathEnd: pass
            except Panic as e: results.append(('panic',e.msg,list(self.pc),list(self.choices_log)))
        return results

class BoxV:
    def __init__(self, cell): self.cell=cell

# ---------------- builtins -----------------------------------------------------------
def b_min(ex,name,args):
    a,b=args; return z3.If(a<=b,a,b)   # Ord::min on signed ints: min_by picks v1 if v1<=v2 ... value-equal anyway
def b_max(ex,name,args):
    a,b=args; return z3.If(b>=a,b,a)
def b_into_int(ex,name,args):
    # <uN/iN as Into<i128>>::into
    src=name.split(' as ')[0].strip('<'); v=args[0]; tb=128
    if isinstance(v,int): return z3.BitVecVal(v,128)
    return z3.SignExt(tb-v.size(),v) if src.startswith('i') else z3.ZeroExt(tb-v.size(),v)
def b_opaque_string(ex,name,args): return ('opaque-string',)
def b_grammar_error(ex,name,args): return ('GrammarError',)

BUILTINS=[
 (lambda n: n=='<i128 as std::cmp::Ord>::min', b_min),
 (lambda n: n=='<i128 as std::cmp::Ord>::max', b_max),
 (lambda n: n.endswith('as std::convert::Into<i128>>::into'), b_into_int),
 (lambda n: n in('alloc::fmt::format','std::fmt::format') or n.startswith('alloc::fmt::format'), b_opaque_string),
 (lambda n: n.startswith('std::hint::must_use'), lambda ex,n,a: a[0]),
 (lambda n: n=='<std::string::String as std::ops::Deref>::deref', lambda ex,n,a: ('opaque-str',)),
 (lambda n: n.startswith('std::fmt::Arguments') or n.startswith('core::fmt::rt::'), lambda ex,n,a: ('fmt-args',)),
 (lambda n: 'GrammarError::new' in n, b_grammar_error),
]

if __name__=='__main__':
    p=Program(sys.argv[1])
    t0=time.time()
    # ---- harness: integer_constraints on a lazily-shaped Constraint -----------------
    fn=[k for k,v in p.inst.items() if v['name'].endswith('Constraint::integer_constraints')][0]
    f=p.inst[fn]; cty=p.ty(f['locals'][1])['inner']
    ex=Exec(p,BUILTINS)
    def vf(adt,var,lazy):
        adt=adt.split('::')[-1]
        if adt=='ASN1Value': return var in('Integer','Boolean','ElsewhereDeclaredValue')
        if adt=='SubtypeElements': return var in('SingleValue','ValueRange','SizeConstraint')
        if adt=='ElementOrSetOperation' and lazy.depth>3: return var=='Element'
        if adt=='Constraint': return var in('Subtype',)
        return True
    ex.variant_filter=vf
    def run(ex):
        c=Cell(ex.sym_value(cty,'c'))
        r=ex.call(fn,[Ref(c)])
        return {'ret':r,'input':c.v}
    res=ex.explore(run)
    print(len(res),'paths',f"{time.time()-t0:.2f}s queries={ex.queries} solver={ex.solver_time:.2f}s")
    names=[v['name'] for v in p.ty(f['locals'][0])['adt']['variants']]
    BOUNDS={'Int8':(-128,127),'Uint8':(0,255),'Int16':(-2**15,2**15-1),'Uint16':(0,2**16-1),'Int32':(-2**31,2**31-1),'Uint32':(0,2**32-1),'Int64':(-2**63,2**63-1),'Uint64':(0,2**64-1)}
    def show(v,ind=0):
        if isinstance(v,Adt):
            var=p.ty(v.ty)['adt']['variants'][v.variant]['name']
            return f"{var}({', '.join(show(x) for x in v.fields)})"
        return str(v)
    bad=0
    def get(v,*names):
        for n in names:
            var=p.ty(v.ty)['adt']['variants'][v.variant]
            idx=[f['name'] for f in var['fields']].index(n); v=v.fields[idx]
        return v
    def vname(v): return p.ty(v.ty)['adt']['variants'][v.variant]['name']
    for kind,r,pc,log in res:
        if kind!='ok': print('PANIC',r,log); bad+=1; continue
        ity=names[r['ret'].variant]; inp=r['input']
        if ity=='Unbounded': continue
        lo,hi=BOUNDS[ity]
        # reference semantics: x permitted by the constraint element
        x=z3.BitVec('x',128)
        elem=inp.fields[0].fields[0].fields[0]   # Subtype(ElementSetSpecs{set: Element(e)})
        en=vname(elem)
        def intval(ov):  # Option<ASN1Value> -> z3 or None
            if vname(ov)=='None': return None
            a=ov.fields[0]
            return a.fields[0] if vname(a)=='Integer' else 'nonint'
        if en=='ValueRange':
            mn,mx,ext=elem.fields; mn=intval(mn); mx=intval(mx)
            permitted=z3.And(*( ([x>=mn] if mn is not None and not isinstance(mn,str) else []) + ([x<=mx] if mx is not None and not isinstance(mx,str) else []) ))
            extf=ext
        elif en=='SingleValue':
            val,ext=elem.fields; permitted=(x==val.fields[0]); extf=ext
        else: print('??',en); continue
        s=z3.Solver(); s.add(*pc)
        # violation: some permitted x outside the chosen type, or type fixed although extensible
        s.add(z3.Or(z3.And(permitted, z3.Or(x<lo, x>hi)), extf))
        # exclude empty constraint (lo>hi) -- no values permitted means nothing to violate (permitted false)
        rr=s.check()
        print(ity.ljust(8), en, 'VIOLATION '+str(s.model()) if rr==z3.sat else 'holds(unsat)')
        bad+= rr==z3.sat
    print('paths',len(res),'violations',bad)
